"""Translator part of the tie (DESIGN 2.2): literal constants and call signatures are read from
/repo's *current* source with `ast` (no execution) and written into lean/SkyllhModel/Generated/.
If an extraction fails (code moved) the caller falls back to the recorded value and says so in the
evidence; the correspondence check then decides."""
import ast
import os

from harness.core import REPO


def parse(relpath):
    with open(os.path.join(REPO, relpath)) as f:
        return ast.parse(f.read(), relpath)


def find_class(tree, name):
    for node in ast.walk(tree):
        if isinstance(node, ast.ClassDef) and node.name == name:
            return node
    return None


def find_func(tree_or_class, name):
    for node in ast.walk(tree_or_class):
        if isinstance(node, (ast.FunctionDef, ast.AsyncFunctionDef)) and node.name == name:
            return node
    return None


def literal(node):
    """Evaluate a literal expression, allowing unary minus, simple arithmetic on literals and
    np.<const> names used in the code base."""
    try:
        return ast.literal_eval(node)
    except Exception:
        pass
    if isinstance(node, ast.BinOp):
        l, r = literal(node.left), literal(node.right)
        ops = {ast.Add: lambda a, b: a + b, ast.Sub: lambda a, b: a - b, ast.Mult: lambda a, b: a * b,
               ast.Div: lambda a, b: a / b, ast.Pow: lambda a, b: a ** b}
        return ops[type(node.op)](l, r)
    if isinstance(node, ast.UnaryOp) and isinstance(node.op, ast.USub):
        return -literal(node.operand)
    if isinstance(node, ast.Attribute) and isinstance(node.value, ast.Name) and node.value.id in ('np', 'numpy'):
        import math
        return {'pi': math.pi, 'inf': math.inf, 'e': math.e}[node.attr]
    raise ValueError('not a literal: ' + ast.dump(node))


def class_attr(relpath, cls, attr):
    """Value assigned to `attr` in the class body, or to `self.attr` in any method of the class."""
    c = find_class(parse(relpath), cls)
    if c is None:
        raise LookupError('%s: class %s not found' % (relpath, cls))
    for node in ast.walk(c):
        if isinstance(node, ast.Assign):
            for t in node.targets:
                if (isinstance(t, ast.Name) and t.id == attr) or (
                        isinstance(t, ast.Attribute) and t.attr == attr and isinstance(t.value, ast.Name) and t.value.id == 'self'):
                    return literal(node.value)
    raise LookupError('%s: %s.%s not found' % (relpath, cls, attr))


def arg_default(relpath, cls, func, arg):
    tree = parse(relpath)
    scope = find_class(tree, cls) if cls else tree
    if scope is None:
        raise LookupError('%s: class %s not found' % (relpath, cls))
    f = find_func(scope, func)
    if f is None:
        raise LookupError('%s: %s.%s not found' % (relpath, cls, func))
    args = f.args
    pos = args.posonlyargs + args.args
    defaults = [None] * (len(pos) - len(args.defaults)) + list(args.defaults)
    for a, d in zip(pos, defaults):
        if a.arg == arg and d is not None:
            return literal(d)
    for a, d in zip(args.kwonlyargs, args.kw_defaults):
        if a.arg == arg and d is not None:
            return literal(d)
    raise LookupError('%s: default of %s.%s(%s) not found' % (relpath, cls, func, arg))


def func_params(relpath, cls, func):
    """(all parameter names without self, names of required parameters, has **kwargs)."""
    tree = parse(relpath)
    scope = find_class(tree, cls) if cls else tree
    if scope is None:
        raise LookupError('%s: class %s not found' % (relpath, cls))
    f = None
    for node in scope.body if hasattr(scope, 'body') else []:
        if isinstance(node, ast.FunctionDef) and node.name == func:
            f = node
    if f is None:
        raise LookupError('%s: %s.%s not found' % (relpath, cls, func))
    a = f.args
    pos = [x.arg for x in a.posonlyargs + a.args]
    nreq = len(pos) - len(a.defaults)
    required = pos[:nreq] + [x.arg for x, d in zip(a.kwonlyargs, a.kw_defaults) if d is None]
    names = pos + [x.arg for x in a.kwonlyargs]
    if names and names[0] in ('self', 'cls'):
        names = names[1:]
        required = [r for r in required if r not in ('self', 'cls')]
    return names, required, a.kwarg is not None


def call_keywords(relpath, cls, func, callee_attr):
    """Keyword names (and number of positional arguments) of every call `<expr>.callee_attr(...)`
    inside cls.func."""
    tree = parse(relpath)
    scope = find_class(tree, cls) if cls else tree
    f = find_func(scope, func)
    res = []
    for node in ast.walk(f):
        if isinstance(node, ast.Call) and isinstance(node.func, ast.Attribute) and node.func.attr == callee_attr:
            res.append((len(node.args), [k.arg for k in node.keywords]))
    return res


def lean_float(x):
    """A Lean scientific literal denoting exactly the decimal repr of the Python float."""
    r = repr(float(x))
    if 'e' in r or '.' in r:
        return r
    return r + '.0'


def lean_str_list(xs):
    return '[' + ', '.join('"%s"' % x for x in xs) + ']'
