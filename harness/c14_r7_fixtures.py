"""C14 round 7: constants / branch structure regenerated from the source, and the correspondence kinds + the
loader oracle for the definitions of lean/SkyllhModel/Model/LivetimeR7.lean.

Verdict relations: exception *classes* (never messages), values that are only passed through exactly, sums with a
tolerance (absolute floor tied to the edge magnitudes + conditioning term)."""
import ast
import os
import shutil
import tempfile

import numpy as np

from harness.core import f2b, flist, b2f

LT = 'skyllh/core/livetime.py'
I3 = 'skyllh/i3/livetime.py'
DS = 'skyllh/core/dataset.py'

# recorded values (fallback whenever the source has a shape the extraction does not fully recognise)
RECORDED = dict(reqNdim=2, reqCols=2, endRight=True, startRight=False, tMinNone=True, tMaxNone=True,
                subsetStartOp='GtE', subsetStopOp='Lt', emptyWindowOp='LtE')

# What is extracted are *semantic facts* whose change is a behaviour change: the two shape literals of the integrity check, the
# `right=` flag of the two numpy.digitize calls, the comparison of the event times against the two window ends (normalised to
# "time <op> bound", whatever the syntax: np.logical_and / & / helper function / either operand order / chained comparison), the
# comparison of the empty-window early return (normalised to "t_end <op> t_start") and the None defaults of draw_ontimes.
# Every extractor returns a value only for a shape it recognises completely and unambiguously; anything else raises LookupError and
# the recorded value is used (with a note).  The order of the raised exception classes is evidence only (ctx.extra), no obligation:
# a rewrite may restructure raising code without changing behaviour, and a behaviour-changing reorder is caught by the
# correspondence kinds with two simultaneous defects (assertint / construct / i3ds / subsetfull).

_FLIP = {'Lt': 'Gt', 'Gt': 'Lt', 'LtE': 'GtE', 'GtE': 'LtE', 'Eq': 'Eq', 'NotEq': 'NotEq'}


def _func(relpath, cls, name):
    from harness import extract
    tree = extract.parse(relpath)
    scope = extract.find_class(tree, cls) if cls else tree
    f = extract.find_func(scope, name)
    if f is None:
        raise LookupError('%s: %s.%s not found' % (relpath, cls, name))
    return f


def _raises(f):
    """exception class names of the `raise X(...)` statements of a function, in source order (evidence only)"""
    out = []
    for node in ast.walk(f):
        if isinstance(node, ast.Raise) and isinstance(node.exc, ast.Call) and isinstance(node.exc.func, ast.Name):
            out.append((node.lineno, node.exc.func.id))
    return [n for _, n in sorted(out)]


def _binary_compares(f):
    """(left, op name, right) of every link of every comparison chain in f (nested functions and lambdas included)"""
    out = []
    for node in ast.walk(f):
        if isinstance(node, ast.Compare):
            terms = [node.left] + list(node.comparators)
            for lhs, op, rhs in zip(terms, node.ops, terms[1:]):
                out.append((lhs, type(op).__name__, rhs))
    return out


def _is_attr(node, attr_path):
    """node is `<x>.ndim` for ('ndim',) or `<x>.shape[1]` for ('shape', 1)"""
    if len(attr_path) == 2:
        if not (isinstance(node, ast.Subscript) and isinstance(node.slice, ast.Constant) and node.slice.value == attr_path[1]):
            return False
        node = node.value
    return isinstance(node, ast.Attribute) and node.attr == attr_path[0]


def _shape_literal(f, attr_path):
    """the unique natural-number literal that `<arr>.<attr_path>` is compared with by == or != (either operand order)"""
    vals = set()
    for lhs, op, rhs in _binary_compares(f):
        for x, y in ((lhs, rhs), (rhs, lhs)):
            if _is_attr(x, attr_path):
                if op not in ('Eq', 'NotEq') or not (isinstance(y, ast.Constant) and isinstance(y.value, int) and not isinstance(y.value, bool)
                                                      and y.value >= 0):
                    raise LookupError('unrecognised comparison of %r' % (attr_path,))
                vals.add(y.value)
    if len(vals) != 1:
        raise LookupError('%d distinct literals compared with %r' % (len(vals), attr_path))
    return vals.pop()


def _digitize_right(f):
    """`right` flags of the direct numpy.digitize calls in f; a flag that is not a literal is not recognised"""
    out = []
    for node in ast.walk(f):
        if isinstance(node, ast.Call) and isinstance(node.func, ast.Attribute) and node.func.attr == 'digitize':
            kw = {k.arg: k.value for k in node.keywords}
            if None in kw or len(node.args) > 3 or (len(node.args) == 3 and 'right' in kw):
                raise LookupError('unrecognised digitize call')
            r = kw.get('right', node.args[2] if len(node.args) == 3 else None)
            if r is None:
                out.append(False)
            elif isinstance(r, ast.Constant) and isinstance(r.value, bool):
                out.append(r.value)
            else:
                raise LookupError('digitize right= is not a literal')
    return out


def _bound_op(f, bound):
    """the unique operator <op> of "time <op> bound" over all comparisons in f that have the plain name `bound` as one operand"""
    ops = set()
    for lhs, op, rhs in _binary_compares(f):
        l_is = isinstance(lhs, ast.Name) and lhs.id == bound
        r_is = isinstance(rhs, ast.Name) and rhs.id == bound
        if l_is and r_is:
            raise LookupError('bound compared with itself')
        if r_is:
            ops.add(op)
        elif l_is:
            if op not in _FLIP:
                raise LookupError('unrecognised operator')
            ops.add(_FLIP[op])
    if len(ops) != 1 or not ops <= set(_FLIP):
        raise LookupError('%d distinct comparisons against %s' % (len(ops), bound))
    return ops.pop()


def _empty_window_op(g):
    """<op> of the early return `if t_end <op> t_start` (first top-level `if`; either operand order)"""
    ifs = [n for n in g.body if isinstance(n, ast.If)]
    if not ifs or not isinstance(ifs[0].test, ast.Compare) or len(ifs[0].test.ops) != 1:
        raise LookupError('first if is not a single comparison')
    t = ifs[0].test
    lhs, rhs, op = t.left, t.comparators[0], type(t.ops[0]).__name__
    names = [x.id if isinstance(x, ast.Name) else None for x in (lhs, rhs)]
    if op not in _FLIP or not (len(ifs[0].body) == 1 and isinstance(ifs[0].body[0], ast.Return)):
        raise LookupError('not an early return on an order comparison')
    if names == ['t_end', 't_start']:
        return op
    if names == ['t_start', 't_end']:
        return _FLIP[op]
    raise LookupError('first if does not compare t_end with t_start')


def _default_is_none(d, name):
    a = d.args
    pos = a.posonlyargs + a.args
    defaults = dict(zip([x.arg for x in pos][len(pos) - len(a.defaults):], a.defaults))
    defaults.update({x.arg: dv for x, dv in zip(a.kwonlyargs, a.kw_defaults) if dv is not None})
    if name not in defaults or not isinstance(defaults[name], ast.Constant):
        raise LookupError('no literal default for %s' % name)
    return defaults[name].value is None


def _only(xs, what):
    if len(xs) != 1:
        raise LookupError('expected one numpy.digitize call in %s, found %d' % (what, len(xs)))
    return xs[0]


EXTRACTORS = {
    'reqNdim': lambda: _shape_literal(_func(LT, 'Livetime', 'assert_mjd_intervals_integrity'), ('ndim',)),
    'reqCols': lambda: _shape_literal(_func(LT, 'Livetime', 'assert_mjd_intervals_integrity'), ('shape', 1)),
    'endRight': lambda: _only(_digitize_right(_func(LT, 'Livetime', 'get_uptime_intervals_between')), 'get_uptime_intervals_between'),
    'startRight': lambda: _only(_digitize_right(_func(LT, 'Livetime', '_get_onoff_interval_indices')), '_get_onoff_interval_indices'),
    'emptyWindowOp': lambda: _empty_window_op(_func(LT, 'Livetime', 'get_uptime_intervals_between')),
    'tMinNone': lambda: _default_is_none(_func(LT, 'Livetime', 'draw_ontimes'), 't_min'),
    'tMaxNone': lambda: _default_is_none(_func(LT, 'Livetime', 'draw_ontimes'), 't_max'),
    'subsetStartOp': lambda: _bound_op(_func(DS, None, 'get_data_subset'), 't_start'),
    'subsetStopOp': lambda: _bound_op(_func(DS, None, 'get_data_subset'), 't_stop'),
}


def raise_orders():
    """evidence only: exception classes raised by the three guarded functions, in source order"""
    out = {}
    for key, (rel, cls, fn) in {'assert_mjd_intervals_integrity': (LT, 'Livetime', 'assert_mjd_intervals_integrity'),
                                'from_I3Dataset': (I3, 'I3Livetime', 'from_I3Dataset'), 'get_data_subset': (DS, None, 'get_data_subset')}.items():
        try:
            out[key] = _raises(_func(rel, cls, fn))
        except Exception as e:  # noqa
            out[key] = 'not extracted: %s' % (e,)
    return out


_VALUES = {}


def values(ctx=None):
    """the extracted facts (per process); each one falls back to its recorded value on its own, noted in the evidence"""
    if 'v' not in _VALUES:
        v, failed = {}, []
        for name, fn in EXTRACTORS.items():
            try:
                v[name] = fn()
                if type(v[name]) is not type(RECORDED[name]):
                    raise LookupError('unexpected type %r' % (v[name],))
            except Exception as e:  # noqa
                v[name] = RECORDED[name]
                failed.append((name, e))
        _VALUES['v'], _VALUES['failed'] = v, failed
    if ctx is not None and not _VALUES.get('noted'):
        _VALUES['noted'] = True
        for name, e in _VALUES['failed']:
            ctx.note('C14: the source shape around %s is not recognised by the extraction (%s); using the recorded value %r' % (name, e, RECORDED[name]))
            ctx.proof['generated_fallbacks'].append(name)
    return _VALUES['v']


def generated_text(ctx):
    v = values(ctx)
    b = lambda x: 'true' if x else 'false'  # noqa
    return ('/- generated by harness/props/c14.py (harness/c14_r7_fixtures.py) from skyllh/core/livetime.py and skyllh/core/dataset.py of the\n'
            '   current source — do not edit.  Semantic facts only; unrecognised source shapes fall back to the recorded values. -/\n'
            'namespace Gen.C14\n'
            '/-- `arr.ndim != <reqNdim>` in assert_mjd_intervals_integrity -/\n'
            'def reqNdim : Nat := %d\n'
            '/-- `arr.shape[1] != <reqCols>` -/\n'
            'def reqCols : Nat := %d\n'
            '/-- `right=` of the numpy.digitize call locating t_start (via _get_onoff_interval_indices) / t_end -/\n'
            'def startRight : Bool := %s\n'
            'def endRight : Bool := %s\n'
            '/-- the early return of get_uptime_intervals_between, normalised to `t_end <op> t_start` -/\n'
            'def emptyWindowOp : String := "%s"\n'
            '/-- defaults of draw_ontimes(t_min, t_max) are None -/\n'
            'def tMinNone : Bool := %s\n'
            'def tMaxNone : Bool := %s\n'
            '/-- the event masks of get_data_subset, normalised to `time <op> t_start` / `time <op> t_stop` -/\n'
            'def subsetStartOp : String := "%s"\n'
            'def subsetStopOp : String := "%s"\n'
            'end Gen.C14\n' % (v['reqNdim'], v['reqCols'], b(v['startRight']), b(v['endRight']), v['emptyWindowOp'], b(v['tMinNone']),
                               b(v['tMaxNone']), v['subsetStartOp'], v['subsetStopOp']))


# ------------------------------------------------------------------------------------------
# scratch directory for good-run-list files

_TMP = {}


def tmpdir():
    if 'd' not in _TMP:
        _TMP['d'] = tempfile.mkdtemp(prefix='C14_r7_')
        import atexit
        atexit.register(lambda: shutil.rmtree(_TMP['d'], ignore_errors=True))
        _TMP['n'] = 0
    return _TMP['d']


def write_files(files):
    """one .npy structured array per good-run-list file; returns the file names (relative to tmpdir())"""
    d = tmpdir()
    names = []
    for rows in files:
        _TMP['n'] += 1
        name = 'grl_%06d.npy' % _TMP['n']
        arr = np.empty((len(rows),), dtype=[('run', np.int64), ('start', np.float64), ('stop', np.float64)])
        arr['run'] = np.arange(len(rows))
        arr['start'] = [a for a, b in rows]
        arr['stop'] = [b for a, b in rows]
        np.save(os.path.join(d, name), arr)
        names.append(name)
    return names


def _cfg():
    if 'cfg' not in _TMP:
        from skyllh.core.config import Config
        _TMP['cfg'] = Config()
    return _TMP['cfg']


def mk_dataset(names, pathform, is_i3=True):
    """I3Dataset (or plain Dataset) whose GRL files are given with absolute names, or relative to its root directory"""
    from skyllh.core.dataset import Dataset
    from skyllh.i3.dataset import I3Dataset
    d = tmpdir()
    kw = dict(cfg=_cfg(), name='c14', exp_pathfilenames=None, mc_pathfilenames=None, livetime=None, default_sub_path_fmt='', version=1)
    if pathform == 'rel':
        kw['base_path'] = d
        grl = list(names)
    else:
        grl = [os.path.join(d, n) for n in names]
        if pathform == 'abs+base':
            kw['base_path'] = d
    if not is_i3:
        return Dataset(**kw)
    return I3Dataset(grl_pathfilenames=grl if grl else None, **kw)


def split_files(rng, ivs):
    """the rows of an interval list distributed over 1..3 files (file order = time order; empty files allowed)"""
    k = rng.choice([1, 2, 2, 3])
    cuts = sorted(rng.randrange(0, len(ivs) + 1) for _ in range(k - 1))
    out, prev = [], 0
    for c in cuts + [len(ivs)]:
        out.append([list(p) for p in ivs[prev:c]])
        prev = c
    return out


# ------------------------------------------------------------------------------------------
# case generation

DESC_VARIANTS = ['ok', 'list', 'tuple', 'f4', 'i8', 'ndim1', 'ndim3', 'cols3', 'cols1', 'unsorted', 'empty',
                 'list+unsorted', 'f4+ndim1', 'ndim1+unsorted', 'cols3+unsorted', 'i8+cols1']


def desc_case(rng, ivs, variant):
    data = [x for p in ivs for x in p]
    nd, dt, shape = True, 'f8', [len(ivs), 2]
    for v in variant.split('+'):
        if v in ('list', 'tuple'):
            nd = v
        elif v in ('f4', 'i8'):
            dt = v
        elif v == 'ndim1':
            shape = [len(data)]
        elif v == 'ndim3':
            shape = [len(ivs), 2, 1]
        elif v == 'cols3':
            data = data + data[:len(ivs)]
            data = sorted(data) if 'unsorted' not in variant else data
            shape = [len(ivs), 3]
        elif v == 'cols1':
            shape = [len(data), 1]
        elif v == 'unsorted':
            if len(data) >= 2 and data[0] != data[-1]:
                k = rng.randrange(len(data) - 1)
                j = rng.randrange(k + 1, len(data))
                data[k], data[j] = data[j], data[k]
        elif v == 'empty':
            data, shape = [], [0, 2]
    return {'nd': nd, 'dt': dt, 'shape': shape, 'data': [float(x) for x in data]}


def build_desc(c):
    arr = np.array(c['data'], dtype=np.float64).reshape(tuple(c['shape']))
    if c['dt'] == 'f4':
        arr = arr.astype(np.float32)
    elif c['dt'] == 'i8':
        arr = np.zeros(arr.shape, dtype=np.int64)
    if c['nd'] == 'list':
        return arr.tolist()
    if c['nd'] == 'tuple':
        return tuple(tuple(r) if isinstance(r, list) else r for r in arr.tolist())
    return arr


def gen_cases(ctx, rng, ivs, ts, sts, us):
    """round-7 correspondence cases for one interval set"""
    cases = []
    for variant in rng.sample(DESC_VARIANTS, 3) + ['ok']:
        c = desc_case(rng, ivs, variant)
        cases.append(dict(c, kind=rng.choice(['assertint', 'construct']), ivs=ivs, variant=variant))
    pv = ivs if rng.random() < 0.85 else []
    cases.append({'kind': 'props', 'ivs': pv})
    cases.append({'kind': 'intlt', 'ivs': ivs, 'scalar': rng.choice([None, None, 0.0, rng.random() * 400.0])})
    tsel = rng.sample(ts, min(len(ts), rng.choice([0, 1, 3, 7])))
    cases.append({'kind': 'isonv', 'ivs': ivs, 'ts': tsel, 'form': rng.choice(['list', 'tuple', 'array', 'scalar'] if len(tsel) == 1 else ['list', 'tuple', 'array'])})
    if rng.random() < 0.5:
        cases.append({'kind': 'uptoarg', 'ivs': ivs, 'ts': [rng.choice(ts)], 'form': rng.choice(['float', 'np.float64'])})
    else:
        cases.append({'kind': 'uptoarg', 'ivs': ivs, 'ts': tsel, 'form': rng.choice(['list', 'tuple', 'array'])})
    # whole-vector draws: size 0 (never fails), with / without window, window without on-time
    i = rng.randrange(len(sts))
    j = rng.randrange(i, len(sts))
    r = rng.random()
    a0, a1 = (None, None) if r < 0.3 else (sts[i], None) if r < 0.45 else (None, sts[j]) if r < 0.6 else (sts[i], sts[j])
    uu = [] if rng.random() < 0.25 else [float(u) for u in rng.sample(list(us), min(len(us), rng.choice([1, 3, 5])))]
    cases.append({'kind': 'drawmany', 'ivs': ivs, 'a0': a0, 'a1': a1, 'us': uu})
    # good-run-list files
    runs = ivs
    if rng.random() < 0.25 and len(ivs) >= 2:
        k = rng.randrange(len(ivs) - 1)
        runs = ivs[:k] + [ivs[k + 1], ivs[k]] + ivs[k + 2:]
    files = split_files(rng, [list(p) for p in runs])
    cases.append({'kind': 'grlfiles', 'ivs': ivs, 'files': files, 'form': 'str' if len(files) == 1 and rng.random() < 0.5 else 'list'})
    r = rng.random()
    cases.append({'kind': 'i3ds', 'ivs': ivs, 'files': files if r >= 0.15 else [], 'is_i3': not (0.15 <= r < 0.3),
                  'pathform': rng.choice(['abs', 'abs+base', 'rel'])})
    # get_data_subset with its guards and separate exp / mc events
    et = [rng.choice(ts) for _ in range(rng.randrange(0, 8))]
    mt = [rng.choice(ts) for _ in range(rng.randrange(0, 8))]
    r = rng.random()
    cases.append({'kind': 'subsetfull', 'ivs': ivs, 'exp': et, 'mc': mt, 't0': sts[i], 't1': sts[j],
                  'data_ok': not (r < 0.12 or 0.24 <= r < 0.3), 'lt_ok': not (0.12 <= r < 0.3)})
    # a history on one object: the setter with any array-like (valid ones are taken over, every rejected one leaves the state
    # untouched) interleaved with the read-only views and the queries
    if rng.random() < 0.7:
        from harness.props import c14 as P
        ops = []
        cur = ivs
        for _ in range(rng.randrange(3, 9)):
            r = rng.random()
            if r < 0.3:
                variant = rng.choice(DESC_VARIANTS)
                base = cur if rng.random() < 0.5 or not cur else P.gen_intervals(rng, n=rng.choice([1, 2, 3]))
                d = desc_case(rng, base, variant)
                ops.append(dict(d, op='set', variant=variant))
                if variant in ('ok', 'empty'):
                    cur = [] if variant == 'empty' else base
            elif r < 0.65:
                ops.append({'op': rng.choice(['n', 'win', 'lt'])})
            else:
                pts = ts + [x for p in cur for x in p]
                o = rng.choice(['ison', 'upto', 'btw'])
                if o == 'btw':
                    a, b = sorted([rng.choice(pts), rng.choice(pts)])
                    ops.append({'op': 'btw', 'a': a, 'b': b})
                else:
                    ops.append({'op': o, 't': rng.choice(pts)})
        cases.append({'kind': 'hist', 'ivs': ivs, 'ops': ops})
    return cases


# ------------------------------------------------------------------------------------------
# correspondence

def _hist_lines(case):
    from harness.props import c14 as P
    v = values()
    ivs = case['ivs']
    toks, impl = [], []
    lt = P.mk(ivs)
    for o in case['ops']:
        k = o['op']
        try:
            if k == 'set':
                toks.append('set:%d:%d:%s:%s' % (1 if o['nd'] is True else 0, 1 if o['dt'] == 'f8' else 0, ','.join(str(x) for x in o['shape']) or '-', flist(o['data'])))
                lt.uptime_mjd_intervals_arr = build_desc(o)
                impl.append('OK')
            elif k == 'n':
                toks.append('n')
                impl.append(str(int(lt.n_uptime_mjd_intervals)))
            elif k == 'win':
                toks.append('win')
                w = lt.time_window
                impl.append('%s,%s' % (f2b(w[0]), f2b(w[1])))
            elif k == 'lt':
                toks.append('lt')
                impl.append(f2b(lt.livetime))
            elif k == 'ison':
                toks.append('ison:%s' % f2b(o['t']))
                impl.append('1' if bool(lt.is_on(o['t'])[0]) else '0')
            elif k == 'upto':
                toks.append('upto:%s' % f2b(o['t']))
                impl.append(f2b(lt.get_livetime_upto(o['t'])))
            elif k == 'btw':
                toks.append('btw:%s:%s' % (f2b(o['a']), f2b(o['b'])))
                impl.append(flist(np.asarray(lt.get_uptime_intervals_between(o['a'], o['b'])).ravel()))
        except Exception as e:  # noqa
            impl.append(_exc_name(e))
    held = flist(np.asarray(lt.uptime_mjd_intervals_arr).reshape((-1,)))
    es = flist([x for p in ivs for x in p])
    return 'hist %d %d %s %s' % (v['reqNdim'], v['reqCols'], es, ' '.join(toks)), '%s %s' % (held, ';'.join(impl))


def _hist_compare(case, impl, model):
    (hi, ai), (hm, am) = impl.split(' '), model.split(' ')
    if hi != hm:
        return 'hist: the object holds %s after the history, the model %s' % (hi, hm)
    mag = sum(abs(x) for p in case['ivs'] for x in p) + sum(abs(x) for o in case['ops'] if o['op'] == 'set' for x in o['data'])
    nrows = len(case['ivs']) + sum(len(o['data']) for o in case['ops'] if o['op'] == 'set')
    for idx, (o, a, b) in enumerate(zip(case['ops'], ai.split(';'), am.split(';'))):
        if a == b or (':' in b and a == b.split(':')[0]) or (b == 'ERR' and a in ('IndexError', 'ValueError')):
            continue
        if o['op'] in ('lt', 'upto') and a.isdigit() and b.isdigit():
            tol = mag * 2.3e-16 * (nrows + 2) + 1e-300 + 1e-9 * (mag + (abs(o['t']) if o['op'] == 'upto' and np.isfinite(o['t']) else 0.0))
            if abs(b2f(a) - b2f(b)) <= tol:
                continue
        return 'hist: call %d (%s) of the history: implementation %s, model %s' % (idx, o['op'], a, b)
    return None


def _exc_name(e):
    for cls in (TypeError, ValueError, IndexError):
        if isinstance(e, cls):
            return cls.__name__
    return 'other:' + type(e).__name__


def lines(case):
    from harness.props import c14 as P
    v = values()
    k = case['kind']
    ivs = case['ivs']
    es = flist([x for p in ivs for x in p])
    opt = lambda x: 'N' if x is None else f2b(x)  # noqa
    if k == 'hist':
        return _hist_lines(case)
    if k in ('assertint', 'construct'):
        from skyllh.core.livetime import Livetime
        req = '%s %d %d %d %d %s %s' % (k, v['reqNdim'], v['reqCols'], 1 if case['nd'] is True else 0, 1 if case['dt'] == 'f8' else 0,
                                        ','.join(str(s) for s in case['shape']), flist(case['data']))
        arr = build_desc(case)
        try:
            if k == 'assertint':
                Livetime(np.array([[0.0, 1.0]])).assert_mjd_intervals_integrity(arr)
                impl = 'OK'
            else:
                impl = flist(np.asarray(Livetime(arr).uptime_mjd_intervals_arr).reshape((-1,)))
        except Exception as e:  # noqa
            impl = _exc_name(e)
        return req, impl
    if k == 'props':
        from skyllh.core.livetime import Livetime
        lt = P.mk(ivs) if ivs else Livetime(np.empty((0, 2), dtype=np.float64))

        def g(f):
            try:
                return f()
            except Exception as e:  # noqa
                return _exc_name(e)
        w = g(lambda: lt.time_window)
        impl = [str(int(lt.n_uptime_mjd_intervals)), g(lambda: f2b(lt.time_start)), g(lambda: f2b(lt.time_stop)),
                w if isinstance(w, str) else '%s,%s' % (f2b(w[0]), f2b(w[1])), f2b(lt.livetime)]
        return 'props %s' % es, ' '.join(str(x) for x in impl)
    if k == 'intlt':
        from skyllh.core.livetime import Livetime
        if case['scalar'] is not None:
            return 'intlt S %s' % f2b(case['scalar']), f2b(Livetime.get_integrated_livetime(case['scalar']))
        return 'intlt L %s' % es, f2b(Livetime.get_integrated_livetime(P.mk(ivs)))
    if k == 'isonv':
        ts = case['ts']
        arg = {'list': list(ts), 'tuple': tuple(ts), 'array': np.array(ts, dtype=np.float64), 'scalar': ts[0] if ts else None}[case['form']]
        try:
            r = P.mk(ivs).is_on(arg)
            impl = ('notarray:' if not (isinstance(r, np.ndarray) and r.dtype == np.bool_ and r.ndim == 1) else '') + \
                (','.join('1' if bool(x) else '0' for x in r) or '-')
        except Exception as e:  # noqa
            impl = _exc_name(e)
        return 'isonv %s %s' % (es, flist(ts)), impl
    if k == 'uptoarg':
        ts = case['ts']
        f = case['form']
        scalar = f in ('float', 'np.float64')
        arg = {'float': lambda: float(ts[0]), 'np.float64': lambda: np.float64(ts[0]), 'list': lambda: list(ts), 'tuple': lambda: tuple(ts),
               'array': lambda: np.array(ts, dtype=np.float64)}[f]()
        try:
            r = P.mk(ivs).get_livetime_upto(arg)
            if isinstance(r, np.ndarray):
                impl = 'Q:' + flist(r.reshape((-1,)))
            else:
                impl = 'S:' + f2b(float(r))
        except Exception as e:  # noqa
            impl = 'ERR'
        return ('uptoarg %s S %s' % (es, f2b(ts[0]))) if scalar else ('uptoarg %s Q %s' % (es, flist(ts))), impl
    if k == 'drawmany':
        us = case['us']
        try:
            r = P.mk(ivs).draw_ontimes(P._StubRSS(us), len(us), t_min=case['a0'], t_max=case['a1'])
            impl = flist(np.asarray(r, dtype=np.float64).reshape((-1,)))
        except Exception as e:  # noqa
            impl = 'ERR'
        return 'drawmany %s %s %s %s' % (es, opt(case['a0']), opt(case['a1']), flist(us)), impl
    if k in ('grlfiles', 'i3ds'):
        from skyllh.i3.livetime import I3Livetime
        files = case['files']
        ss = '|'.join(flist([p[0] for p in rows]) for rows in files) or '-'
        ee = '|'.join(flist([p[1] for p in rows]) for rows in files) or '-'
        names = write_files(files)
        try:
            if k == 'grlfiles':
                paths = [os.path.join(tmpdir(), n) for n in names]
                lt = I3Livetime.from_grl_files(paths[0] if case['form'] == 'str' else paths)
            else:
                lt = I3Livetime.from_I3Dataset(mk_dataset(names, case['pathform'], case['is_i3']))
            impl = flist(np.asarray(lt.uptime_mjd_intervals_arr).reshape((-1,)))
            if not isinstance(lt, I3Livetime):
                impl = 'not-an-I3Livetime'
        except Exception as e:  # noqa
            impl = _exc_name(e)
        finally:
            for n in names:
                try:
                    os.unlink(os.path.join(tmpdir(), n))
                except OSError:
                    pass
        if k == 'grlfiles':
            return 'grlfiles %s %s' % (ss, ee), impl
        return 'i3ds %d %d %s %s' % (1 if case['is_i3'] else 0, len(files), ss, ee), impl
    if k == 'subsetfull':
        from skyllh.core.dataset import DatasetData, get_data_subset
        from skyllh.core.storage import DataFieldRecordArray
        et, mt = case['exp'], case['mc']
        try:
            lt = P.mk(ivs)
            exp = DataFieldRecordArray({'time': np.array(et, dtype=np.float64), 'tag': np.arange(len(et))}, copy=True)
            mc = DataFieldRecordArray({'time': np.array(mt, dtype=np.float64), 'tag': np.arange(len(mt))}, copy=True)
            data = DatasetData(data_exp=exp, data_mc=mc, livetime=lt.livetime)
            (sub, ltsub) = get_data_subset(data if case['data_ok'] else exp, lt if case['lt_ok'] else float(lt.livetime), case['t0'], case['t1'])
            ke = set(int(x) for x in sub.exp['tag'])
            km = set(int(x) for x in sub.mc['tag'])
            m1 = ','.join('1' if i in ke else '0' for i in range(len(et))) or '-'
            m2 = ','.join('1' if i in km else '0' for i in range(len(mt))) or '-'
            impl = '%s %s %s %s' % (m1, m2, flist(np.asarray(ltsub.uptime_mjd_intervals_arr).ravel()), f2b(ltsub.livetime))
            if f2b(float(sub.livetime)) != f2b(float(ltsub.livetime)):
                impl = 'DatasetData.livetime %r differs from the live time of the restricted Livetime %r' % (sub.livetime, ltsub.livetime)
        except Exception as e:  # noqa
            impl = _exc_name(e)
        return 'subsetfull %d %d %s %s %s %s %s' % (1 if case['data_ok'] else 0, 1 if case['lt_ok'] else 0, es, flist(et), flist(mt),
                                                   f2b(case['t0']), f2b(case['t1'])), impl
    raise ValueError(k)


def _sum_tol(ivs):
    mag = sum(abs(x) for p in ivs for x in p)
    return mag * 2.3e-16 * (len(ivs) + 2) + 1e-300 + 1e-9 * sum(abs(b - a) for a, b in ivs)


def _close_lists(a, b, tol):
    from harness.core import parse_flist
    xa, xb = parse_flist(a), parse_flist(b)
    return len(xa) == len(xb) and all((x == y) or abs(x - y) <= tol for x, y in zip(xa, xb))


def compare(case, impl, model):
    """None when model and implementation agree under the property-level relation"""
    k = case['kind']
    if impl == model:
        return None
    if k == 'hist':
        return _hist_compare(case, impl, model)
    ivs = case['ivs']
    if ':' in model and model.split(':')[0] in ('TypeError', 'ValueError'):
        # the model names the raising site; the verdict is the exception class
        if impl == model.split(':')[0]:
            return None
    if k == 'props':
        a, b = impl.split(' '), model.split(' ')
        b = ['IndexError' if x == 'ERR' else x for x in b]
        if a[:4] == b[:4] and a[4].isdigit() and b[4].isdigit() and abs(b2f(a[4]) - b2f(b[4])) <= _sum_tol(ivs):
            return None
    if k == 'intlt' and impl.isdigit() and model.isdigit() and abs(b2f(impl) - b2f(model)) <= _sum_tol(ivs):
        return None
    if k == 'uptoarg' and impl[:2] == model[:2] and impl[:2] in ('S:', 'Q:'):
        scale = 1e-9 * (sum(abs(x) for p in ivs for x in p) + max([abs(t) for t in case['ts'] if np.isfinite(t)] + [0.0]))
        if _close_lists(impl[2:], model[2:], scale):
            return None
    if k == 'drawmany' and impl != 'ERR' and model != 'ERR':
        if _close_lists(impl, model, 1e-9 * sum(abs(x) for p in ivs for x in p)):
            return None
    if k == 'subsetfull' and len(impl.split(' ')) == 4 and len(model.split(' ')) == 4:
        a, b = impl.split(' '), model.split(' ')
        if a[:3] == b[:3] and abs(b2f(a[3]) - b2f(b[3])) <= _sum_tol(ivs):
            return None
    if k in ('grlfiles', 'i3ds', 'construct') and model == 'ERR' and impl == 'ValueError':
        return None
    return '%s: implementation %s, model %s' % (k, impl, model)


def branch_of(case, model):
    """the branch of the new model function a case went through (for the evidence: no zero-hit branch)"""
    k = case['kind']
    if k in ('assertint', 'construct'):
        return '%s:%s' % (k, model if (':' in model or model == 'OK') else 'ok')
    if k == 'props':
        return 'props:' + ('empty-IndexError' if 'ERR' in model else 'rows')
    if k == 'intlt':
        return 'intlt:' + ('scalar' if case['scalar'] is not None else 'Livetime')
    if k == 'isonv':
        return 'isonv:%s,n=%s' % (case['form'], min(len(case['ts']), 2))
    if k == 'uptoarg':
        return 'uptoarg:' + ('ERR' if model == 'ERR' else model[:1]) + (',empty' if not case['ts'] else '')
    if k == 'drawmany':
        return 'drawmany:%s,%s,%s' % ('unbounded' if case['a0'] is None and case['a1'] is None else 'window',
                                      'size0' if not case['us'] else 'size>0', 'ERR' if model == 'ERR' else 'ok')
    if k == 'grlfiles':
        return 'grlfiles:%s,%s' % ('files=%d' % min(len(case['files']), 2), 'rejected' if model == 'ERR' else 'ok')
    if k == 'i3ds':
        return 'i3ds:%s%s' % (model if ':' in model else ('rejected' if model == 'ERR' else 'ok'),
                              (',' + case['pathform']) if ':' not in model else '')
    if k == 'subsetfull':
        return 'subsetfull:' + (model if len(model.split(' ')) == 1 else 'ok')
    if k == 'hist':
        a = model.split(' ')[1].split(';')
        out = set()
        for o, x in zip(case['ops'], a):
            out.add('hist:%s:%s' % (o['op'], x if (':' in x or x in ('OK', 'IndexError', 'ERR')) else 'value'))
        return sorted(out)
    return k


# ------------------------------------------------------------------------------------------
# property oracle on the implementation: all ways of loading a good-run list give the same Livetime

def o_loader(ctx, case):
    """from_grl_files (str / list of absolute names) and from_I3Dataset (absolute names, absolute names with a base path,
    names relative to the root directory of the dataset) hold exactly the rows of the files, in file order - the same as
    from_grl_data on the concatenated good-run list; an invalid list is rejected with ValueError by every path."""
    from skyllh.i3.livetime import I3Livetime
    files = case['files']
    rows = [p for f in files for p in f]
    names = write_files(files)
    paths = [os.path.join(tmpdir(), n) for n in names]
    try:
        arr = np.empty((len(rows),), dtype=[('start', np.float64), ('stop', np.float64)])
        arr['start'] = [p[0] for p in rows]
        arr['stop'] = [p[1] for p in rows]
        try:
            ref = [float(x) for x in I3Livetime.from_grl_data(arr).uptime_mjd_intervals_arr.reshape((-1,))]
        except ValueError:
            ref = 'ValueError'
        if ref != 'ValueError' and ref != [float(x) for p in rows for x in p]:
            return 'from_grl_data holds %r, the good-run list has the rows %r' % (ref, rows)
        ways = [('from_grl_files(list)', lambda: I3Livetime.from_grl_files(paths))]
        if len(paths) == 1:
            ways.append(('from_grl_files(str)', lambda: I3Livetime.from_grl_files(paths[0])))
        for pf in ('abs', 'abs+base', 'rel'):
            ways.append(('from_I3Dataset(%s file names)' % pf, (lambda pf=pf: I3Livetime.from_I3Dataset(mk_dataset(names, pf)))))
        for what, fn in ways:
            try:
                got = [float(x) for x in fn().uptime_mjd_intervals_arr.reshape((-1,))]
            except ValueError:
                got = 'ValueError'
            except Exception as e:  # noqa
                return '%s on the good-run-list files %r raised %s: %s' % (what, files, type(e).__name__, e)
            if got != ref:
                return '%s on the good-run-list files %r gives %r, from_grl_data on the same rows gives %r' % (what, files, got, ref)
    finally:
        for p in paths:
            try:
                os.unlink(p)
            except OSError:
                pass
    return None


def o_guard(ctx, case):
    """the documented contract of the constructor / setter / assert_mjd_intervals_integrity on an arbitrary array-like: TypeError
    unless it is a float64 ndarray, ValueError unless it is (N,2)-shaped with non-decreasing elements, else accepted and held
    element for element (reference computed here from the case description, independent of the Lean model)."""
    from skyllh.core.livetime import Livetime
    arr = build_desc(case)
    data = case['data']
    if case['nd'] is not True or case['dt'] != 'f8':
        want = 'TypeError'
    elif len(case['shape']) != 2 or case['shape'][1] != 2 or any(a > b for a, b in zip(data, data[1:])):
        want = 'ValueError'
    else:
        want = 'OK'
    probe = Livetime(np.array([[0.0, 1.0]]))

    def setter(a):
        probe.uptime_mjd_intervals_arr = a
        return probe
    for what, fn in (('assert_mjd_intervals_integrity', lambda a: probe.assert_mjd_intervals_integrity(a)), ('Livetime(arr)', lambda a: Livetime(a)),
                     ('the uptime_mjd_intervals_arr setter', setter)):
        try:
            r = fn(arr)
            got = 'OK'
        except Exception as e:  # noqa
            got = _exc_name(e)
            r = None
        if got != want:
            return '%s on a %s of dtype %s, shape %r, elements %r: %s, expected %s' % (
                what, 'ndarray' if case['nd'] is True else case['nd'], case['dt'], case['shape'], data, 'raised ' + got if got != 'OK' else 'accepted it', want)
        if r is not None and [float(x) for x in np.asarray(r.uptime_mjd_intervals_arr).reshape((-1,))] != [float(x) for x in data]:
            return '%s holds %r, handed in %r' % (what, np.asarray(r.uptime_mjd_intervals_arr).tolist(), data)
    return None


def o_props(ctx, case):
    """read-only views of a Livetime (implementation only, exact fractions): number of intervals, time_start / time_stop / time_window =
    first start / last stop, livetime and get_integrated_livetime = the exact sum of the interval lengths (tolerance), is_on on a
    sequence = a boolean ndarray with one half-open membership flag per time, at any point of a query history."""
    from fractions import Fraction
    from harness.props import c14 as P
    from skyllh.core.livetime import Livetime
    ivs, ts = case['ivs'], case.get('ts') or []
    try:
        lt = P.mk(ivs)
        lt.is_on(ts[:1] or [0.0])
        if int(lt.n_uptime_mjd_intervals) != len(ivs):
            return 'n_uptime_mjd_intervals = %r for %d intervals' % (lt.n_uptime_mjd_intervals, len(ivs))
        tw = lt.time_window
        if (float(lt.time_start), float(lt.time_stop)) != (ivs[0][0], ivs[-1][1]) or (float(tw[0]), float(tw[1])) != (ivs[0][0], ivs[-1][1]):
            return 'time_start / time_stop / time_window = %r / %r / %r for the intervals %r' % (lt.time_start, lt.time_stop, tw, ivs)
        exact = sum((Fraction(b) - Fraction(a) for a, b in ivs), Fraction(0))
        for what, v in (('livetime', lt.livetime), ('get_integrated_livetime(Livetime)', Livetime.get_integrated_livetime(lt))):
            if not abs(Fraction(float(v)) - exact) <= Fraction(_sum_tol(ivs)):
                return '%s = %r, the interval lengths of %r sum to %r' % (what, v, ivs, float(exact))
        if Livetime.get_integrated_livetime(12.5) != 12.5:
            return 'get_integrated_livetime(12.5) = %r' % (Livetime.get_integrated_livetime(12.5),)
        for form in (list(ts), tuple(ts), np.array(ts, dtype=np.float64)):
            r = lt.is_on(form)
            if not (isinstance(r, np.ndarray) and r.dtype == np.bool_ and r.shape == (len(ts),)):
                return 'is_on(%s of %d times) is not a boolean ndarray of that length: %r' % (type(form).__name__, len(ts), r)
            if [bool(x) for x in r] != [P.ref_is_on(ivs, t) for t in ts]:
                return 'is_on(%r) = %r on %r' % (ts, r.tolist(), ivs)
    except Exception as e:  # noqa
        return 'read-only properties / is_on on %r raised %s: %s' % (ivs, type(e).__name__, e)
    return None
