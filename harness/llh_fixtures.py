"""Synthetic analysis objects around the real skyllh log-likelihood-ratio classes.

Shared by the checks of C01/C03 (owner), C02, C06, C11, C12.  Everything that is *under test* is the
real skyllh class (TrialDataManager, ParameterModelMapper, SourceHypoGroupManager, PDFRatioProduct,
SourceWeightedPDFRatio, SrcDetSigYieldWeightsService, DatasetSignalWeightFactorsService,
ZeroSigH0SingleDatasetTCLLHRatio, MultiDatasetTCLLHRatio); only the leaves (per-event ratios, detector
signal yields, event selection) are stubs with *prescribed* numbers that implement skyllh's own abstract
interfaces.  skyllh is imported lazily from sys.path (harness.core puts VERIF_REPO / /repo first), so
importing this module never imports skyllh.

Conventions
-----------
* K sources (global source index k = 0..K-1, in hypothesis-group order), J datasets, E events per
  dataset.  Every event carries an integer field ``eid`` (its position in the *original* event array);
  all stubs look events up through ``eid`` so they stay correct after event selection and sorting.
* "params" passed to callables is a dict  local-parameter-name -> (K,) float ndarray  (value per source,
  nan where the source has no such parameter), taken from ``src_params_recarray``.
* global fit parameter ids are the indices of the *floating* parameters of the pmm (what skyllh calls
  ``fitparam_id`` / ``gflp idx``); ``<name>:gpidx`` in ``src_params_recarray`` is whatever the real
  ParameterModelMapper writes (see C02 for the known global-vs-floating-index defect).

API (stable)
------------
make_cfg()                                   -> Config (tracing off)
make_sources(n, weights=None)                -> list of PointLikeSource  (names S0..; dec spread; weight w_k)
make_shg_mgr(cfg, sources, group_sizes=None) -> SourceHypoGroupManager; group_sizes e.g. [2, 1] splits the
                                                source list into consecutive hypothesis groups (default: one)
make_shg_mgr(..., builders=None)             -> builders: per group a DetSigYieldBuilder or a list of them (one per dataset),
                                                e.g. TableDetSigYieldBuilder; default: a do-nothing builder
make_datasets(cfg, J)                        -> (dataset_list, data_list) of J real, empty Dataset 'DS0'.. / DatasetData objects,
                                                for the REAL skyllh.core.services.DetSigYieldService
TableDetSigYieldBuilder(cfg, table, use_factory=False, bid=None)
                                             -> real DetSigYieldBuilder with prescribed yields table[dataset name][source name]
make_pmm(sources, params=(), ns_init=1.0, ns_max=1e9, ns_min=None, detector='first', ns_last=False)
                                             -> ParameterModelMapper with models [DetectorModel('det')] + sources
                                                ('first'|'last'|None), global parameter 'ns' mapped to the
                                                detector model (or to all sources when detector=None) and then
                                                every entry of ``params``:  (Parameter, models|None, local names|None)
                                                or a bare Parameter (mapped to all sources); ``params`` may also be a
                                                callable(sources) -> such a list; ns_last=True maps 'ns' after them
                                                (so that ns is not the floating parameter with index 0)
make_param(name, initial, vmin, vmax, fixed=False) -> Parameter
make_events(n, **fields)                     -> DataFieldRecordArray with fields eid=0..n-1 (int64) + given arrays
make_tdm(shg_mgr, pmm, events, n_events=None, evt_sel_method=None, index_field_name=None)
                                             -> real TrialDataManager, initialize_trial() already called
                                                (events: DataFieldRecordArray | int (number of events))
StubEventSelection(shg_mgr, mask)            -> EventSelectionMethod; mask (K, E) bool over eid: event e is kept
                                                iff any_k mask[k, e]; (source, event) pairs exactly where mask is True
StubPDFRatio(cfg, R, dR=None, param_names=None, bkg_param_names=None)
                                             -> PDFRatio; R: (K, E) array or callable(params)->(K, E) giving the
                                                ratio of source k / event eid;  dR: dict local-name -> (K, E) array
                                                or callable(params)->(K, E) = dR_ik / d(local parameter of source k).
                                                get_gradient(fitparam_id) sums dR[name] over the local names whose
                                                ``name:gpidx`` equals fitparam_id+1 for source k, and returns the int 0
                                                when no source maps the fit parameter.  Counts calls in ``.n_calls``.
                                                Keyword ``share=True`` (default False): behave like a real PDF ratio with a
                                                cache — the values are computed once per trial (initialize_for_new_trial, or
                                                lazily) and get_ratio returns *that stored array object itself* (no copy), so a
                                                consumer that writes into its input corrupts later evaluations.
                                                share='strided': the stored array is a non-contiguous view into a larger buffer;
                                                share='readonly': it is flagged read-only (an in-place write raises).
                                                ``.snapshot()`` -> bytes of every array the stub owns (tables + stored values).
                                                ``.set_table(R, dR=None)`` -> new prescribed tables for the next trial (new event
                                                data on the same object; also on StubSigPDF / StubBkgPDF: ``.set_table(table)``).
StubSigPDF(cfg, S, share=False) / StubBkgPDF(cfg, B, share=False)
                                             -> PDF + IsSignalPDF / IsBackgroundPDF with prescribed densities for the real
                                                SigOverBkgPDFRatio: S (K, E) per (source, eid), B (E,) per eid (zeros allowed);
                                                ``share`` / ``.snapshot()`` as for StubPDFRatio
StubDetSigYield(Y, dY=None, param_names=(), src_factor=None)
                                             -> DetSigYield for one (dataset, group): Y (n_src_of_group,) array or
                                                callable(params_of_group)->array; dY: dict local-name -> array|callable;
                                                src_factor: None | callable(src_recarray)->(n_src,) multiplied onto Y and dY
                                                (the yield then follows the source: src_recarray has fields ra, dec);
                                                share: True | 'strided' | 'readonly' -> the last evaluation is memoised and the
                                                stored array itself is returned when asked again for the same sources/parameters
                                                (keyword yield_share of make_detsigyield_service / make_weight_services /
                                                build_stacked_analysis; share of TableDetSigYieldBuilder); ``.snapshot()``
StubDetSigYieldService(shg_mgr, arr)         -> DetSigYieldService holding the (J, G) object array ``arr``
make_detsigyield_service(shg_mgr, Y, dY=None, src_factor=None)
                                             -> StubDetSigYieldService from a yield table Y (J, K) (array or
                                                callable(params)->(J, K)); dY: dict local-name -> (J, K) array|callable
make_weight_services(shg_mgr, Y, dY=None, src_factor=None)
                                             -> (detsigyield_service, SrcDetSigYieldWeightsService,
                                                DatasetSignalWeightFactorsService)   [the last two are real]
make_minimizer(cfg)                          -> Minimizer(LBFGSMinimizerImpl)
make_single_llhratio(cfg, pmm, shg_mgr, tdm, pdfratio, minimizer=None)
                                             -> real ZeroSigH0SingleDatasetTCLLHRatio
make_multi_llhratio(cfg, pmm, sdw_service, dswf_service, llhratio_list, minimizer=None)
                                             -> real MultiDatasetTCLLHRatio
build_stacked_analysis(cfg, W, Y, Rs, Ns, group_sizes=None, params=(), masks=None, dR=None, dY=None,
                       weighted=True)        -> Bundle(cfg, sources, shg_mgr, pmm, tdms, pdfratios, inner_pdfratios,
                                                llhratios, multi, services=(dsy, sdw, dswf)); one call builds the
                                                whole J-dataset, K-source stacked analysis: W (K,) source weights,
                                                Y (J, K) yields, Rs[j] (K, E_j) ratio tables, Ns[j] total event counts
                                                (>= E_j, or None = default), masks[j] optional (K, E_j) event-selection masks;
                                                keyword share=False is passed to the StubPDFRatios
fitparam_values(pmm, ns, **others)           -> (n_floating,) array in the pmm's floating-parameter order
is_fixture_error(exc)                        -> True when the exception was raised by harness code (innermost traceback frame
                                                under /harness/), i.e. a machinery error, not a failure of skyllh
reraise_fixture_error(exc)                   -> raises harness.core.MachineryError in that case, else returns
"""
import collections

import numpy as np


# --------------------------------------------------------------------------------------------------
# configuration, sources, hypothesis groups, parameter mapper

def make_cfg():
    from skyllh.core.config import Config
    cfg = Config()
    cfg['debugging']['enable_tracing'] = False
    return cfg


def make_sources(n, weights=None):
    from skyllh.core.source_model import PointLikeSource
    if weights is None:
        weights = [1.0] * n
    return [
        PointLikeSource(name='S%d' % k, ra=0.1 * (k + 1), dec=np.deg2rad(-40.0 + 80.0 * (k + 0.5) / n),
                        weight=float(weights[k]))
        for k in range(n)]


class _NoDetSigYieldBuilder(object):
    """created lazily as a subclass of skyllh's DetSigYieldBuilder (type checks only)"""
    _cls = None

    @classmethod
    def make(cls, cfg):
        if cls._cls is None:
            from skyllh.core.detsigyield import DetSigYieldBuilder

            class NoDetSigYieldBuilder(DetSigYieldBuilder):
                def construct_detsigyield(self, **kwargs):
                    return None
            cls._cls = NoDetSigYieldBuilder
        return cls._cls(cfg=cfg)


def make_shg_mgr(cfg, sources, group_sizes=None, builders=None):
    from skyllh.core.flux_model import SteadyPointlikeFFM
    from skyllh.core.source_hypo_grouping import SourceHypoGroup, SourceHypoGroupManager
    if group_sizes is None:
        group_sizes = [len(sources)]
    assert sum(group_sizes) == len(sources) and all(g > 0 for g in group_sizes)
    groups, i = [], 0
    for gi, g in enumerate(group_sizes):
        groups.append(SourceHypoGroup(
            sources=sources[i:i + g],
            fluxmodel=SteadyPointlikeFFM(Phi0=1, energy_profile=None, cfg=cfg),
            detsigyield_builders=builders[gi] if builders is not None else _NoDetSigYieldBuilder.make(cfg),
            sig_gen_method=None))
        i += g
    return SourceHypoGroupManager(groups)


def make_datasets(cfg, J):
    """-> (dataset_list, data_list): J real (empty) Dataset 'DS0'.. / DatasetData objects for the real DetSigYieldService"""
    from skyllh.core.dataset import Dataset, DatasetData
    from skyllh.core.storage import DataFieldRecordArray
    dataset_list = [Dataset(cfg=cfg, name='DS%d' % j, exp_pathfilenames=None, mc_pathfilenames=None, livetime=1.,
                            default_sub_path_fmt='', version=1) for j in range(J)]
    data_list = [DatasetData(data_exp=None, data_mc=DataFieldRecordArray({'x': np.zeros((1,))}), livetime=1.)
                 for j in range(J)]
    return (dataset_list, data_list)


def TableDetSigYieldBuilder(cfg, table, use_factory=False, bid=None, share=False):
    """A real DetSigYieldBuilder whose detector signal yields are prescribed: table[dataset name][source name] -> Y.
    The yield it builds depends on the *dataset* and the *source hypothesis group* it is asked for (so one shared builder
    serves several datasets) and on the builder itself (so that it matters which builder is asked).  use_factory=True
    makes it offer get_detsigyield_construction_factory() (several groups built in one call).  ``.calls`` records
    (dataset name, tuple of source names) of every construction."""
    from skyllh.core.detsigyield import DetSigYield, DetSigYieldBuilder

    class _TableDetSigYield(DetSigYield):
        def __init__(self, row, **kwargs):
            super().__init__(param_names=[], **kwargs)
            self._row = dict(row)
            self._memo = None

        def sources_to_recarray(self, sources):
            arr = np.empty((len(sources),), dtype=[('Y', np.float64)])
            for (i, src) in enumerate(sources):
                arr['Y'][i] = self._row[src.name]
            return arr

        def __call__(self, src_recarray, src_params_recarray=None):
            if not share:
                return (np.array(src_recarray['Y'], dtype=np.float64), {})
            key = np.asarray(src_recarray['Y']).tobytes()
            if self._memo is None or self._memo[0] != key:          # a yield object keeping its last evaluation
                self._memo = (key, np.array(src_recarray['Y'], dtype=np.float64))
            return (self._memo[1], {})

    class _TableDetSigYieldBuilder(DetSigYieldBuilder):
        def __init__(self):
            super().__init__(cfg=cfg)
            self.bid = bid
            self.table = table
            self.calls = []

        def construct_detsigyield(self, dataset, data, shg, ppbar=None):
            self.calls.append((dataset.name, tuple(s.name for s in shg.source_list)))
            return _TableDetSigYield(row=self.table[dataset.name], dataset=dataset, fluxmodel=shg.fluxmodel,
                                     livetime=1.)

        def get_detsigyield_construction_factory(self):
            if not use_factory:
                return None

            def factory(dataset, data, shgs, ppbar=None):
                return [self.construct_detsigyield(dataset, data, shg) for shg in shgs]
            return factory

    return _TableDetSigYieldBuilder()


def make_param(name, initial, vmin, vmax, fixed=False):
    from skyllh.core.parameters import Parameter
    p = Parameter(name, initial, vmin, vmax)
    if fixed:
        p.make_fixed(initial)
    return p


def make_pmm(sources, params=(), ns_init=1.0, ns_max=1e9, ns_min=None, detector='first', ns_last=False):
    from skyllh.core.model import DetectorModel
    from skyllh.core.parameters import Parameter, ParameterModelMapper
    if ns_min is None:
        ns_min = -ns_max
    models = list(sources)
    det = None
    if detector is not None:
        det = DetectorModel('det')
        models = [det] + models if detector == 'first' else models + [det]
    pmm = ParameterModelMapper(models=models)

    def map_ns():
        pmm.map_param(Parameter('ns', ns_init, ns_min, ns_max), models=det if det is not None else list(sources))
    if callable(params):
        params = params(sources)
    if not ns_last:
        map_ns()
    for entry in params:
        if isinstance(entry, (tuple, list)):
            (p, ms, names) = (list(entry) + [None, None])[:3]
        else:
            (p, ms, names) = (entry, None, None)
        if ms is None:
            ms = list(sources)
        if names is not None and not isinstance(names, str):
            # local names are given per *mapped* model; ParameterModelMapper wants one per pmm model
            ms_l = list(ms) if isinstance(ms, (list, tuple)) else [ms]
            if len(names) == len(ms_l) and len(names) != len(models):
                by_id = {m.id: nm for m, nm in zip(ms_l, names)}
                names = [by_id.get(m.id, p.name) for m in models]
        pmm.map_param(p, models=ms, model_param_names=names)
    if ns_last:
        map_ns()
    return pmm


def fitparam_values(pmm, ns, **others):
    names = [p.name for p in pmm.global_paramset.floating_params]
    vals = dict(others, ns=ns)
    return np.array([float(vals[n]) for n in names], dtype=np.float64)


# --------------------------------------------------------------------------------------------------
# events, trial data manager, event selection

def make_events(n, **fields):
    from skyllh.core.storage import DataFieldRecordArray
    d = {'eid': np.arange(n, dtype=np.int64)}
    for k, v in fields.items():
        v = np.asarray(v)
        assert len(v) == n
        d[k] = v
    return DataFieldRecordArray(d, copy=True)


def make_tdm(shg_mgr, pmm, events, n_events=None, evt_sel_method=None, index_field_name=None):
    from skyllh.core.trialdata import TrialDataManager
    if isinstance(events, (int, np.integer)):
        events = make_events(int(events))
    tdm = TrialDataManager(index_field_name=index_field_name)
    tdm.initialize_trial(shg_mgr=shg_mgr, pmm=pmm, events=events, n_events=n_events,
                         evt_sel_method=evt_sel_method)
    return tdm


_STUB_CLASSES = {}


def _stub_classes():
    """Define the stub classes on first use (they subclass skyllh's abstract interfaces)."""
    if _STUB_CLASSES:
        return _STUB_CLASSES
    from skyllh.core.detsigyield import DetSigYield
    from skyllh.core.event_selection import EventSelectionMethod
    from skyllh.core.pdfratio import PDFRatio
    from skyllh.core.services import DetSigYieldService

    class StubEventSelection(EventSelectionMethod):
        def __init__(self, shg_mgr, mask):
            super().__init__(shg_mgr=shg_mgr)
            self.mask = np.asarray(mask, dtype=bool)

        def select_events(self, events, src_evt_idxs=None, ret_original_evt_idxs=False, tl=None):
            m = self.mask[:, np.asarray(events['eid'])]          # (K, len(events))
            keep = np.any(m, axis=0)
            selected_idxs = events.indices[keep]
            selected = events[selected_idxs]
            idxs = np.argwhere(m[:, keep])
            pair = (idxs[:, 0], idxs[:, 1])
            if ret_original_evt_idxs:
                return (selected, pair, selected_idxs)
            return (selected, pair)

    def _layout(arr, share):
        """the stored array in the memory layout asked for: True -> plain; 'strided' -> a non-contiguous view into a
        larger buffer; 'readonly' -> flagged read-only (any in-place write by a consumer raises)"""
        arr = np.array(arr, dtype=np.float64)
        if share == 'strided':
            buf = np.full((2 * len(arr) + 1,), np.nan)
            buf[1::2] = arr
            arr = buf[1::2]
        elif share == 'readonly':
            arr.setflags(write=False)
        return arr

    def _params_dict(rec):
        out = {}
        if rec is None:
            return out
        for name in rec.dtype.names:
            if name.startswith(':') or name.endswith(':gpidx'):
                continue
            out[name] = np.array(rec[name], dtype=np.float64)
        return out

    def _val(x, params):
        return np.asarray(x(params) if callable(x) else x, dtype=np.float64)

    class StubPDFRatio(PDFRatio):
        def __init__(self, cfg, R, dR=None, param_names=None, bkg_param_names=None, share=False):
            dR = dict(dR or {})
            if param_names is None:
                param_names = list(dR.keys())
            super().__init__(sig_param_names=list(param_names), bkg_param_names=list(bkg_param_names or []),
                             cfg=cfg)
            self.R = R
            self.dR = dR
            self.share = share if share in ('strided', 'readonly') else bool(share)
            self._stored = None
            self.n_calls = collections.Counter()

        def initialize_for_new_trial(self, tdm, tl=None, **kwargs):
            self.n_calls['initialize_for_new_trial'] += 1
            self._stored = None
            if self.share and not callable(self.R):
                self._stored = _layout(self._take(_val(self.R, {}), tdm), self.share)

        def set_table(self, R, dR=None):
            """new event data (next trial): replace the prescribed tables; stored values are dropped"""
            self.R = R
            if dR is not None:
                self.dR = dict(dR)
            self._stored = None

        def snapshot(self):
            parts = [] if callable(self.R) else [np.asarray(self.R, dtype=np.float64).tobytes()]
            parts += [np.asarray(d, dtype=np.float64).tobytes() for d in self.dR.values() if not callable(d)]
            if self._stored is not None:
                parts.append(self._stored.tobytes())
            return b'|'.join(parts)

        def _take(self, table, tdm):
            (src_idxs, evt_idxs) = tdm.src_evt_idxs
            eid = np.asarray(tdm.get_data('eid'))
            return table[src_idxs, eid[evt_idxs]]

        def get_ratio(self, tdm, src_params_recarray, tl=None):
            self.n_calls['get_ratio'] += 1
            if self.share and not callable(self.R):
                if self._stored is None or len(self._stored) != tdm.get_n_values():
                    self._stored = _layout(self._take(_val(self.R, {}), tdm), self.share)
                return self._stored
            table = _val(self.R, _params_dict(src_params_recarray))
            return np.array(self._take(table, tdm), dtype=np.float64)

        def get_gradient(self, tdm, src_params_recarray, fitparam_id, tl=None):
            self.n_calls['get_gradient'] += 1
            (src_idxs, evt_idxs) = tdm.src_evt_idxs
            params = _params_dict(src_params_recarray)
            grad = None
            for name, d in self.dR.items():
                if src_params_recarray is None or name not in src_params_recarray.dtype.fields:
                    continue
                srcm = np.asarray(src_params_recarray[name + ':gpidx']) == fitparam_id + 1   # (K,)
                if not np.any(srcm):
                    continue
                vals = self._take(_val(d, params), tdm)
                vals = np.where(srcm[src_idxs], vals, 0.0)
                grad = vals if grad is None else grad + vals
            if grad is None:
                return 0
            return grad

    from skyllh.core.pdf import PDF, IsBackgroundPDF, IsSignalPDF

    class _StubPDFBase(PDF):
        """densities computed once per trial and (share=True) handed out without a copy"""
        def _init(self, cfg, table, share):
            super().__init__(pmm=None, param_set=None, cfg=cfg)
            self.table = np.asarray(table, dtype=np.float64)
            self.share = share if share in ('strided', 'readonly') else bool(share)
            self._stored = None

        def assert_is_valid_for_trial_data(self, tdm, tl=None, **kwargs):
            pass

        def initialize_for_new_trial(self, tdm, tl=None, **kwargs):
            self._stored = None

        def set_table(self, table):
            """new event data (next trial): replace the prescribed densities; stored values are dropped"""
            self.table = np.asarray(table, dtype=np.float64)
            self.S = self.B = self.table
            self._stored = None

        def snapshot(self):
            parts = [self.table.tobytes()]
            if self._stored is not None:
                parts.append(self._stored.tobytes())
            return b'|'.join(parts)

        def get_pd(self, tdm, params_recarray=None, tl=None):
            if not self.share:
                return (np.array(self._values(tdm), dtype=np.float64), dict())
            if self._stored is None or len(self._stored) != self._n(tdm):
                self._stored = _layout(self._values(tdm), self.share)
            return (self._stored, dict())

    class StubSigPDF(_StubPDFBase, IsSignalPDF):
        def __init__(self, cfg, S, share=False):
            self._init(cfg, S, share)
            self.S = self.table

        def _n(self, tdm):
            return tdm.get_n_values()

        def _values(self, tdm):
            (src_idxs, evt_idxs) = tdm.src_evt_idxs
            eid = np.asarray(tdm.get_data('eid'))
            return self.table[src_idxs, eid[evt_idxs]]

    class StubBkgPDF(_StubPDFBase, IsBackgroundPDF):
        def __init__(self, cfg, B, share=False):
            self._init(cfg, B, share)
            self.B = self.table

        def _n(self, tdm):
            return tdm.n_selected_events

        def _values(self, tdm):
            eid = np.asarray(tdm.get_data('eid'))
            return self.table[eid]

    class StubDetSigYield(DetSigYield):
        def __init__(self, Y, dY=None, param_names=(), src_factor=None, share=False):
            # the abstract base wants a Dataset / FluxModel / livetime; they are not used by the services
            self.Y = Y
            self.dY = dict(dY or {})
            self.src_factor = src_factor
            # share: memoise the last evaluation and hand out the stored array itself (no copy) when asked again for
            # the same sources / parameter values, as a DetSigYield with a cache does (True | 'strided' | 'readonly')
            self.share = share if share in ('strided', 'readonly') else bool(share)
            self._memo = None
            self.param_names = tuple(param_names) or tuple(self.dY.keys())      # public property of DetSigYield

        def snapshot(self):
            parts = [] if callable(self.Y) else [np.asarray(self.Y, dtype=np.float64).tobytes()]
            if self._memo is not None:
                parts.append(np.asarray(self._memo[1]).tobytes())
            return b'|'.join(parts)

        def sources_to_recarray(self, sources):
            rec = np.empty((len(sources),), dtype=[('ra', np.double), ('dec', np.double)])
            for (i, s) in enumerate(sources):
                rec[i] = (s.ra, s.dec)
            return rec

        def __call__(self, src_recarray, src_params_recarray):
            params = _params_dict(src_params_recarray)
            key = None
            if self.share:
                key = (np.asarray(src_recarray).tobytes(), tuple((k, v.tobytes()) for k, v in sorted(params.items())))
                if self._memo is not None and self._memo[0] == key:
                    return (self._memo[1], self._memo[2])
            values = np.array(_val(self.Y, params), dtype=np.float64)
            fac = None
            if self.src_factor is not None:
                # the yield follows the *source* (its position in the sky), as real detector signal yields do
                fac = np.asarray(self.src_factor(src_recarray), dtype=np.float64)
                values = values * fac
            grads = dict()
            for name, d in self.dY.items():
                if src_params_recarray is None or name not in src_params_recarray.dtype.fields:
                    continue
                gp = np.asarray(src_params_recarray[name + ':gpidx'])
                dv = _val(d, params)
                if fac is not None:
                    dv = dv * fac
                for g in np.unique(gp[gp > 0]):
                    arr = grads.setdefault(int(g) - 1, np.zeros((len(values),), dtype=np.float64))
                    arr += np.where(gp == g, dv, 0.0)
            if self.share:
                values = _layout(values, self.share)
                self._memo = (key, values, grads)
            return (values, grads)

    class StubDetSigYieldService(DetSigYieldService):
        """built through the public constructor; only the construction of the DetSigYield array is replaced"""
        def __init__(self, shg_mgr, arr):
            arr = np.asarray(arr, dtype=object)
            assert arr.ndim == 2 and arr.shape[1] == shg_mgr.n_src_hypo_groups
            self.stub_arr = arr
            super().__init__(shg_mgr=shg_mgr, dataset_list=[], data_list=[])

        def construct_detsigyield_array(self, ppbar=None):
            return self.stub_arr

    _STUB_CLASSES.update(StubEventSelection=StubEventSelection, StubPDFRatio=StubPDFRatio,
                         StubDetSigYield=StubDetSigYield, StubDetSigYieldService=StubDetSigYieldService,
                         StubSigPDF=StubSigPDF, StubBkgPDF=StubBkgPDF)
    return _STUB_CLASSES


def StubEventSelection(shg_mgr, mask):
    return _stub_classes()['StubEventSelection'](shg_mgr, mask)


def StubPDFRatio(cfg, R, dR=None, param_names=None, bkg_param_names=None, share=False):
    return _stub_classes()['StubPDFRatio'](cfg, R, dR=dR, param_names=param_names, bkg_param_names=bkg_param_names,
                                           share=share)


def StubSigPDF(cfg, S, share=False):
    return _stub_classes()['StubSigPDF'](cfg, S, share=share)


def StubBkgPDF(cfg, B, share=False):
    return _stub_classes()['StubBkgPDF'](cfg, B, share=share)


def StubDetSigYield(Y, dY=None, param_names=(), src_factor=None, share=False):
    return _stub_classes()['StubDetSigYield'](Y, dY=dY, param_names=param_names, src_factor=src_factor, share=share)


def StubDetSigYieldService(shg_mgr, arr):
    return _stub_classes()['StubDetSigYieldService'](shg_mgr, arr)


# --------------------------------------------------------------------------------------------------
# yields, weight services, llh ratio functions

def _slice_fn(x, j, sl, K):
    """x is a (J, K) table or callable(params)->(J, K); returns the same restricted to row j, columns sl.
    A callable receives the parameters of the group's sources only, padded back to K entries with nan."""
    if not callable(x):
        return np.asarray(x, dtype=np.float64)[j, sl]

    def f(params):
        full = {}
        for name, v in params.items():
            a = np.full((K,), np.nan)
            a[sl] = v
            full[name] = a
        return np.asarray(x(full), dtype=np.float64)[j, sl]
    return f


def make_detsigyield_service(shg_mgr, Y, dY=None, src_factor=None, yield_share=False):
    K = shg_mgr.n_sources
    J = (np.asarray(Y(_nan_params(dY, K))) if callable(Y) else np.asarray(Y)).shape[0]
    G = shg_mgr.n_src_hypo_groups
    arr = np.empty((J, G), dtype=object)
    for j in range(J):
        i = 0
        for g, shg in enumerate(shg_mgr.shg_list):
            sl = slice(i, i + shg.n_sources)
            arr[j, g] = StubDetSigYield(
                _slice_fn(Y, j, sl, K),
                dY={name: _slice_fn(d, j, sl, K) for name, d in (dY or {}).items()}, src_factor=src_factor,
                share=yield_share)
            i += shg.n_sources
    return StubDetSigYieldService(shg_mgr, arr)


def _nan_params(dY, K):
    return collections.defaultdict(lambda: np.full((K,), 1.0))


def make_weight_services(shg_mgr, Y, dY=None, src_factor=None, yield_share=False):
    from skyllh.core.services import DatasetSignalWeightFactorsService, SrcDetSigYieldWeightsService
    dsy = make_detsigyield_service(shg_mgr, Y, dY=dY, src_factor=src_factor, yield_share=yield_share)
    sdw = SrcDetSigYieldWeightsService(detsigyield_service=dsy)
    dswf = DatasetSignalWeightFactorsService(src_detsigyield_weights_service=sdw)
    return (dsy, sdw, dswf)


def make_minimizer(cfg):
    from skyllh.core.minimizer import LBFGSMinimizerImpl, Minimizer
    return Minimizer(LBFGSMinimizerImpl(cfg=cfg))


def make_single_llhratio(cfg, pmm, shg_mgr, tdm, pdfratio, minimizer=None):
    from skyllh.core.llhratio import ZeroSigH0SingleDatasetTCLLHRatio
    return ZeroSigH0SingleDatasetTCLLHRatio(
        pmm=pmm, minimizer=minimizer or make_minimizer(cfg), shg_mgr=shg_mgr, tdm=tdm, pdfratio=pdfratio, cfg=cfg)


def make_multi_llhratio(cfg, pmm, sdw_service, dswf_service, llhratio_list, minimizer=None):
    from skyllh.core.llhratio import MultiDatasetTCLLHRatio
    return MultiDatasetTCLLHRatio(
        pmm=pmm, minimizer=minimizer or make_minimizer(cfg),
        src_detsigyield_weights_service=sdw_service, ds_sig_weight_factors_service=dswf_service,
        llhratio_list=list(llhratio_list), cfg=cfg)


Bundle = collections.namedtuple(
    'Bundle', 'cfg sources shg_mgr pmm tdms pdfratios inner_pdfratios llhratios multi services')


def build_stacked_analysis(cfg, W, Y, Rs, Ns, group_sizes=None, params=(), masks=None, dR=None, dY=None,
                           weighted=True, index_field_name=None, event_fields=None, share=False, src_factor=None,
                           ns_last=False, yield_share=False):
    """J datasets, K sources.  W (K,), Y (J, K) [array or callable], Rs[j] (K, E_j) [array or callable],
    Ns[j] >= E_j total events, masks[j] None | (K, E_j) bool, dR: None | list over j of dict name -> table,
    event_fields: None | list over j of dict of extra event fields.  With weighted=False (K must be 1 or the
    tables are used for source 0 only) the per-dataset ratio is the bare StubPDFRatio.  Ns[j] may be None
    (n_events left to its default = number of raw events).  share=True: the stub ratios hand out their stored
    array without a copy (see StubPDFRatio)."""
    from skyllh.core.pdfratio import SourceWeightedPDFRatio
    K = len(W)
    J = len(Rs)
    sources = make_sources(K, weights=W)
    shg_mgr = make_shg_mgr(cfg, sources, group_sizes=group_sizes)
    pmm = make_pmm(sources, params=params, ns_last=ns_last)
    (dsy, sdw, dswf) = make_weight_services(shg_mgr, Y, dY=dY, src_factor=src_factor, yield_share=yield_share)
    tdms, inner, outer, llhs = [], [], [], []
    for j in range(J):
        Rj = Rs[j]
        E = (np.asarray(Rj(_nan_params(None, K))) if callable(Rj) else np.asarray(Rj)).shape[1]
        esm = None
        if masks is not None and masks[j] is not None:
            esm = StubEventSelection(shg_mgr, masks[j])
        ev = make_events(E, **((event_fields[j] if event_fields else None) or {}))
        tdm = make_tdm(shg_mgr, pmm, ev, n_events=Ns[j], evt_sel_method=esm, index_field_name=index_field_name)
        r = StubPDFRatio(cfg, Rj, dR=(dR[j] if dR else None), share=share)
        inner.append(r)
        if weighted:
            r = SourceWeightedPDFRatio(dataset_idx=j, src_detsigyield_weights_service=sdw, pdfratio=r, cfg=cfg)
        outer.append(r)
        tdms.append(tdm)
        llhs.append(make_single_llhratio(cfg, pmm, shg_mgr, tdm, r))
    multi = make_multi_llhratio(cfg, pmm, sdw, dswf, llhs)
    return Bundle(cfg, sources, shg_mgr, pmm, tdms, outer, inner, llhs, multi, (dsy, sdw, dswf))


def is_fixture_error(exc):
    import traceback
    tb = traceback.extract_tb(exc.__traceback__)
    return bool(tb) and '/harness/' in tb[-1].filename.replace('\\', '/')


def reraise_fixture_error(exc):
    """an exception raised by the stubs / builders themselves is a defect of the machinery (exit 2), never a
    property violation"""
    if is_fixture_error(exc):
        import traceback
        from harness.core import MachineryError
        raise MachineryError('fixture error: %s: %s\n%s' % (
            type(exc).__name__, exc, ''.join(traceback.format_tb(exc.__traceback__)[-3:])))
