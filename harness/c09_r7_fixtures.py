"""C09 round 7: (a) literals of skyllh/core/multiproc.py the Lean model depends on, read from the current source;
(b) real runs of the set-up of `parallelize` (what every task sees as `rss` / `tl`, which seed the service of its
process has, what it draws) in a forked caller under a watchdog; (c) `IsParallelizable.ncpu` set-then-get histories."""
import ast
import multiprocessing as mp
import os

MP_FILE = 'skyllh/core/multiproc.py'

RECORDED = dict(defaultNcpu=1, minNcpuGet=1, minNcpuSet=1, singleNcpu=1, randintLow=0, randintHigh=2 ** 32,
                enumStart=1, procOffset=1, childPidAbove=0)


# ------------------------------------------------------------------------------------------ extraction
def _lit(node):
    from harness import extract
    v = extract.literal(node)
    if isinstance(v, bool) or not isinstance(v, int):
        raise LookupError('not an int literal: %s' % ast.dump(node))
    return v


def _cmp_lt_const(func, name):
    """the literal c of the test `name < c` in func"""
    for n in ast.walk(func):
        if (isinstance(n, ast.Compare) and isinstance(n.left, ast.Name) and n.left.id == name and len(n.ops) == 1
                and isinstance(n.ops[0], ast.Lt)):
            return _lit(n.comparators[0])
    raise LookupError('no test %s < <literal>' % name)


def extract_constants():
    """{name: int}, [names that fell back to the recorded value with the reason]"""
    from harness import extract
    vals, fallbacks = dict(RECORDED), []

    def take(name, fn):
        try:
            vals[name] = fn()
        except Exception as e:  # noqa
            fallbacks.append((name, str(e)))

    try:
        tree = extract.parse(MP_FILE)
    except Exception as e:  # noqa
        return vals, [(k, str(e)) for k in RECORDED]
    g = extract.find_func(tree, 'get_ncpu')
    p = extract.find_func(tree, 'parallelize')
    cls = extract.find_class(tree, 'IsParallelizable')

    def default_ncpu():
        # the last `if ncpu is None: ncpu = <literal>` of get_ncpu
        found = None
        for n in ast.walk(g):
            if isinstance(n, ast.If):
                for s in n.body:
                    if (isinstance(s, ast.Assign) and isinstance(s.targets[0], ast.Name) and s.targets[0].id == 'ncpu'
                            and isinstance(s.value, (ast.Constant, ast.UnaryOp, ast.BinOp))):
                        found = _lit(s.value)
        if found is None:
            raise LookupError('no `ncpu = <literal>` in get_ncpu')
        return found

    def setter_min():
        for n in ast.walk(cls):
            if isinstance(n, ast.FunctionDef) and n.name == 'ncpu' and any(
                    isinstance(d, ast.Attribute) and d.attr == 'setter' for d in n.decorator_list):
                return _cmp_lt_const(n, 'n')
        raise LookupError('no ncpu setter')

    def single():
        for n in ast.walk(p):
            if (isinstance(n, ast.If) and isinstance(n.test, ast.Compare) and isinstance(n.test.left, ast.Name)
                    and n.test.left.id == 'ncpu' and len(n.test.ops) == 1 and isinstance(n.test.ops[0], ast.Eq)):
                return _lit(n.test.comparators[0])
        raise LookupError('no `if ncpu == <literal>`')

    def randint(k):
        def fn():
            for n in ast.walk(p):
                if (isinstance(n, ast.Call) and isinstance(n.func, ast.Attribute) and n.func.attr == 'randint'
                        and len(n.args) == 2 and not n.keywords):
                    return _lit(n.args[k])
            raise LookupError('no randint(<lo>, <hi>) call in parallelize')
        return fn

    def enum_start():
        for n in ast.walk(p):
            if (isinstance(n, ast.Call) and isinstance(n.func, ast.Name) and n.func.id == 'enumerate' and n.args
                    and isinstance(n.args[0], ast.Name) and n.args[0].id == 'processes'):
                for kw in n.keywords:
                    if kw.arg == 'start':
                        return _lit(kw.value)
                return _lit(n.args[1]) if len(n.args) > 1 else 0
        raise LookupError('no enumerate(processes, …)')

    def proc_offset():
        for n in ast.walk(p):
            if isinstance(n, ast.Subscript) and isinstance(n.value, ast.Name) and n.value.id == 'processes':
                s = n.slice
                if isinstance(s, ast.BinOp) and isinstance(s.op, ast.Sub) and isinstance(s.left, ast.Name) and s.left.id == 'pid':
                    return _lit(s.right)
                if isinstance(s, ast.Name) and s.id == 'pid':
                    return 0
        raise LookupError('no processes[pid - <literal>]')

    def child_pid_above():
        for n in ast.walk(p):
            if isinstance(n, ast.ListComp) and isinstance(n.elt, ast.Call) and getattr(n.elt.func, 'attr', None) == 'Process':
                for gen in n.generators:
                    for c in gen.ifs:
                        if (isinstance(c, ast.Compare) and isinstance(c.left, ast.Name) and c.left.id == 'pid'
                                and len(c.ops) == 1 and isinstance(c.ops[0], ast.Gt)):
                            return _lit(c.comparators[0])
        raise LookupError('no `if pid > <literal>` in the process list')

    take('defaultNcpu', default_ncpu)
    take('minNcpuGet', lambda: _cmp_lt_const(g, 'ncpu'))
    take('minNcpuSet', setter_min)
    take('singleNcpu', single)
    take('randintLow', randint(0))
    take('randintHigh', randint(1))
    take('enumStart', enum_start)
    take('procOffset', proc_offset)
    take('childPidAbove', child_pid_above)
    return vals, fallbacks


DOC = dict(defaultNcpu='get_ncpu: the literal of `ncpu = 1` (both settings None)',
           minNcpuGet='get_ncpu: the literal of `if ncpu < 1: raise ValueError`',
           minNcpuSet='IsParallelizable.ncpu setter: the literal of `if n < 1: raise ValueError`',
           singleNcpu='parallelize: the literal of `if ncpu == 1` (everything in the calling process)',
           randintLow='parallelize: low of `rss.random.randint(low, high)` (seed of a child service)',
           randintHigh='parallelize: high (exclusive) of `rss.random.randint(low, high)`',
           enumStart='parallelize: `enumerate(processes, start=…)` in `ended_procs` (pid of processes[0])',
           procOffset='parallelize: `processes[pid - …]` in the log-record loop',
           childPidAbove='parallelize: `if pid > …` in the list of child processes (chunks run by children)')


def generated_text(vals):
    lines = ['-- generated by harness/props/c09.py from the current skyllh source; do not edit', 'namespace Gen.C09']
    for k in RECORDED:
        lines.append('/-- %s -/' % DOC[k])
        lines.append('def %s : Int := %d' % (k, vals[k]))
    lines.append('end Gen.C09')
    return '\n'.join(lines) + '\n'


# ------------------------------------------------------------------------------------------ set-up runs
def probe(i, rss=None, tl=None):
    """the mapped function: what this task sees"""
    from skyllh.core.random import RandomStateService
    from skyllh.core.timing import TimeLord
    rk = 'none' if rss is None else 'ok' if isinstance(rss, RandomStateService) else 'wrong'
    tk = 'none' if tl is None else 'ok' if isinstance(tl, TimeLord) else 'wrong'
    seed = draw = None
    if rk == 'ok':
        seed = rss.seed
        draw = int(rss.random.randint(0, 2 ** 32))
    return (i, os.getpid(), rk, None if seed is None else int(seed), draw, tk)


def probe_kw(i, **kw):
    """the mapped function of the keyword-argument cases: the names it was called with, in order, and whether the value is the
    caller's marker"""
    return (i, os.getpid(), [[k, 'own' if isinstance(v, str) and v == 'OWN' else 'svc'] for k, v in kw.items()])


class DuckRss(object):
    def __init__(self, seed):
        import numpy as np
        self.seed = seed
        self.random = np.random.RandomState(seed)


class DuckTl(object):
    def join(self, tl):
        pass

    def task_timer(self, name):
        import contextlib
        return contextlib.nullcontext()


def _mk(kind, seed, what):
    import numpy as np
    from skyllh.core.random import RandomStateService
    from skyllh.core.timing import TimeLord
    if kind == 'none':
        return None
    if what == 'rss':
        # wrong type: an object that quacks like the service (so that only the type check can reject it)
        return RandomStateService(seed=seed) if kind == 'ok' else DuckRss(seed)
    return TimeLord() if kind == 'ok' else DuckTl()


def run_setup_case(case):
    """case: {ncpu, n, rss: none|ok|wrong, tl: none|ok|wrong, seed, ncpu_form: int|bool, container: list|tuple}"""
    from skyllh.core.multiproc import parallelize
    import json
    if case.get('plan'):
        os.environ['ICECUBE_SKYLLH_VERIF'] = '1'
        os.environ['ICECUBE_SKYLLH_VERIF_PLAN'] = json.dumps(case['plan'])
    else:
        os.environ.pop('ICECUBE_SKYLLH_VERIF', None)
        os.environ.pop('ICECUBE_SKYLLH_VERIF_PLAN', None)
    ncpu = case['ncpu']
    if case.get('ncpu_form') == 'bool' and ncpu == 1:
        ncpu = True
    args_list = [((i,), {}) for i in range(case['n'])]
    func = probe
    if case.get('own') is not None:
        func = probe_kw
        shared = {k: 'OWN' for k in case['own']}
        args_list = [((i,), shared if case.get('shared') else dict(shared)) for i in range(case['n'])]
        before = [list(kw.items()) for _, kw in args_list]
    if case.get('container') == 'tuple':
        args_list = tuple(args_list)
    rss = _mk(case['rss'], case['seed'], 'rss')
    tl = _mk(case['tl'], case['seed'], 'tl')
    try:
        res = parallelize(func, args_list, ncpu, rss=rss, tl=tl)
    except BaseException as e:  # noqa
        return {'out': 'error', 'etype': type(e).__name__, 'msg': str(e)[:200]}
    if case.get('own') is not None:
        return {'out': 'done', 'res': [list(r) for r in res], 'mypid': os.getpid(), 'after': None,
                'mutated': [list(kw.items()) for _, kw in args_list] != before}
    after = None
    if case['rss'] == 'ok':
        after = int(rss.random.randint(0, 2 ** 32))       # the caller keeps using its service after the call
    return {'out': 'done', 'res': [list(r) for r in res], 'mypid': os.getpid(), 'after': after}


def _caller(cases, conn):
    os.environ.pop('ICECUBE_SKYLLH_VERIF_PLAN', None)
    outs = []
    for c in cases:
        outs.append(run_setup_case(c))
        conn.send((len(outs) - 1, outs[-1]))
    conn.send(None)
    conn.close()


def run_setup_cases(cases, timeout=40.0):
    """all cases in one forked caller (own session → killable with its children); a case that did not answer
    within the time is {'out': 'timeout'}, those after it {'out': 'skipped'}"""
    import signal
    import time
    ctx = mp.get_context('fork')
    rd, wr = ctx.Pipe(duplex=False)
    pid = os.fork()
    if pid == 0:
        try:
            os.setsid()
            rd.close()
            _caller(cases, wr)
        finally:
            os._exit(0)
    wr.close()
    outs = [None] * len(cases)
    t_end = time.time() + timeout
    done = False
    try:
        while time.time() < t_end:
            if rd.poll(0.05):
                try:
                    m = rd.recv()
                except EOFError:
                    break
                if m is None:
                    done = True
                    break
                outs[m[0]] = m[1]
    finally:
        if not done:
            try:
                os.killpg(pid, signal.SIGKILL)
            except OSError:
                pass
        try:
            os.waitpid(pid, 0)
        except OSError:
            pass
        rd.close()
    first = True
    for i, o in enumerate(outs):
        if o is None:
            outs[i] = {'out': 'timeout' if first else 'skipped'}
            first = False
    return outs


def reference_stream(seed, lo, hi, k):
    """the first k numbers `np.random.RandomState(seed).randint(lo, hi)` yields, drawn one by one"""
    import numpy as np
    r = np.random.RandomState(seed)
    return [int(r.randint(lo, hi)) for _ in range(k)]


# ------------------------------------------------------------------------------------------ ncpu property
def ncpu_property_impl(cfg_value, value):
    """`obj.ncpu = value; obj.ncpu` on a minimal IsParallelizable + HasConfig object: ok:<n> | set:<E> | get:<E>"""
    from skyllh.core.config import Config, HasConfig
    from skyllh.core.multiproc import IsParallelizable

    class Obj(IsParallelizable, HasConfig):
        pass

    cfg = Config()
    cfg['multiproc']['ncpu'] = cfg_value
    obj = Obj(cfg=cfg)
    try:
        obj.ncpu = value
    except (TypeError, ValueError) as e:
        return 'set:' + type(e).__name__
    try:
        n = obj.ncpu
    except (TypeError, ValueError) as e:
        return 'get:' + type(e).__name__
    return 'ok:%d' % n
