"""C03 round 7: the derivative side of the two weight services (a_jk_grads, f_j_grads) as a generated class.

case = {'W': [K], 'Y': J x K (Y0), 'groups': [sizes], 'c': [J], 'pmap': [per group: fit-parameter id | None],
        'gam': [value per fit-parameter id], 'ns_last': bool, 'yshare': False | True | 'strided' | 'readonly',
        'cfac': common factor for the scale relation, 'perm': permutation of the datasets}
Y_jk(gamma) = Y0_jk (1 + c_j gamma_k) fac_k,  dY_jk/dgamma = Y0_jk c_j fac_k  (fac follows the source's declination).
Groups may share a fit parameter (their slices land in the same a_jk_grads table) or have none (their slice of
every table stays at the zeros of the defaultdict; a key no group reports never appears).
"""
from fractions import Fraction

import numpy as np

from harness import llh_fixtures as fx
from harness.core import flist, ilist, parse_flist

REL = 1e-11


def _fac(rec):
    return 1.0 + 0.5 * np.sin(np.asarray(rec['dec'], dtype=np.float64))


def build(case, W=None, order=None):
    """real SrcDetSigYieldWeightsService + DatasetSignalWeightFactorsService on stub yields; order = permutation of
    the datasets (rows of Y0 and c travel together)"""
    cfg = fx.make_cfg()
    W = case['W'] if W is None else W
    K = len(W)
    J = len(case['Y'])
    order = list(range(J)) if order is None else order
    Y0 = np.array(case['Y'], dtype=np.float64)[order]
    c = np.array(case['c'], dtype=np.float64)[order]

    def _gamma(params):
        # no group has a fit parameter: the record array has no 'gamma' field at all
        # (a source without the parameter carries nan in the record array: its yield does not depend on it)
        return np.nan_to_num(params['gamma'], nan=0.0) if 'gamma' in params else np.zeros((K,), dtype=np.float64)

    def Y(params):
        return Y0 * (1.0 + c[:, np.newaxis] * _gamma(params)[np.newaxis, :])

    def dYdg(params):
        return Y0 * c[:, np.newaxis] * np.ones_like(_gamma(params))[np.newaxis, :]

    sources = fx.make_sources(K, weights=W)
    shg_mgr = fx.make_shg_mgr(cfg, sources, group_sizes=case['groups'])

    def params(srcs):
        out = []
        for pid in sorted(set(p for p in case['pmap'] if p is not None)):
            ms, k = [], 0
            for g, n in enumerate(case['groups']):
                if case['pmap'][g] == pid:
                    ms += srcs[k:k + n]
                k += n
            out.append((fx.make_param('gamma%d' % pid, 2.0, -5.0, 5.0), ms, 'gamma'))
        return out
    pmm = fx.make_pmm(sources, params=params, ns_last=bool(case.get('ns_last')))
    services = fx.make_weight_services(shg_mgr, Y, dY={'gamma': dYdg}, src_factor=_fac,
                                       yield_share=case.get('yshare') or False)
    return (pmm, shg_mgr, services)


def fitparams(pmm, case):
    return fx.fitparam_values(pmm, 1.0, **{'gamma%d' % i: g for i, g in enumerate(case['gam'])})


def observe(case, W=None, order=None, twice=False):
    """-> dict: rec (gamma per source, gpidx per source), a, f, da {key: table}, df {key: list}, key order"""
    (pmm, shg_mgr, (dsy, sdw, dswf)) = build(case, W=W, order=order)
    rec = pmm.create_src_params_recarray(fitparams(pmm, case))
    out = {}
    with np.errstate(all='ignore'):
        for _ in range(2 if twice else 1):
            sdw.calculate(src_params_recarray=rec)
            dswf.calculate()
    (a, da) = sdw.get_weights()
    (f, df) = dswf.get_weights()
    names = rec.dtype.names or ()
    K = len(case['W'])
    out['gamma'] = [float(x) for x in rec['gamma']] if 'gamma' in names else [0.0] * K
    out['gp'] = [int(x) for x in rec['gamma:gpidx']] if 'gamma:gpidx' in names else [0] * K
    out['a'] = [[float(x) for x in r] for r in np.asarray(a)]
    out['f'] = [float(x) for x in np.asarray(f)]
    out['da'] = {int(k): [[float(x) for x in r] for r in np.asarray(v)] for k, v in da.items()}
    out['df'] = {int(k): [float(x) for x in np.asarray(v)] for k, v in df.items()}
    out['shapes'] = {int(k): tuple(np.asarray(v).shape) for k, v in da.items()}
    return out


def inputs(case, o, order=None):
    """what the yields return at the observed source parameters: Y (J x K), dY (J x K), fac — same float operations as
    the stubs perform"""
    J = len(case['Y'])
    order = list(range(J)) if order is None else order
    Y0 = np.array(case['Y'], dtype=np.float64)[order]
    c = np.array(case['c'], dtype=np.float64)[order]
    K = Y0.shape[1]
    fac = 1.0 + 0.5 * np.sin(np.array([s.dec for s in fx.make_sources(K)], dtype=np.float64))
    gam = np.nan_to_num(np.array(o['gamma'], dtype=np.float64), nan=0.0)
    Y = (Y0 * (1.0 + c[:, np.newaxis] * gam[np.newaxis, :])) * fac
    dY = (Y0 * c[:, np.newaxis] * np.ones_like(gam)[np.newaxis, :]) * fac
    return Y, dY


def group_keys(case, o):
    """per group: the dictionary key (global fit parameter index) its yield reports, or None"""
    out, k = [], 0
    for n in case['groups']:
        gp = o['gp'][k]
        out.append(gp - 1 if gp > 0 else None)
        k += n
    return out


def exact(case, o, W=None, order=None):
    """exact-fraction a_jk, f_j, a_jk_grads, f_j_grads from the float outputs of the yields"""
    W = case['W'] if W is None else W
    Y, dY = inputs(case, o, order)
    Wf = [Fraction(w) for w in W]
    a = [[Wf[k] * Fraction(float(y)) for k, y in enumerate(row)] for row in Y]
    tot = sum(sum(r) for r in a)
    gk = group_keys(case, o)
    keys = sorted(set(k for k in gk if k is not None))
    res = {'a': a, 'tot': tot, 'f': [sum(r) / tot for r in a], 'da': {}, 'df': {}, 'scale': {}}
    for key in keys:
        tab = []
        for j in range(len(Y)):
            row, k = [], 0
            for g, n in enumerate(case['groups']):
                for kk in range(k, k + n):
                    row.append(Wf[kk] * Fraction(float(dY[j][kk])) if gk[g] == key else Fraction(0))
                k += n
            tab.append(row)
        dtot = sum(sum(r) for r in tab)
        res['da'][key] = tab
        res['df'][key] = [(sum(dr) * tot - sum(r) * dtot) / (tot * tot) for r, dr in zip(a, tab)]
        absd = sum(sum(abs(x) for x in r) for r in tab)
        res['scale'][key] = [float((sum(abs(x) for x in dr) * abs(tot) + abs(sum(r)) * absd) / (tot * tot)) for r, dr in zip(a, tab)]
    return res


def _close(x, want, tol):
    return x == x and abs(x - float(want)) <= tol


def check(case, W=None, order=None, twice=False):
    """the implementation against the exact reference; -> (None | text, observation, reference)"""
    o = observe(case, W=W, order=order, twice=twice)
    ex = exact(case, o, W=W, order=order)
    J, K = len(case['Y']), len(case['W'])
    if sorted(o['da']) != sorted(ex['da']):
        return ('a_jk_grads has the keys %r, the yields report derivatives for the global fit parameters %r (groups -> %r)' % (
            sorted(o['da']), sorted(ex['da']), group_keys(case, o)), o, ex)
    if sorted(o['df']) != sorted(o['da']):
        return ('f_j_grads has the keys %r but a_jk_grads %r' % (sorted(o['df']), sorted(o['da'])), o, ex)
    for key in sorted(ex['da']):
        if o['shapes'][key] != (J, K) or len(o['df'][key]) != J:
            return ('a_jk_grads[%d] has shape %r, f_j_grads[%d] length %d for J=%d, K=%d' % (
                key, o['shapes'][key], key, len(o['df'][key]), J, K), o, ex)
        for j in range(J):
            for k in range(K):
                want = ex['da'][key][j][k]
                if not _close(o['da'][key][j][k], want, 4 * 2.0 ** -52 * abs(float(want))):
                    return ('a_jk_grads[%d][%d][%d] = %r, but W_k * dY_jk/dp = %r (0 outside the groups that depend on the '
                            'parameter; groups -> keys %r)' % (key, j, k, o['da'][key][j][k], float(want), group_keys(case, o)), o, ex)
        s = 0.0
        for j in range(J):
            want = ex['df'][key][j]
            if not _close(o['df'][key][j], want, REL * ex['scale'][key][j]):
                return ('f_j_grads[%d][%d] = %r, but the derivative of a_j/a by the quotient rule is %r' % (
                    key, j, o['df'][key][j], float(want)), o, ex)
            s += o['df'][key][j]
        if not abs(s) <= REL * sum(ex['scale'][key]):
            return ('sum_j f_j_grads[%d] = %r, but the f_j sum to one for every parameter value (derivative 0)' % (key, s), o, ex)
    for j in range(J):
        if not _close(o['f'][j], ex['f'][j], 1e-12 * abs(float(ex['f'][j]))):
            return ('f[%d] = %r, exact %r' % (j, o['f'][j], float(ex['f'][j])), o, ex)
    return (None, o, ex)


def oracle(case):
    """partition of unity on the derivative side + invariances: exact quotient rule, sum_j f_j_grads = 0, common factor
    on the source weights (f_j_grads unchanged, a_jk_grads scaled), datasets permuted (entries travel with their row),
    second calculation on the same objects"""
    (res, o, ex) = check(case, twice=bool(case.get('twice')))
    if res:
        return res
    cf = case['cfac']
    W2 = [w * cf for w in case['W']]
    (res, o2, ex2) = check(case, W=W2)
    if res:
        return 'with all source weights multiplied by %r: %s' % (cf, res)
    for key in o['df']:
        for j, (x, y) in enumerate(zip(o['df'][key], o2['df'][key])):
            if not abs(x - y) <= 2 * REL * ex['scale'][key][j]:
                return 'f_j_grads[%d][%d] = %r, but %r with all source weights multiplied by %r' % (key, j, x, y, cf)
    p = case['perm']
    (res, o3, ex3) = check(case, order=p)
    if res:
        return 'with the datasets in the order %r: %s' % (p, res)
    for key in o['df']:
        if key not in o3['df']:
            return 'f_j_grads loses the key %d when the datasets are permuted' % key
        for jn, jo in enumerate(p):
            if not abs(o3['df'][key][jn] - o['df'][key][jo]) <= 2 * REL * ex['scale'][key][jo]:
                return ('f_j_grads[%d] of dataset %d = %r, but %r when the datasets are given in the order %r' % (
                    key, jo, o['df'][key][jo], o3['df'][key][jn], p))
    return None


def request(case, o, axis, exponent):
    """`grd` request for Driver/C03.lean at the observed source parameters"""
    Y, dY = inputs(case, o)
    gk = group_keys(case, o)
    keys = sorted(set(k for k in gk if k is not None))
    toks = ['grd', str(axis), str(exponent), ilist(case['groups']), flist(case['W']), flist(y for r in Y.tolist() for y in r)]
    # one probe for a key no group reports (the defaultdict never creates it): model `none`
    for key in keys + [None]:
        mask = [1 if (key is not None and g == key) else 0 for g in gk]
        d = np.array(dY)
        # what a group without the key would hold is never read: poison it
        k = 0
        for g, n in enumerate(case['groups']):
            if not mask[g]:
                d[:, k:k + n] = 7.0e300
            k += n
        toks += [ilist(mask), flist(x for r in d.tolist() for x in r)]
    return ' '.join(toks), keys


def compare(case, o, ex, keys, ans):
    """model answer vs implementation (stated tolerances) and code form vs specification form inside the model"""
    toks = ans.split(' ')
    if not toks[0].startswith('f:') or toks[0] == 'f:error':
        return 'model: %s' % toks[0]
    mf = parse_flist(toks[0][2:])
    if len(mf) != len(o['f']):
        return 'f: %d entries, model %d' % (len(o['f']), len(mf))
    for j, (x, y) in enumerate(zip(o['f'], mf)):
        if not abs(x - y) <= 1e-12 * abs(y):
            return 'f[%d] implementation %r, model %r' % (j, x, y)
    if len(toks) != len(keys) + 2 or toks[-1] != 'none':
        return 'model: %d key answers for %d keys + the absent-key probe (%r)' % (len(toks) - 1, len(keys), toks[-1][:20])
    K = len(case['W'])
    for key, t in zip(keys, toks[1:-1]):
        if t == 'none':
            return 'a_jk_grads[%d] exists in the implementation, the model has no such key' % key
        parts = t.split(';')
        if 'error' in parts:
            return 'model: error for key %d' % key
        mda, mdf, sda, sdf = [parse_flist(p) for p in parts]
        ida = [x for r in o['da'][key] for x in r]
        if len(mda) != len(ida) or len(sda) != len(ida):
            return 'a_jk_grads[%d]: %d entries, model %d (spec %d)' % (key, len(ida), len(mda), len(sda))
        for i, (x, y, z) in enumerate(zip(ida, mda, sda)):
            if not (abs(x - y) <= 4 * 2.0 ** -52 * abs(y) and (y == z)):
                return 'a_jk_grads[%d][%d][%d] implementation %r, model as coded %r, model specification %r' % (key, i // K, i % K, x, y, z)
        if len(mdf) != len(o['df'][key]) or len(sdf) != len(mdf):
            return 'f_j_grads[%d]: %d entries, model %d' % (key, len(o['df'][key]), len(mdf))
        for j, (x, y, z) in enumerate(zip(o['df'][key], mdf, sdf)):
            tol = REL * ex['scale'][key][j]
            if not (abs(x - y) <= tol and abs(y - z) <= tol):
                return 'f_j_grads[%d][%d] implementation %r, model as coded %r, model specification %r' % (key, j, x, y, z)
    return None


def gen_case(rng):
    J = rng.choice([1, 2, 2, 3, 3, 4])
    K = rng.choice([1, 2, 3, 4, 5, 5])
    G = rng.randint(1, min(3, K))
    cuts = sorted(rng.sample(range(1, K), G - 1)) if G > 1 else []
    groups = [b - a for a, b in zip([0] + cuts, cuts + [K])]
    kind = rng.choice(['own', 'own', 'shared', 'some-none', 'all-none'])
    if kind == 'own':
        pmap = list(range(G))
    elif kind == 'shared':
        pmap = [rng.randrange(max(1, G - 1)) for _ in range(G)]
        ids = sorted(set(pmap))
        pmap = [ids.index(p) for p in pmap]
    elif kind == 'some-none':
        pmap = [(0 if rng.random() < 0.5 else None) for _ in range(G)]
        if all(p is None for p in pmap):
            pmap[rng.randrange(G)] = 0
    else:
        pmap = [None] * G
    npar = len(set(p for p in pmap if p is not None))
    ex = rng.choice([0, 0, 3, 6])
    W = [rng.uniform(0.1, 3.0) * 10.0 ** rng.uniform(-ex, ex) for _ in range(K)]
    if K >= 2 and rng.random() < 0.2:
        W[rng.randrange(K)] = 0.0
    Y = [[(0.0 if rng.random() < 0.15 else rng.uniform(0.1, 10.0) * 10.0 ** rng.uniform(-ex, ex)) for _ in range(K)] for _ in range(J)]
    # positive total: a positive weight meets a positive yield somewhere
    kpos = [k for k in range(K) if W[k] > 0]
    if not any(Y[j][k] > 0 for j in range(J) for k in kpos):
        Y[rng.randrange(J)][rng.choice(kpos)] = rng.uniform(0.5, 2.0)
    if J >= 2 and rng.random() < 0.15:
        j0 = rng.randrange(J)
        if any(Y[j][k] > 0 for j in range(J) if j != j0 for k in kpos):
            Y[j0] = [0.0] * K                                    # a dataset that sees no source
    case = {'W': W, 'Y': Y, 'groups': groups, 'c': [rng.uniform(-0.15, 0.15) for _ in range(J)], 'pmap': pmap,
            'gam': [rng.uniform(-3.0, 3.0) for _ in range(npar)], 'ns_last': rng.random() < 0.4,
            'yshare': rng.choice([False, False, True, 'strided', 'readonly']),
            'cfac': rng.uniform(1.0, 10.0) * 10.0 ** rng.randint(-6, 6), 'twice': rng.random() < 0.5}
    p = list(range(J))
    rng.shuffle(p)
    case['perm'] = p
    return case, 'grads:' + kind


# --------------------------------------------------------------------------------------------------
# life cycle of the two services through their public API, exceptions included
# case['life'] = list of ops: ['S', W'] | ['C', same] | ['A', gam] | ['F'] | ['GA'] | ['GF']

def _inputs_at(case, gamma_src):
    Y0 = np.array(case['Y'], dtype=np.float64)
    c = np.array(case['c'], dtype=np.float64)
    K = Y0.shape[1]
    fac = 1.0 + 0.5 * np.sin(np.array([s.dec for s in fx.make_sources(K)], dtype=np.float64))
    gam = np.nan_to_num(np.array(gamma_src, dtype=np.float64), nan=0.0)
    return (Y0 * (1.0 + c[:, np.newaxis] * gam[np.newaxis, :])) * fac


def life_run(case, ops=None):
    """the calls on ONE pair of service objects; -> (list of outcomes, list of the yields Y of every 'A' op).
    outcome: ('ok',) | ('None',) | ('T', table) | ('V', vector) | ('E', exception class name)"""
    ops = case['life'] if ops is None else ops
    (pmm, shg_mgr, (dsy, sdw, dswf)) = build(case)
    cfg = fx.make_cfg()
    K = len(case['W'])
    out, Ys = [], []
    with np.errstate(all='ignore'):
        for op in ops:
            try:
                if op[0] == 'S':
                    for src, w in zip(shg_mgr.source_list, op[1]):
                        src.weight = w
                    out.append(('ok',))
                elif op[0] == 'C':
                    if op[1]:
                        dsy.change_shg_mgr(shg_mgr=shg_mgr)
                        sdw.change_shg_mgr(shg_mgr=shg_mgr)
                    else:
                        other = fx.make_shg_mgr(cfg, fx.make_sources(K, weights=[1.0] * K), group_sizes=case['groups'])
                        sdw.change_shg_mgr(shg_mgr=other)
                    out.append(('ok',))
                elif op[0] == 'A':
                    rec = pmm.create_src_params_recarray(
                        fx.fitparam_values(pmm, 1.0, **{'gamma%d' % i: g for i, g in enumerate(op[1])}))
                    names = rec.dtype.names or ()
                    Ys.append(_inputs_at(case, rec['gamma'] if 'gamma' in names else [0.0] * K))
                    sdw.calculate(src_params_recarray=rec)
                    out.append(('ok',))
                elif op[0] == 'F':
                    dswf.calculate()
                    out.append(('ok',))
                elif op[0] == 'GA':
                    a = sdw.get_weights()[0]
                    out.append(('None',) if a is None else ('T', [[float(x) for x in r] for r in np.asarray(a)]))
                elif op[0] == 'GF':
                    out.append(('V', [float(x) for x in np.asarray(dswf.get_weights()[0])]))
                else:
                    raise AssertionError(op)
            except AssertionError:
                raise
            except Exception as e:  # noqa
                fx.reraise_fixture_error(e)
                out.append(('E', type(e).__name__))
    return out, Ys


def life_expected(case, Ys):
    """exact-fraction reference, stateless: a_jk / f_j from the weights in force at the last successful change_shg_mgr
    and the yields of the last calculate; exceptions exactly for: foreign manager, calculate() of the factor service
    before any calculate of the weight service, get_weights() of the factor service before its calculate()"""
    W = [Fraction(w) for w in case['W']]
    Wc = list(W)
    a = f = None
    out, iy = [], 0
    for op in case['life']:
        if op[0] == 'S':
            W = [Fraction(w) for w in op[1]]
            out.append(('ok',))
        elif op[0] == 'C':
            if op[1]:
                Wc = list(W)
                out.append(('ok',))
            else:
                out.append(('E', 'ValueError'))
        elif op[0] == 'A':
            Y = Ys[iy]
            iy += 1
            a = [[Wc[k] * Fraction(float(y)) for k, y in enumerate(row)] for row in Y]
            out.append(('ok',))
        elif op[0] == 'F':
            if a is None:
                out.append(('E', None))          # some exception (numpy's AxisError today)
            else:
                tot = sum(sum(r) for r in a)
                f = [sum(r) / tot for r in a]
                out.append(('ok',))
        elif op[0] == 'GA':
            out.append(('None',) if a is None else ('T', a))
        elif op[0] == 'GF':
            out.append(('E', None) if f is None else ('V', f))
    return out


def _same_outcome(x, want, rel=1e-12):
    if x[0] != want[0]:
        return False
    if x[0] == 'E':
        return want[1] is None or x[1] == want[1]
    if x[0] == 'T':
        return len(x[1]) == len(want[1]) and all(
            len(r) == len(w) and all(abs(p - float(q)) <= rel * abs(float(q)) for p, q in zip(r, w)) for r, w in zip(x[1], want[1]))
    if x[0] == 'V':
        return len(x[1]) == len(want[1]) and all(abs(p - float(q)) <= rel * abs(float(q)) for p, q in zip(x[1], want[1]))
    return True


def _show(x):
    if x[0] in ('T', 'V'):
        return '%s%r' % (x[0], [[float(v) for v in r] for r in x[1]] if x[0] == 'T' else [float(v) for v in x[1]])
    return ' '.join(str(t) for t in x)


def life_oracle(case):
    """every call of a history returns what the stateless exact reference says (exceptions included), and a call that
    raised leaves the objects as they were: the outcomes equal those of fresh objects that never saw the failing calls"""
    obs, Ys = life_run(case)
    want = life_expected(case, Ys)
    for i, (x, w) in enumerate(zip(obs, want)):
        if not _same_outcome(x, w):
            return 'call %d %r of the history %r: %s, expected %s' % (i, case['life'][i], case['life'][:i], _show(x)[:300], _show(w)[:300])
    good = [op for op, x in zip(case['life'], obs) if x[0] != 'E']
    obs2, _ = life_run(case, ops=good)
    if [x for x in obs if x[0] != 'E'] != obs2:
        return 'the outcomes after calls that raised differ from those of fresh objects that never saw these calls (history %r)' % (case['life'],)
    return None


def life_request(case, Ys):
    toks = ['life', flist(case['W'])]
    iy = 0
    for op in case['life']:
        if op[0] == 'S':
            toks += ['S', flist(op[1])]
        elif op[0] == 'C':
            toks += ['C', '1' if op[1] else '0']
        elif op[0] == 'A':
            toks += ['A', flist(y for r in Ys[iy].tolist() for y in r)]
            iy += 1
        else:
            toks.append(op[0])
    return ' '.join(toks)


def life_compare(case, obs, ans):
    toks = ans.split(' ')
    if len(toks) != len(obs):
        return '%d calls, model %d answers' % (len(obs), len(toks))
    K = len(case['W'])
    for i, (x, t) in enumerate(zip(obs, toks)):
        if t.startswith('T:'):
            flat = parse_flist(t[2:])
            m = ('T', [flat[r * K:(r + 1) * K] for r in range(len(flat) // K)])
        elif t.startswith('V:'):
            m = ('V', parse_flist(t[2:]))
        elif t.startswith('E:'):
            m = ('E', t[2:])
        else:
            m = (t,)
        # which exception np.sum(None, axis=1) raises is numpy's business: any exception there matches
        if x[0] == 'E' and m[0] == 'E' and m[1] == 'AxisError':
            continue
        if not _same_outcome(x, m):
            return 'call %d %r after %r: implementation %s, model %s' % (i, case['life'][i], case['life'][:i], _show(x)[:200], _show(m)[:200])
    return None


def gen_life_case(rng):
    case, _ = gen_case(rng)
    K = len(case['W'])
    npar = len(case['gam'])
    ops = []
    # mostly legal prefixes, with the illegal orders (F before A, GF before F, GA before A) and foreign managers mixed in
    if rng.random() < 0.5:
        ops += [['A', [rng.uniform(-3.0, 3.0) for _ in range(npar)]], ['F']]
    n = rng.randint(4, 9)
    for _ in range(n):
        r = rng.random()
        if r < 0.22:
            ops.append(['A', [rng.uniform(-3.0, 3.0) for _ in range(npar)]])
        elif r < 0.40:
            ops.append(['F'])
        elif r < 0.55:
            ops.append(['GA'])
        elif r < 0.72:
            ops.append(['GF'])
        elif r < 0.86:
            W = [w * rng.uniform(0.5, 2.0) for w in case['W']]
            if rng.random() < 0.5:
                W = [w if w > 0 else rng.uniform(0.1, 1.0) for w in W]
            ops.append(['S', W])
            if rng.random() < 0.7:
                ops.append(['C', True])
        else:
            ops.append(['C', rng.random() < 0.4])
    if rng.random() < 0.4:
        # directed: weights changed in the manager but NOT propagated, a failing change_shg_mgr, then a calculation — the
        # failed call must not have refreshed the cached weights (every `raise` comes before the first assignment)
        ops += [['S', [w * rng.uniform(1.5, 3.0) for w in case['W']]], ['C', False],
                ['A', [rng.uniform(-3.0, 3.0) for _ in range(npar)]], ['GA'], ['F'], ['GF']]
    case['life'] = ops
    return case


# --------------------------------------------------------------------------------------------------
# a detector signal yield that returns an array of the wrong length (numpy broadcasting inside calculate)
# case['bad'] = {'j': dataset, 'g': group, 'm': length of the returned yield array}

def _bad_yield_class():
    base = fx._stub_classes()['StubDetSigYield']

    class WrongLengthYield(base):
        def __init__(self, inner, m):
            self.inner = inner
            self.m = m
            self.param_names = inner.param_names

        def sources_to_recarray(self, sources):
            return self.inner.sources_to_recarray(sources)

        def __call__(self, src_recarray, src_params_recarray):
            (values, grads) = self.inner(src_recarray, src_params_recarray)
            return (np.resize(np.asarray(values, dtype=np.float64), (self.m,)), {})
    return WrongLengthYield


def shape_run(case):
    """-> ('T', a_jk) | ('E', exception name), and the per-group yield arrays handed to calculate for every dataset"""
    (pmm, shg_mgr, (dsy, sdw, dswf)) = build(case)
    bad = case['bad']
    arr = dsy.arr
    arr[bad['j'], bad['g']] = _bad_yield_class()(arr[bad['j'], bad['g']], bad['m'])
    rec = pmm.create_src_params_recarray(fitparams(pmm, case))
    names = rec.dtype.names or ()
    K = len(case['W'])
    Y = _inputs_at(case, rec['gamma'] if 'gamma' in names else [0.0] * K)
    ys = []
    for j in range(len(case['Y'])):
        row, k = [], 0
        for g, n in enumerate(case['groups']):
            y = Y[j][k:k + n]
            if (j, g) == (bad['j'], bad['g']):
                y = np.resize(y, (bad['m'],))
            row.append([float(v) for v in y])
            k += n
        ys.append(row)
    try:
        with np.errstate(all='ignore'):
            sdw.calculate(src_params_recarray=rec)
        a = sdw.get_weights()[0]
        return ('T', [[float(x) for x in r] for r in np.asarray(a)]), ys
    except Exception as e:  # noqa
        fx.reraise_fixture_error(e)
        return ('E', type(e).__name__), ys


def shape_expected(case, ys):
    """numpy's rule, exact fractions: equal length elementwise, a length-1 yield array is broadcast over the group,
    everything else cannot be assigned into the slice"""
    W = [Fraction(w) for w in case['W']]
    out = []
    for j, row in enumerate(ys):
        r, k = [], 0
        for g, n in enumerate(case['groups']):
            y = row[g]
            if len(y) == n:
                r += [W[k + i] * Fraction(y[i]) for i in range(n)]
            elif len(y) == 1:
                r += [W[k + i] * Fraction(y[0]) for i in range(n)]
            else:
                return ('E', None)
            k += n
        out.append(r)
    return ('T', out)


def shape_oracle(case):
    obs, ys = shape_run(case)
    want = shape_expected(case, ys)
    if not _same_outcome(obs, want, rel=4 * 2.0 ** -52):
        return ('a yield array of length %d for group %d (n=%d sources) of dataset %d: calculate gives %s, numpy broadcasting of '
                'src_weights * Yg into the slice gives %s' % (case['bad']['m'], case['bad']['g'], case['groups'][case['bad']['g']],
                                                              case['bad']['j'], _show(obs)[:200], _show(want)[:200]))
    return None


def shape_request(case, ys):
    """`shp <sizes> <W> {<yield arrays of one dataset, ';'-separated per group>}`"""
    return 'shp %s %s %s' % (ilist(case['groups']), flist(case['W']), ' '.join(';'.join(flist(y) for y in row) for row in ys))


def shape_compare(case, obs, ans):
    K = len(case['W'])
    if ans == 'error':
        m = ('E', None)
        return None if obs[0] == 'E' else 'implementation %s, model raises' % _show(obs)[:200]
    flat = parse_flist(ans)
    m = ('T', [flat[r * K:(r + 1) * K] for r in range(len(flat) // K)])
    return None if _same_outcome(obs, m, rel=4 * 2.0 ** -52) else 'implementation %s, model %s' % (_show(obs)[:200], _show(m)[:200])


def gen_shape_case(rng):
    case, _ = gen_case(rng)
    g = rng.randrange(len(case['groups']))
    n = case['groups'][g]
    kind = rng.choice(['equal', 'one', 'longer', 'shorter'])
    m = {'equal': n, 'one': 1, 'longer': n + rng.randint(1, 2), 'shorter': max(0, n - 1) if n != 2 else 0}[kind]
    case['bad'] = {'j': rng.randrange(len(case['Y'])), 'g': g, 'm': m}
    return case
