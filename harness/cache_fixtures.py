"""C06 fixture: a small but *real* skyllh likelihood object graph whose every cache layer is live.

    TrialDataManager (with / without source, pre-event-selection and static data fields)
      -> SignalMultiDimGridPDFSet[ SignalMultiDimGridPDF per grid point, cache_pd_values on/off ]
           interpolated by Linear1D / Parabola1D GridManifoldInterpolationMethod
      -> BackgroundMultiDimGridPDF (cache_pd_values on/off)
      -> SigOverBkgPDFRatio -> SourceWeightedPDFRatio -> ZeroSigH0SingleDatasetTCLLHRatio
      -> MultiDatasetTCLLHRatio (one dataset)

Only the numbers in the PDF grids, the events and the source positions are synthetic.  `world_*`
recompute the leaf values (spline value of every event) with scipy alone, independent of skyllh; they
are what the Lean model is given as its `World`.

spec = dict(K=1|2, split=bool, fields='none'|'static'|'all', cache=bool, interp='linear'|'parabola',
            scale='small'|'mjd');  split (K=2 only): one global parameter per source instead of a shared one
"""
import numpy as np

from harness import llh_fixtures as fx

N_TOTAL = 40
N_OF = {0: 40, 1: 40, 2: 55, 3: 12, 4: 7}     # total number of events of the data set (changes between trials)

DATA = {
    0: np.array([0.05, 0.31, 0.52, 0.66, 0.81, 0.97]),            # A
    1: np.array([0.12, 0.28, 0.44, 0.73, 0.79, 0.90]),            # B  (same size as A)
    2: np.array([0.02, 0.15, 0.33, 0.35, 0.58, 0.61, 0.84, 0.88, 0.95]),   # C  (different size)
    3: np.array([0.37]),                                          # D  (a one-event trial)
    4: np.array([], dtype=np.float64),                            # E  (no event at all survives: a zero-event trial)
}
EDGES = np.linspace(0.0, 1.0, 6)
SOFF_EDGES = np.linspace(0.0, 1.0, 3)
DELTA = 0.1
NGRID = 18


def base(spec):
    return 55000.0 if spec['scale'] == 'mjd' else 1.0


def grid_values(spec):
    return np.around(base(spec) + DELTA * np.arange(NGRID), 1)


def src_ra(s, k):
    return 0.1 * (k + 1) + 0.23 * s


def make_source_list(spec, s):
    from skyllh.core.source_model import PointLikeSource
    K = spec['K']
    return [PointLikeSource(name='S%d' % k, ra=src_ra(s, k), dec=src_dec(s, k), weight=1.0 + 0.5 * k) for k in range(K)]


def src_dec(s, k):
    return np.deg2rad(-20.0 + 40.0 * k + 5.0 * s)


def sig_grid(spec, g):
    c = float(g) - base(spec)
    col = 1.0 + c * EDGES + 0.3 * c * c * EDGES ** 2
    if spec['fields'] == 'all':
        return np.outer(col, 1.0 + 0.5 * SOFF_EDGES)
    return col


def bkg_grid():
    return np.maximum(0.0, 1.5 - 2.0 * EDGES)       # zero for x >= 0.75: exercises zero_bkg_ratio_value


# ---- independent leaf values (scipy only) -------------------------------------------------------

def sel_mask(spec, d):
    """event selection of spec['evsel']: (K, E) bool — event i is paired with source k iff (i + k) % 3 != 0: unequal blocks,
    events that no source selects (K = 1), empty blocks (one-event data set); None: no event selection method"""
    if not spec.get('evsel'):
        return None
    E = len(DATA[d])
    return np.array([[(i + k) % 3 != 0 for i in range(E)] for k in range(spec['K'])], dtype=bool).reshape(spec['K'], E)


def sel_positions(spec, d, k):
    """positions, within the array of selected events, of the events paired with source k (None: all)"""
    m = sel_mask(spec, d)
    if m is None:
        return None
    keep = np.any(m, axis=0)
    pos = np.cumsum(keep) - 1
    return [int(pos[i]) for i in range(m.shape[1]) if m[k, i]]


def _x_sel(spec, d, k=None):
    """x of the events paired with source k (k None: of all selected events)"""
    x = DATA[d]
    m = sel_mask(spec, d)
    if m is None:
        return x
    return x[np.any(m, axis=0)] if k is None else x[m[k]]


def _z(spec, d, s, k):
    x = _x_sel(spec, d, k)
    if spec['fields'] == 'none':
        return x
    return np.mod(x + src_ra(s, k), 1.0)


def norm_of(first_axis_values):
    """the non-trivial normalisation factor of spec['norm'] (a function of the event's first axis value, as the KDE
    norm factor functions of skyllh.core.utils.multidimgridpdf are)"""
    return 1.0 + 0.5 * first_axis_values


def norm_factor_func(pdf, tdm, params_recarray, eventdata, evt_mask=None):
    v = eventdata[0] if evt_mask is None else eventdata[0][evt_mask]
    return norm_of(v)


def world_man(spec, d, s, k, g):
    from scipy.interpolate import RegularGridInterpolator as RGI
    z = _z(spec, d, s, k)
    if spec['fields'] == 'all':
        pts = np.column_stack([z, np.full(len(z), src_ra(s, k))])
        pd = RGI((EDGES, SOFF_EDGES), sig_grid(spec, g), method='linear', bounds_error=False, fill_value=0)(pts)
    else:
        pd = RGI((EDGES,), sig_grid(spec, g), method='linear', bounds_error=False, fill_value=0)(z[:, None])
    if spec.get('norm'):
        pd = pd * norm_of(z)
    return pd


def world_bkg(spec, d, s):
    from scipy.interpolate import RegularGridInterpolator as RGI
    x = _x_sel(spec, d)
    if spec['fields'] != 'none':
        x = np.mod(x + 0.5 * src_ra(s, 0), 1.0)       # the event-level static data field 'xs'
    pd = RGI((EDGES,), bkg_grid(), method='linear', bounds_error=False, fill_value=0)(x[:, None])
    if spec.get('norm'):
        pd = pd * norm_of(x)
    return pd


def well_formed(spec, d, s):
    """hypothesis `WellFormed` of c06_no_truncation, checked on the leaf tables the model is given: every signal block of a
    trial is as long as the trial's background array (a violation is a fixture bug: MachineryError)"""
    key = (tuple(sorted((k, str(v)) for k, v in spec.items() if k in ('K', 'fields', 'scale', 'norm', 'evsel'))), d, s)
    if key in _WF:
        return
    from harness.core import MachineryError
    n = len(world_bkg(spec, d, s))
    g = float(grid_values(spec)[3])
    want = [n if sel_positions(spec, d, k) is None else len(sel_positions(spec, d, k)) for k in range(spec['K'])]
    if any(len(world_man(spec, d, s, k, g)) != want[k] for k in range(spec['K'])) or any(
            p >= n for k in range(spec['K']) for p in (sel_positions(spec, d, k) or [])):
        raise MachineryError('C06 fixture: leaf tables are not well-formed for %r' % (key,))
    _WF.add(key)


_WF = set()


# ---- the real object graph ----------------------------------------------------------------------

class Graph(object):
    pass


def _counting_rgi_cls():
    from scipy.interpolate import RegularGridInterpolator

    class CountingRGI(RegularGridInterpolator):
        n_calls = 0

        def __call__(self, *a, **kw):
            self.n_calls += 1
            return super().__call__(*a, **kw)
    return CountingRGI


STUB_TABLE = 0.6 + 0.35 * np.arange(3 * 9, dtype=np.float64).reshape(3, 9) % 1.7   # ratio of the parameter-free factor


def yields(spec):
    """detector signal yield table (1 dataset, K sources); spec['dY']: the yield depends on the source's gamma, so the
    source weights a_k have gradients and SourceWeightedPDFRatio.get_gradient reads its cached R_i / R_ik"""
    K = spec['K']
    J = spec.get('J', 1)
    rows = [[1.0 + 0.25 * k for k in range(K)], [0.45 + 0.3 * k for k in range(K)]][:J]   # different per dataset: f_j != 1/J
    if not spec.get('dY'):
        return np.array(rows), None
    b = base(spec)

    def Y(params):
        g = np.asarray(params['gamma'], dtype=np.float64)
        return np.array([[rows[j][k] + 0.1 * (j + 1) * (g[k] - b) for k in range(K)] for j in range(J)])
    return Y, {'gamma': lambda params: np.array([[0.1 * (j + 1)] * K for j in range(J)])}


def build(spec, d, s, cascade=True):
    """cascade=False: the object graph as constructed, *before* the first initialize_for_new_trial.
    Fresh object graph, trial initialised with data set d for source set s.
    spec['graph'] == 'i3': the PDFRatioProduct graph around the real SplinedI3EnergySigSetOverBkgPDFRatio (build_i3).
    spec['product'] in (None, 'first', 'second'): the interpolating ratio is multiplied (PDFRatioProduct) with a
    parameter-free ratio that hands out its stored array itself, as first / second factor."""
    if spec.get('graph') == 'i3':
        return build_i3(spec, d, s)
    well_formed(spec, d, s)
    from skyllh.core.backgroundpdf import BackgroundMultiDimGridPDF
    from skyllh.core.binning import BinningDefinition
    from skyllh.core.interpolate import (Linear1DGridManifoldInterpolationMethod,
                                         Parabola1DGridManifoldInterpolationMethod)
    from skyllh.core.parameters import Parameter, ParameterGrid
    from skyllh.core.pdfratio import SigOverBkgPDFRatio, SourceWeightedPDFRatio
    from skyllh.core.signalpdf import SignalMultiDimGridPDF, SignalMultiDimGridPDFSet
    from skyllh.core.trialdata import TrialDataManager

    G = Graph()
    G.kind = 'grid'
    G.spec = spec
    K = spec['K']
    cfg = fx.make_cfg()
    G.cfg = cfg
    sources = make_source_list(spec, s)
    shg_mgr = fx.make_shg_mgr(cfg, sources)
    b = base(spec)
    gv = grid_values(spec)
    G.sources = sources
    G.split = bool(spec.get('split')) and K > 1
    if not G.split:
        pmm = fx.make_pmm(sources, params=[Parameter('gamma', b + 1.0, float(gv[1]), float(gv[-2]))],
                          ns_init=2.0, ns_max=30.0, ns_min=0.0)
    else:
        params = [Parameter('gamma%d' % k, b + 1.0, float(gv[1]), float(gv[-2])) for k in range(K)]
        pmm = fx.make_pmm(sources, params=[(params[k], [sources[k]], ['gamma']) for k in range(K)],
                          ns_init=2.0, ns_max=30.0, ns_min=0.0)
    G.pmm = pmm
    G.shg_mgr = shg_mgr

    tdm = TrialDataManager()
    f = spec['fields']
    if f in ('static', 'all'):
        def calc_z(tdm, shg_mgr, pmm):
            (src_idxs, evt_idxs) = tdm.src_evt_idxs
            ra = np.array([src.ra for src in shg_mgr.source_list])
            x = tdm.get_data('xpre' if f == 'all' else 'x')
            return np.mod(np.take(x, evt_idxs) + np.take(ra, src_idxs), 1.0)
        tdm.add_data_field('z', calc_z, is_srcevt_data=True)

        # an event-level static data field (stored in the events array itself) that depends on the source; it is the
        # axis of the background PDF
        def calc_xs(tdm, shg_mgr, pmm):
            x = tdm.get_data('xpre' if f == 'all' else 'x')
            return np.mod(x + 0.5 * shg_mgr.source_list[0].ra, 1.0)
        tdm.add_data_field('xs', calc_xs)
    if f == 'all':
        def calc_soff(tdm, shg_mgr, pmm):
            return np.array([src.ra for src in shg_mgr.source_list])
        tdm.add_source_data_field('soff', calc_soff)

        def calc_xpre(tdm, shg_mgr, pmm):
            return np.array(tdm.get_data('x'), dtype=np.float64)
        tdm.add_data_field('xpre', calc_xpre, pre_evt_sel=True)
    G.tdm = tdm

    if f == 'none':
        sig_axes = [BinningDefinition('x', EDGES)]
    elif f == 'static':
        sig_axes = [BinningDefinition('z', EDGES)]
    else:
        sig_axes = [BinningDefinition('z', EDGES), BinningDefinition('soff', SOFF_EDGES)]
    CRGI = _counting_rgi_cls()
    grid = ParameterGrid('gamma', gv, delta=DELTA, decimals=1)
    G.grid = grid
    pdfs = []
    G.sig_pdfs = {}
    nff = norm_factor_func if spec.get('norm') else None
    for g in gv:
        pdf = SignalMultiDimGridPDF(pmm=pmm, axis_binnings=sig_axes, pdf_grid_data=sig_grid(spec, g),
                                    cache_pd_values=spec['cache'], norm_factor_func=nff, cfg=cfg)
        pdf._pdf = CRGI(tuple(bd.binedges for bd in sig_axes), sig_grid(spec, g), method='linear',
                        bounds_error=False, fill_value=0)
        pdfs.append(({'gamma': float(g)}, pdf))
        G.sig_pdfs[float(g)] = pdf
    icls = Linear1DGridManifoldInterpolationMethod if spec['interp'] == 'linear' \
        else Parabola1DGridManifoldInterpolationMethod
    from skyllh.core.parameters import ParameterSet
    sigset = SignalMultiDimGridPDFSet(pmm=pmm, param_set=ParameterSet([Parameter('gamma', b + 1.0, float(gv[0]), float(gv[-1]))]),
                                      param_grid_set=grid, gridparams_pdfs=pdfs, interpol_method_cls=icls, cfg=cfg)
    G.sigset = sigset
    bkg = BackgroundMultiDimGridPDF(pmm=pmm, axis_binnings=[BinningDefinition('x' if f == 'none' else 'xs', EDGES)],
                                    pdf_grid_data=bkg_grid(), cache_pd_values=spec.get('cache_bkg', spec['cache']),
                                    norm_factor_func=nff, cfg=cfg)
    bkg._pdf = CRGI((EDGES,), bkg_grid(), method='linear', bounds_error=False, fill_value=0)
    G.bkg = bkg
    inner = SigOverBkgPDFRatio(sig_pdf=sigset, bkg_pdf=bkg, same_axes=False, cfg=cfg)
    G.inner = inner
    # manifold-function call counter (interpolation cache hit <=> no call)
    im = sigset._interpol_method
    G.n_manifold_calls = 0
    orig_func = im.func

    def counting_func(*a, **kw):
        G.n_manifold_calls += 1
        return orig_func(*a, **kw)
    im.func = counting_func
    # recorders on the inner PDF ratio
    G.rec = {'ratio': None, 'grad': {}}
    orig_ratio, orig_grad = inner.get_ratio, inner.get_gradient

    def rec_ratio(*a, **kw):
        r = orig_ratio(*a, **kw)
        G.rec['ratio'] = np.array(r, dtype=np.float64)
        return r

    def rec_grad(*a, **kw):
        r = orig_grad(*a, **kw)
        fid = kw.get('fitparam_id', a[2] if len(a) > 2 else None)
        G.rec['grad'][int(fid)] = np.array(r, dtype=np.float64) if isinstance(r, np.ndarray) else r
        return r
    inner.get_ratio = rec_ratio
    inner.get_gradient = rec_grad

    (Y, dY) = yields(spec)
    (dsy, sdw, dswf) = fx.make_weight_services(shg_mgr, Y, dY=dY, src_factor=src_factor)
    G.services = (dsy, sdw, dswf)
    G.stub = None
    factor = inner
    if spec.get('product'):
        G.stub = fx.StubPDFRatio(cfg, STUB_TABLE[:K], share=True)
        factor = inner * G.stub if spec['product'] == 'first' else G.stub * inner
    outer = SourceWeightedPDFRatio(dataset_idx=0, src_detsigyield_weights_service=sdw, pdfratio=factor, cfg=cfg)
    G.outer = outer
    G.events = {}
    G.d = d
    G.s = s
    G.events = events_of(G, d)
    tdm.initialize_trial(shg_mgr=shg_mgr, pmm=pmm, events=G.events, n_events=N_OF[d], evt_sel_method=evsel_of(G))
    single = fx.make_single_llhratio(cfg, pmm, shg_mgr, tdm, outer)
    G.single = single
    llhs = [single] + second_dataset(G, spec, sdw)
    multi = fx.make_multi_llhratio(cfg, pmm, sdw, dswf, llhs)
    G.multi = multi
    if cascade:
        multi.initialize_for_new_trial()
    return G


E2 = {0: 5, 1: 5, 2: 7, 3: 2, 4: 0}         # selected events of the second dataset per data set id
N2 = {0: 30, 1: 30, 2: 44, 3: 9, 4: 3}
STUB2_TABLE = 0.4 + 0.45 * np.arange(3 * 7, dtype=np.float64).reshape(3, 7) % 2.1


def second_dataset(G, spec, sdw):
    """spec['J'] == 2: a second dataset (own TrialDataManager, parameter-free sharing stub ratio, SourceWeightedPDFRatio
    with dataset_idx=1, own ZeroSigH0SingleDatasetTCLLHRatio), so that the dataset signal weight factors f_j of the
    composite likelihood are non-trivial"""
    from skyllh.core.pdfratio import SourceWeightedPDFRatio
    from skyllh.core.trialdata import TrialDataManager
    G.tdm2 = None
    if spec.get('J', 1) != 2:
        return []
    K = spec['K']
    G.tdm2 = TrialDataManager()
    G.events2 = fx.make_events(E2[G.d])
    G.tdm2.initialize_trial(shg_mgr=G.shg_mgr, pmm=G.pmm, events=G.events2, n_events=N2[G.d])
    G.stub2 = fx.StubPDFRatio(G.cfg, STUB2_TABLE[:K], share=True)
    G.outer2 = SourceWeightedPDFRatio(dataset_idx=1, src_detsigyield_weights_service=sdw, pdfratio=G.stub2, cfg=G.cfg)
    G.single2 = fx.make_single_llhratio(G.cfg, G.pmm, G.shg_mgr, G.tdm2, G.outer2)
    return [G.single2]


def _init2(G, new):
    if getattr(G, 'tdm2', None) is None:
        return
    if new or len(G.events2) != E2[G.d]:
        G.events2 = fx.make_events(E2[G.d])
    G.tdm2.initialize_trial(shg_mgr=G.shg_mgr, pmm=G.pmm, events=G.events2, n_events=N2[G.d])


def evsel_of(G):
    """the event selection method of the trial about to be initialised (llh_fixtures.StubEventSelection on the current
    SourceHypoGroupManager), or None"""
    if G.kind == 'i3':
        return None
    m = sel_mask(G.spec, G.d)
    return None if m is None else fx.StubEventSelection(G.shg_mgr, m)


def events_of(G, d):
    """a new DataFieldRecordArray per call (as a new pseudo-data trial delivers)"""
    if G.kind == 'i3':
        return fx.make_events(len(I3_DATA[d]['log_energy']), **{k: v.copy() for k, v in I3_DATA[d].items()})
    return fx.make_events(len(DATA[d]), x=DATA[d].copy())


def op_init(G, d):
    """new trial on a newly created events array"""
    G.d = d
    G.events = events_of(G, d)
    G.tdm.initialize_trial(shg_mgr=G.shg_mgr, pmm=G.pmm, events=G.events, n_events=N_OF[G.d], evt_sel_method=evsel_of(G))
    _init2(G, True)
    G.multi.initialize_for_new_trial()


def op_tdm_init(G, d):
    """TrialDataManager.initialize_trial alone (new events array) — without the initialize_for_new_trial cascade"""
    G.d = d
    G.events = events_of(G, d)
    G.tdm.initialize_trial(shg_mgr=G.shg_mgr, pmm=G.pmm, events=G.events, n_events=N_OF[G.d], evt_sel_method=evsel_of(G))
    _init2(G, True)


def op_llh_init(G):
    """LLHRatio.initialize_for_new_trial alone: the cascade down to the PDF sets"""
    G.multi.initialize_for_new_trial()


def op_change_shg(G, s):
    """change_shg_mgr alone (new SourceHypoGroupManager with new source objects), no new trial"""
    G.s = s
    G.sources = make_source_list(dict(K=len(G.sources)), s)
    G.shg_mgr = fx.make_shg_mgr(G.cfg, G.sources)
    if G.services is not None:
        G.services[0].change_shg_mgr(G.shg_mgr)
    G.multi.change_shg_mgr(G.shg_mgr)


def ak_of(spec, s, xs):
    """a_k of the first dataset, computed without skyllh: source weight x detector signal yield"""
    return [float(v) for v in _ajk(spec, s, xs)[0]]


def src_factor(src_recarray):
    """the detector signal yield depends on the source position (as a real detector's does)"""
    return 1.0 + 0.4 * np.asarray(src_recarray['ra'], dtype=np.float64)


def _ajk(spec, s, xs):
    K = spec['K']
    (Y, dY) = yields(spec)
    if callable(Y):
        g = np.array(xs if len(xs) == K else [xs[0]] * K, dtype=np.float64)
        Y = Y({'gamma': g})
    return np.array([[(1.0 + 0.5 * k) * (Y[j][k] * (1.0 + 0.4 * src_ra(s, k))) for k in range(K)] for j in range(len(Y))])


def fj_of(spec, s, xs):
    """dataset signal weight factors f_j, computed without skyllh"""
    a = _ajk(spec, s, xs)
    return [float(v) for v in a.sum(axis=1) / a.sum()]


def other_ri(spec, d, s, xs):
    """R_i of the second dataset (source-weighted stub ratio), computed without skyllh"""
    a2 = _ajk(spec, s, xs)[1]
    tab = STUB2_TABLE[:spec['K'], :E2[d]]
    return [float(v) for v in (tab * a2[:, None]).sum(axis=0) / a2.sum()]


def one_plus_alpha():
    from skyllh.core.llhratio import ZeroSigH0SingleDatasetTCLLHRatio
    return float(ZeroSigH0SingleDatasetTCLLHRatio._one_plus_alpha)


def op_reinit_same(G):
    """new trial on the *same* events array instance (it carries the data fields the previous trial stored in it)"""
    G.tdm.initialize_trial(shg_mgr=G.shg_mgr, pmm=G.pmm, events=G.events, n_events=N_OF[G.d], evt_sel_method=evsel_of(G))
    _init2(G, False)
    G.multi.initialize_for_new_trial()


def op_mutate_events(G, d):
    """the same events array instance, edited in place to hold data set d (new instance if the size differs)"""
    src = I3_DATA[d] if G.kind == 'i3' else {'x': DATA[d]}
    if len(G.events) != len(next(iter(src.values()))):
        return op_init(G, d)
    G.d = d
    for name, v in src.items():
        G.events[name] = v.copy()
    op_reinit_same(G)


def op_change_source(G, s, how='new', events='new'):
    """Analysis.change_shg_mgr as far as this graph is concerned, followed (as its documentation demands) by a new trial
    on the same data.  how: 'mutate'  same manager instance, the source objects get new positions in place;
                            'replace' same manager instance, its sources are replaced by new source objects
                                      (what Analysis.change_source does);
                            'new'     a newly created SourceHypoGroupManager with new source objects.
    events: 'new' a fresh copy of the events, 'same' the same events array instance again."""
    G.s = s
    if how == 'mutate':
        for k, src in enumerate(G.sources):
            src.ra = src_ra(s, k)
            src.dec = src_dec(s, k)
    else:
        G.sources = make_source_list(dict(K=len(G.sources)), s)
        if how == 'replace':
            for k, src in enumerate(G.sources):
                G.shg_mgr.shg_list[0].source_list[k] = src
        else:
            G.shg_mgr = fx.make_shg_mgr(G.cfg, G.sources)
    if G.services is not None:
        G.services[0].change_shg_mgr(G.shg_mgr)
    G.multi.change_shg_mgr(G.shg_mgr)
    if events == 'same':
        op_reinit_same(G)
    else:
        op_init(G, G.d)


def fitparams(G, ns, xs):
    if not G.split:
        return fx.fitparam_values(G.pmm, ns, gamma=xs[0])
    return fx.fitparam_values(G.pmm, ns, **{'gamma%d' % k: xs[k] for k in range(G.spec['K'])})


def reset_counters(G):
    if G.kind == 'i3':
        return
    G.n_manifold_calls = 0
    for pdf in G.sig_pdfs.values():
        pdf._pdf.n_calls = 0
    G.bkg._pdf.n_calls = 0
    G.rec['ratio'] = None
    G.rec['grad'] = {}


def op_evaluate(G, ns, xs):
    """returns dict(llh, grads, ratio blocks, grad blocks, interp_hit, pd_miss, bkg_miss)"""
    reset_counters(G)
    fp = fitparams(G, ns, xs)
    if G.spec.get('reuse_fp'):
        # the caller's fit parameter array is one instance that is overwritten for every evaluation (as minimizers do)
        if getattr(G, 'fp', None) is None:
            G.fp = fp
        else:
            G.fp[:] = fp
        fp = G.fp
    # argument forms of the caller: memory layout / writability of the array handed in, explicit src_params_recarray
    form = G.spec.get('fp_form')
    kw = {}
    if form == 'strided':
        buf = np.full((2 * len(fp),), np.nan)
        buf[::2] = fp
        fp = buf[::2]                      # a non-contiguous view
    elif form == 'readonly':
        fp = np.array(fp)
        fp.setflags(write=False)           # writing into the caller's array would raise
    elif form == 'recarray':
        kw['src_params_recarray'] = G.pmm.create_src_params_recarray(gflp_values=fp)
    (llh, grads) = G.multi.evaluate(fp, **kw)
    (llh, grads_ret) = (float(llh), grads)
    grads = np.array(grads, dtype=np.float64)
    if G.spec.get('scribble') and isinstance(grads_ret, np.ndarray) and grads_ret.flags.writeable:
        grads_ret[...] = np.nan            # the caller overwrites the array it was handed out: must not be a live view
    if G.kind == 'i3':
        return dict(llh=float(llh), grads=[float(v) for v in grads], ratio=[], grad=[], other_zero=True,
                    interp_hit=None, pd_miss=None, bkg_miss=None)
    K = G.spec['K']
    src_idxs = np.asarray(G.tdm.src_evt_idxs[0])
    ratio = G.rec['ratio']
    names = [p.name for p in G.pmm.global_paramset.floating_params]
    rb, gb, other_zero = [], [], True
    for k in range(K):
        blk = src_idxs == k                 # the values of source k (with an event selection the blocks are unequal)
        rb.append(ratio[blk].tolist())
        fid = names.index('gamma%d' % k if G.split else 'gamma')
        g = G.rec['grad'].get(fid)
        g = np.zeros(len(src_idxs)) if not isinstance(g, np.ndarray) else g
        gb.append(g[blk].tolist())
        if G.split:
            other_zero = other_zero and bool(np.all(g[~blk] == 0))
    return dict(llh=float(llh), grads=[float(v) for v in grads], ratio=rb, grad=gb, other_zero=other_zero,
                interp_hit=(G.n_manifold_calls == 0),
                pd_miss=sum(p._pdf.n_calls for p in G.sig_pdfs.values()),
                bkg_miss=G.bkg._pdf.n_calls > 0)


def op_grad2(G, ns):
    """ZeroSigH0SingleDatasetTCLLHRatio.calculate_ns_grad2 (the holder of `_cache_nsgrad_i`) without a preceding
    evaluate; 'ERR' for the documented RuntimeError (evaluate has to be called first)"""
    try:
        return float(G.single.calculate_ns_grad2(ns=ns))
    except RuntimeError:
        return 'ERR'


def op_grad2_multi(G, ns):
    """MultiDatasetTCLLHRatio.calculate_ns_grad2 right after an evaluate (it reads the dataset signal weight factors
    of the weights service and the per-dataset cached ns-gradients)"""
    ns_pidx = G.pmm.get_gflp_idx('ns')
    return float(G.multi.calculate_ns_grad2(ns=ns, ns_pidx=ns_pidx, src_params_recarray=None))


def op_maximize(G, seed=1):
    from skyllh.core.random import RandomStateService
    from skyllh.core.test_statistic import WilksTestStatistic
    (llh, fp, status) = G.multi.maximize(RandomStateService(seed))
    ts = WilksTestStatistic()(pmm=G.pmm, log_lambda=llh, fitparam_values=fp)
    return dict(llh=float(llh), fitparams=[float(v) for v in fp], ts=float(ts))


def keys_of(G, xs):
    """grid key per source as the real ParameterGrid computes it, and the neighbours"""
    x = np.array(xs, dtype=np.float64)
    if G.spec['interp'] == 'linear':
        key = G.grid.round_to_lower_grid_point(x)
    else:
        key = G.grid.round_to_nearest_grid_point(x)
    return [float(v) for v in key]


# ---- TrialDataManager with a data field that depends on a global fit parameter -----------------------
# (LLHRatio.evaluate cannot drive such fields at the pinned commit — it calls a ParameterModelMapper method that
#  does not exist — so the field cache is exercised through the TrialDataManager API itself)

def field_value(d, s, gamma, ns=1.0):
    return DATA[d] * gamma + 0.01 * ns + src_ra(s, 0)


def build_field(d, s):
    from skyllh.core.parameters import Parameter
    from skyllh.core.trialdata import TrialDataManager
    T = Graph()
    T.cfg = fx.make_cfg()
    T.sources = make_source_list(dict(K=1), s)
    T.shg_mgr = fx.make_shg_mgr(T.cfg, T.sources)
    T.pmm = fx.make_pmm(T.sources, params=[Parameter('gamma', 2.0, 1.0, 4.0)])
    T.n_func_calls = 0

    def calc_gf(tdm, shg_mgr, pmm, global_fitparams_dict):
        T.n_func_calls += 1
        return tdm.get_data('x') * global_fitparams_dict['gamma'] + 0.01 * global_fitparams_dict['ns'] \
            + shg_mgr.source_list[0].ra
    T.tdm = TrialDataManager()
    # the field depends on TWO global fit parameters: its cache key is the pair of their values
    T.tdm.add_data_field('gf', calc_gf, global_fitparam_names=['gamma', 'ns'])
    field_init_new(T, d)
    return T


def field_init_new(T, d):
    T.d = d
    T.events = fx.make_events(len(DATA[d]), x=DATA[d].copy())
    T.tdm.initialize_trial(shg_mgr=T.shg_mgr, pmm=T.pmm, events=T.events)


def field_init_same(T):
    T.tdm.initialize_trial(shg_mgr=T.shg_mgr, pmm=T.pmm, events=T.events)


def field_change_source(T, s):
    T.sources[0].ra = src_ra(s, 0)
    T.shg_mgr = fx.make_shg_mgr(T.cfg, T.sources)
    T.tdm.change_shg_mgr(T.shg_mgr, T.pmm)
    field_init_same(T)


def field_calc(T, gamma, ns=1.0):
    """returns (field values, was the field function called)"""
    n = T.n_func_calls
    T.tdm.calculate_global_fitparam_data_fields(T.shg_mgr, T.pmm, {'gamma': float(gamma), 'ns': float(ns)})
    return [float(v) for v in T.tdm.get_data('gf')], T.n_func_calls > n


# ---- PDFRatioProduct around the real splined I3 energy PDF ratio ---------------------------------------
# SplinedI3EnergySigSetOverBkgPDFRatio keeps (state id, interpolation parameters, ratio, grads) and hands out the
# cached ratio array and a *view into* the cached gradient array.  The other factor is a parameter-free ratio that
# hands out its stored per-trial array itself (llh_fixtures.StubPDFRatio(share=True)).  spec = dict(graph='i3', K=1|2
# (K=2: one global gamma parameter per source), order='first'|'second' (position of the energy ratio in the product),
# interp='linear'|'parabola')

def _i3_events(seed, n):
    rng = np.random.RandomState(seed)
    sin_dec = rng.uniform(-0.9, 0.9, n)
    return dict(log_energy=rng.uniform(1.2, 6.8, n), sin_dec=sin_dec, dec=np.arcsin(sin_dec))


I3_DATA = {0: _i3_events(100, 6), 1: _i3_events(101, 6), 2: _i3_events(102, 9), 3: _i3_events(103, 1), 4: _i3_events(104, 0)}


_I3_TEMPLATES = {}


def build_i3(spec, d, s):
    from skyllh.core.binning import BinningDefinition
    from skyllh.core.flux_model import PowerLawEnergyFluxProfile, SteadyPointlikeFFM
    from skyllh.core.interpolate import (Linear1DGridManifoldInterpolationMethod,
                                         Parabola1DGridManifoldInterpolationMethod)
    from skyllh.core.parameters import Parameter
    from skyllh.core.storage import DataFieldRecordArray
    from skyllh.core.trialdata import TrialDataManager
    from skyllh.i3.backgroundpdf import DataBackgroundI3EnergyPDF
    from skyllh.i3.pdfratio import SplinedI3EnergySigSetOverBkgPDFRatio
    from skyllh.i3.signalpdf import SignalI3EnergyPDFSet
    from skyllh.core.pdfratio import SourceWeightedPDFRatio
    G = Graph()
    G.kind = 'i3'
    G.spec = spec
    K = spec['K']
    G.split = K > 1
    cfg = fx.make_cfg()
    G.cfg = cfg
    G.sources = make_source_list(dict(K=K), s)
    G.shg_mgr = fx.make_shg_mgr(cfg, G.sources)
    gam = Parameter('gamma', 2.0, 1.0, 4.0)
    if not G.split:
        G.pmm = fx.make_pmm(G.sources, params=[gam], ns_init=2.0, ns_max=30.0, ns_min=0.0)
    else:
        G.pmm = fx.make_pmm(G.sources, params=[(Parameter('gamma%d' % k, 2.0, 1.0, 4.0), [G.sources[k]], ['gamma'])
                                               for k in range(K)], ns_init=2.0, ns_max=30.0, ns_min=0.0)
    # the spline construction (33 histogrammed energy PDFs, 31 splines) is the expensive part: a pristine template per
    # interpolation method is built once, never evaluated, and every object graph gets its own deep copy of it
    key = spec['interp']
    if key not in _I3_TEMPLATES:
        rng = np.random.RandomState(7)
        n = 3000
        lte = rng.uniform(1.5, 7.0, n)
        mc = DataFieldRecordArray({'true_energy': 10 ** lte,
                                   'log_energy': np.clip(lte - 0.3 + rng.normal(0, 0.4, n), 1.05, 6.95),
                                   'sin_dec': rng.uniform(-1, 1, n), 'mcweight': 10 ** lte * rng.uniform(0.5, 1.5, n)}, copy=True)
        ne = 600
        exp = DataFieldRecordArray({'log_energy': np.clip(rng.normal(3.2, 0.9, ne), 1.05, 6.95),
                                    'sin_dec': rng.uniform(-1, 1, ne)}, copy=True)
        sb = BinningDefinition('sin_dec', np.linspace(-1, 1, 5))
        eb = BinningDefinition('log_energy', np.linspace(1, 7, 7))
        tcfg = fx.make_cfg()
        flux = SteadyPointlikeFFM(Phi0=1, energy_profile=PowerLawEnergyFluxProfile(E0=1e3, gamma=2, cfg=tcfg), cfg=tcfg)
        sigset = SignalI3EnergyPDFSet(cfg=tcfg, data_mc=mc, log10_energy_binning=eb, sin_dec_binning=sb, fluxmodel=flux,
                                      param_grid_set=gam.as_linear_grid(delta=0.1), ncpu=1)
        bkg = DataBackgroundI3EnergyPDF(cfg=tcfg, data_exp=exp, log10_energy_binning=eb, sin_dec_binning=sb)
        icls = Linear1DGridManifoldInterpolationMethod if spec['interp'] == 'linear' \
            else Parabola1DGridManifoldInterpolationMethod
        _I3_TEMPLATES[key] = SplinedI3EnergySigSetOverBkgPDFRatio(cfg=tcfg, sig_pdf_set=sigset, bkg_pdf=bkg,
                                                                  interpolmethod_cls=icls, ncpu=1)
    import copy
    G.energy = copy.deepcopy(_I3_TEMPLATES[key])
    G.stub = fx.StubPDFRatio(cfg, STUB_TABLE[:K], share=True)
    G.product = G.energy * G.stub if spec['order'] == 'first' else G.stub * G.energy
    (Y, dY) = yields(dict(spec, scale='small'))
    G.services = fx.make_weight_services(G.shg_mgr, Y, dY=dY, src_factor=src_factor)
    G.outer = SourceWeightedPDFRatio(dataset_idx=0, src_detsigyield_weights_service=G.services[1], pdfratio=G.product, cfg=cfg)
    G.tdm = TrialDataManager()
    G.d = d
    G.s = s
    G.events = events_of(G, d)
    G.tdm.initialize_trial(shg_mgr=G.shg_mgr, pmm=G.pmm, events=G.events, n_events=N_OF[G.d], evt_sel_method=evsel_of(G))
    G.single = fx.make_single_llhratio(cfg, G.pmm, G.shg_mgr, G.tdm, G.outer)
    G.multi = fx.make_multi_llhratio(cfg, G.pmm, G.services[1], G.services[2], [G.single])
    G.multi.initialize_for_new_trial()
    return G


# ---- byte snapshots ------------------------------------------------------------------------------------

def _b(x):
    if isinstance(x, np.ndarray):
        return np.ascontiguousarray(x).tobytes()
    if isinstance(x, dict):
        return b'|'.join(bytes(str(k), 'ascii') + b'=' + _b(v) for k, v in sorted(x.items()))
    return repr(x).encode()


MISSING = set()      # private attributes a snapshot wanted to read but did not find (reported as a note, never an alarm)


def _get(obj, *names):
    """obj.a.b… by private names; a missing link is recorded and yields None (a renamed private attribute must neither
    raise nor silently disable the whole oracle)"""
    for n in names:
        if isinstance(obj, dict):
            if n not in obj:
                MISSING.add('[%r]' % n)
                return None
            obj = obj[n]
        elif not hasattr(obj, n):
            MISSING.add('%s.%s' % (type(obj).__name__, n))
            return None
        else:
            obj = getattr(obj, n)
    return obj


def _as_items(c):
    """(key, value) pairs of a private cache container whatever its type (dict, namedtuple, record object with __dict__ or
    __slots__, list/tuple); an unknown shape is recorded as missing (privately observable only -> skipped, counted), never an error"""
    if c is None:
        return []
    if isinstance(c, dict):
        return list(c.items())
    if hasattr(c, '_asdict'):
        try:
            return list(c._asdict().items())
        except Exception:  # noqa
            pass
    if isinstance(c, (list, tuple)):
        return list(enumerate(c))
    if hasattr(c, '__dict__') and vars(c):
        return list(vars(c).items())
    slots = getattr(type(c), '__slots__', None)
    if slots:
        return [(n, getattr(c, n)) for n in slots if hasattr(c, n)]
    MISSING.add('%s as cache container' % type(c).__name__)
    return []


def const_snapshot(G):
    """everything that is input to the evaluation and must never be written: spline / grid tables, stub tables"""
    snap = {}
    if G.kind == 'i3':
        for h, spl in (_get(G.energy, '_gridparams_hash_log_ratio_spline_dict') or {}).items():
            snap['spline:%d' % h] = _b(np.asarray(spl.values))
    else:
        for g, pdf in G.sig_pdfs.items():
            snap['sig_grid:%r' % g] = _b(np.asarray(_get(pdf, 'pdf', 'values')))
        snap['bkg_grid'] = _b(np.asarray(_get(G.bkg, 'pdf', 'values')))
    if G.stub is not None:
        snap['stub.R'] = _b(np.asarray(G.stub.R, dtype=np.float64))
    return snap


def cache_snapshot(G):
    """the "last evaluation" caches: after evaluate(p) each is a function of (trial data, source, p) alone"""
    snap = {}
    if G.kind == 'i3':
        for k in ('ratio', 'grads', 'interpol_params_recarray'):
            snap['energy._cache.' + k] = _b(_get(G.energy, '_cache', k))
        im = _get(G.energy, '_interpolmethod')
    else:
        im = _get(G.sigset, '_interpol_method')
        for k in ('_cache_sig_pd', '_cache_bkg_pd', '_cache_sig_grads'):
            snap['inner.' + k] = _b(_get(G.inner, k))
    for k in ('_cache_R_i', '_cache_R_ik'):
        snap['outer.' + k] = _b(_get(G.outer, k))
    for k, v in _as_items(_get(im, '_cache')):
        if isinstance(v, np.ndarray):
            snap['interp._cache.' + str(k)] = _b(v)
    if G.stub is not None:
        snap['stub._stored'] = _b(G.stub._stored)
    snap['single._cache_nsgrad_i'] = _b(_get(G.single, '_cache_nsgrad_i'))
    return snap


def service_snapshot(G):
    """what the weight services hand out through their public get_weights(): a read-only query must never change it"""
    snap = {}
    if G.services is None:
        return snap
    for name, svc in (('src_detsigyield_weights', G.services[1]), ('ds_sig_weight_factors', G.services[2])):
        try:
            (w, grads) = svc.get_weights()
        except Exception:  # noqa  (nothing calculated yet)
            continue
        snap[name] = _b(np.asarray(w))
        snap[name + '.grads'] = _b({int(k): np.asarray(v) for k, v in (grads or {}).items()})
    return snap


def pd_cache_snapshot(G):
    """per grid point: the MultiDimGridPDF pd cache valid for the current state id (None otherwise)"""
    out = {}
    if G.kind == 'i3':
        return out
    sid = G.tdm.trial_data_state_id
    for g, pdf in list(G.sig_pdfs.items()) + [('bkg', G.bkg)]:
        cpd = getattr(pdf, '_cache_pd', None)
        if cpd is not None and getattr(pdf, '_cache_tdm_trial_data_state_id', None) == sid:
            out[g] = np.array(cpd)
    return out
