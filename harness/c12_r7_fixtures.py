"""C12 round 7: `polynomial_fit` as a function of the *data* (kind `pfd`).

Until round 6 the coefficients of `np.polyfit` were recorded by the harness and only the inversion was modelled.
`Model/PolyFitR7.lean` now contains the weighted least-squares fit itself (normal equations, exact rationals in the
driver) with numpy's argument checks as `Except`, and `polynomialFitData` = first fit, fall-back decision, second fit,
inversion.  This module builds the driver request, compares

  * the exact least-squares coefficients with what `np.polyfit(x, y, deg, w=w, cov=True)` returns — relation: forward
    error bound of a backward-stable least-squares solver on the column-scaled system (conditioning term kappa, kappa^2 *
    residual; absolute floor), cases whose bound exceeds 1e-3 of the coefficient norm are counted, not compared;
  * (model self-check) the weighted cost of numpy's coefficients, in exact fractions, is never below the cost of the
    model's coefficients (theorem `c12_lsq_minimises`);
  * the value the real `polynomial_fit` returns with the model chain — tolerance: 1e-9 x magnitude of the terms + the
    first-order effect of the coefficient bound on the root; exception *kinds* of the argument checks exact;

and labels the branches of the new model functions.  Also: AST extraction of the `np.polyfit` calls of the current source.
"""
import ast
import math
import os
import warnings
from fractions import Fraction

import numpy as np

from harness.core import f2b, b2f

EPS = 2.3e-16

PFD_BRANCHES = [
    'polyfitR7:degNegative', 'polyfitR7:xEmpty', 'polyfitR7:xyLen', 'polyfitR7:wyLen', 'polyfitR7:singular',
    'polyfitR7:tooFewForCov', 'polyfitR7:degreeNotModelled', 'polyfitR7:ok:deg0', 'polyfitR7:ok:deg1', 'polyfitR7:ok:deg2',
    'polynomialFitData:first-fit-error', 'polynomialFitData:switch:second-fit', 'polynomialFitData:no-switch',
    'polynomialFitData:poly-error',
]
_TAG = {'D': 'degNegative', 'E': 'xEmpty', 'XY': 'xyLen', 'WY': 'wyLen', 'S': 'singular', 'C': 'tooFewForCov',
        'M': 'degreeNotModelled'}
# what numpy raises for each argument check (np.polyfit, numpy/lib/_polynomial_impl.py)
_EXC = {'D': 'ValueError', 'E': 'TypeError', 'XY': 'TypeError', 'WY': 'TypeError', 'C': 'ValueError'}


def _q(vals):
    if not vals:
        return '-'
    return ','.join('%d/%d' % (Fraction(v).numerator, Fraction(v).denominator) for v in vals)


def request(case, _fl, _f):
    return 'pfd %d %s %s %s %s' % (case['deg'], _q(_fl(case['x'])), _q(_fl(case['y'])), _q(_fl(case['w'])),
                                   f2b(_f(case['pthr'])))


def _parse(model):
    res, cd, c1 = [s.strip() for s in model.split(';')]

    def coeffs(s):
        t = s.split(' ')
        if t[0] == 'ok':
            return [Fraction(v) for v in t[1].split(',')]
        return t[1]
    return res.split(' '), coeffs(cd), coeffs(c1)


def impl(case, _fl, _f):
    """the real polynomial_fit on plain lists; exception type names kept"""
    from skyllh.core.utils.analysis import polynomial_fit
    x, y, w = _fl(case['x']), _fl(case['y']), _fl(case['w'])
    try:
        with warnings.catch_warnings():
            warnings.simplefilter('ignore')
            with np.errstate(all='ignore'):
                v = polynomial_fit(list(x), list(y), list(w), int(case['deg']), _f(case['pthr']))
        return ('ok', float(v))
    except Exception as e:  # noqa
        return ('err', type(e).__name__)


def _np_polyfit(x, y, deg, w):
    with warnings.catch_warnings():
        warnings.simplefilter('ignore')
        return [float(c) for c in np.polyfit(x, y, deg, w=w, cov=True)[0]]


def coeff_bound(x, y, w, deg):
    """per-coefficient forward-error bound for a backward-stable solver of min |W(y - V c)| on the column-scaled system;
    returns (bounds, kappa, relative size of the bound) or None when the system is numerically rank deficient"""
    x, y, w = np.asarray(x, float), np.asarray(y, float), np.asarray(w, float)
    A = np.vander(x, deg + 1) * w[:, None]
    b = y * w
    scale = np.sqrt((A * A).sum(axis=0))
    if not np.all(scale > 0) or not np.all(np.isfinite(scale)):
        return None
    As = A / scale
    s = np.linalg.svd(As, compute_uv=False)
    if s[-1] <= len(x) * 2.3e-16 * s[0]:
        return None
    kappa = float(s[0] / s[-1])
    cs, res, _, _ = np.linalg.lstsq(As, b, rcond=None)
    rho = float(np.linalg.norm(b - As @ cs))
    ncs = float(np.linalg.norm(cs))
    bnd = 400 * EPS * (kappa * ncs + kappa * kappa * rho / s[0] + kappa * float(np.linalg.norm(b)) / s[0])
    return [bnd / float(sc) + 1e-300 for sc in scale], kappa, (bnd / ncs if ncs > 0 else float('inf'))


def _cost(c, x, y, w):
    tot = Fraction(0)
    for xi, yi, wi in zip(x, y, w):
        xi, yi, wi = Fraction(xi), Fraction(yi), Fraction(wi)
        p = Fraction(0)
        for ck in c:
            p = p * xi + ck
        tot += (wi * (yi - p)) ** 2
    return tot


def _root_shift(c, p, v, dc):
    """first-order movement of the returned root under coefficient changes of size dc"""
    if len(c) == 2:
        a = c[0]
        return (dc[1] + abs(v) * dc[0]) / abs(a) if a != 0 else float('inf')
    a, b, cc = c
    slope = abs(2 * a * v + b)
    return (v * v * dc[0] + abs(v) * dc[1] + dc[2]) / slope if slope > 0 else float('inf')


def branches(case, model):
    res, cd, c1 = _parse(model)
    out = []
    deg = case['deg']
    if isinstance(cd, str):
        out.append('polyfitR7:' + _TAG[cd])
        out.append('polynomialFitData:first-fit-error')
        return out
    out.append('polyfitR7:ok:deg%d' % deg)
    if res[0] == 'ok' and int(res[2]) == 1 and deg == 2:
        out.append('polynomialFitData:switch:second-fit')
        out.append('polyfitR7:ok:deg1')
    elif res[0] == 'err' and res[1] in ('V', 'N', 'I'):
        out.append('polynomialFitData:poly-error')
    else:
        out.append('polynomialFitData:no-switch')
    return out


def compare(ctx, case, model, _fl, _f):
    """None, or the text of the disagreement"""
    res, cd, c1 = _parse(model)
    x, y, w = _fl(case['x']), _fl(case['y']), _fl(case['w'])
    deg, p = case['deg'], _f(case['pthr'])
    r = impl(case, _fl, _f)
    # ---- argument checks / rank deficiency
    if isinstance(cd, str):
        if cd == 'S':
            ctx.count('pfd:rank-deficient(model)-implementation-%s' % ('raises' if r[0] == 'err' else 'returns-a-number'))
            return None       # numerically singular: whatever LAPACK makes of it (assumption in the evidence)
        if cd == 'M':
            return None if r[0] == 'err' else 'pfd: degree %d: implementation returned %r, documented ValueError' % (deg, r)
        want = _EXC[cd]
        if r != ('err', want):
            return 'pfd: implementation %r, model: np.polyfit raises %s (%s)' % (r, want, _TAG[cd])
        return None
    # ---- coefficients: exact least squares vs np.polyfit
    cn = _np_polyfit(x, y, deg, w)
    cb = coeff_bound(x, y, w, deg)
    if cb is None or cb[2] > 1e-3:
        ctx.count('pfd:ill-conditioned-not-compared')
        return None
    dc, kappa, _ = cb
    ctx.count('pfd:kappa%s' % ('<10' if kappa < 10 else '<1e3' if kappa < 1e3 else '>=1e3'))
    for k, (a, b, t) in enumerate(zip(cn, cd, dc)):
        if not abs(a - float(b)) <= t + 4 * EPS * abs(float(b)):
            return 'pfd-coeff: np.polyfit coefficient %d = %r, exact weighted least squares %r (bound %.3g, kappa %.3g)' % (
                k, a, float(b), t, kappa)
    if _cost([Fraction(c) for c in cn], x, y, w) < _cost(cd, x, y, w):
        from harness.core import MachineryError
        raise MachineryError('C12 pfd: the cost of numpy\'s coefficients is below the model\'s minimum: %r' % (case,))
    # ---- the value
    if res[0] == 'err':
        if res[1] == 'V':
            return None if r == ('err', 'ValueError') else 'pfd: implementation %r, model ValueError (degree)' % (r,)
        if res[1] == 'N':
            lead = cn[0] if deg >= 1 else 0.0
            ok = (r[0] == 'ok' and not math.isfinite(r[1])) or abs(lead) <= dc[0]
            return None if ok else 'pfd: implementation %r, model: vanishing leading coefficient' % (r,)
        if res[1].startswith('P:'):
            tag = res[1][2:]
            if tag == 'S':
                return None
            return None if r[0] == 'err' else 'pfd: implementation %r, model: second np.polyfit raises (%s)' % (r, tag)
        return 'pfd: unexpected model answer %r' % (model,)
    m, du = b2f(int(res[1])), int(res[2])
    cu = cd if du == deg else c1
    cuf = [float(c) for c in cu]
    if du == deg:
        dcu = dc
    else:
        cb1 = coeff_bound(x, y, w, 1)
        if cb1 is None or cb1[2] > 1e-3:
            ctx.count('pfd:ill-conditioned-not-compared')
            return None
        dcu = cb1[0]
    # is the branch decision itself within the coefficient bound?  then either curve is acceptable (not compared)
    if deg == 2:
        a2, b2, c2 = [float(c) for c in cd]
        D = b2 * b2 - 4 * a2 * (c2 - p)
        dD = 2 * abs(b2) * dc[1] + 4 * abs(c2 - p) * dc[0] + 4 * abs(a2) * dc[2] + 8 * EPS * (b2 * b2 + abs(4 * a2 * (c2 - p)))
        if abs(a2) <= dc[0] or abs(D) <= dD:
            ctx.count('pfd:branch-decision-within-rounding-not-compared')
            return None
    if r[0] != 'ok':
        return 'pfd: implementation %r, model %r (degree %d)' % (r, m, du)
    v = r[1]
    if du == 1:
        mag = (abs(p) + abs(cuf[1])) / abs(cuf[0]) if cuf[0] != 0 else float('inf')
    else:
        a, b, c = cuf
        D = b * b - 4 * a * (c - p)
        mag = (abs(b) + math.sqrt(abs(D))) / abs(2 * a) if a != 0 else float('inf')
        mag += math.sqrt(1e-7 * (b * b + abs(4 * a * (c - p)))) / abs(2 * a) if a != 0 else 0.0
    tol = 1e-9 * mag + 4 * _root_shift(cuf, p, m, dcu)
    if not math.isfinite(tol):
        ctx.count('pfd:root-ill-conditioned-not-compared')
        return None
    if math.isfinite(v) != math.isfinite(m) or not (v == m or abs(v - m) <= tol):
        return 'pfd: implementation %r, model (exact least squares + inversion) %r, degree %d used, tolerance %.3g' % (v, m, du, tol)
    return None


# ------------------------------------------------------------------------------------------
# generator of the glue / error classes of np.polyfit as called by polynomial_fit

def gen_error_cases(rng):
    base_x = [0.0, 1.0, 2.5, 3.0, 4.5, 6.0]
    base_y = [0.08, 0.2, 0.42, 0.5, 0.71, 0.88]
    base_w = [12.0, 10.0, 9.0, 9.5, 11.0, 14.0]
    n = rng.randrange(3, 7)
    x, y, w = base_x[:n], [min(0.99, max(0.01, v + rng.gauss(0, 0.01))) for v in base_y[:n]], base_w[:n]
    pthr = rng.choice([0.5, 0.9, 0.3])
    out = []
    out.append({'kind': 'pfd', 'x': x, 'y': y, 'w': w, 'deg': -1, 'pthr': pthr, 'cls': 'deg<0'})
    out.append({'kind': 'pfd', 'x': [], 'y': [], 'w': [], 'deg': rng.choice([1, 2]), 'pthr': pthr, 'cls': 'zero-length'})
    out.append({'kind': 'pfd', 'x': x[:-1], 'y': y, 'w': w, 'deg': rng.choice([1, 2]), 'pthr': pthr, 'cls': 'len(x)!=len(y)'})
    out.append({'kind': 'pfd', 'x': x, 'y': y, 'w': w[:-1], 'deg': rng.choice([1, 2]), 'pthr': pthr, 'cls': 'len(w)!=len(y)'})
    d = rng.choice([1, 2])
    out.append({'kind': 'pfd', 'x': x[:d + 1], 'y': y[:d + 1], 'w': w[:d + 1], 'deg': d, 'pthr': pthr, 'cls': 'n=deg+1'})
    out.append({'kind': 'pfd', 'x': x[:3], 'y': y[:3], 'w': w[:3], 'deg': 1, 'pthr': pthr, 'cls': 'n=deg+2'})
    out.append({'kind': 'pfd', 'x': [x[1]] * n, 'y': y, 'w': w, 'deg': rng.choice([1, 2]), 'pthr': pthr, 'cls': 'all-x-equal'})
    out.append({'kind': 'pfd', 'x': [x[0], x[0], x[1], x[1], x[1]], 'y': y[:3] + y[:2], 'w': w[:3] + w[:2], 'deg': 2, 'pthr': pthr,
                'cls': 'two-distinct-x-for-a-parabola'})
    out.append({'kind': 'pfd', 'x': x, 'y': y, 'w': w, 'deg': 3, 'pthr': pthr, 'cls': 'deg=3'})
    out.append({'kind': 'pfd', 'x': x, 'y': y, 'w': w, 'deg': 0, 'pthr': pthr, 'cls': 'deg=0'})
    # duplicated abscissae / a zero weight are legal
    out.append({'kind': 'pfd', 'x': x + [x[-1]], 'y': y + [y[-1] - 0.02], 'w': w + [w[0]], 'deg': rng.choice([1, 2]), 'pthr': pthr,
                'cls': 'duplicate-x'})
    out.append({'kind': 'pfd', 'x': x + [7.0], 'y': y + [0.1], 'w': w + [0.0], 'deg': rng.choice([1, 2]), 'pthr': pthr,
                'cls': 'zero-weight-point'})
    return out


# ------------------------------------------------------------------------------------------
# extraction: the np.polyfit calls of polynomial_fit in the current source

ANA_UTILS = 'skyllh/core/utils/analysis.py'


NP_POLYFIT_PARAMS = ['x', 'y', 'deg', 'rcond', 'full', 'w', 'cov']     # numpy.polyfit(x, y, deg, rcond=None, full=False, w=None, cov=False)


def extract_polyfit_calls(repo):
    """for every `np.polyfit(...)` inside `polynomial_fit`, in source order: [(numpy parameter, source text of the argument)]
    (positional arguments bound to numpy's parameter names, so `polyfit(ns, p, deg, ...)` and `polyfit(x=ns, y=p, deg=deg, ...)`
    give the same); plus the parameter list of `polynomial_fit`; None when the function is not found"""
    with open(os.path.join(repo, ANA_UTILS)) as fh:
        tree = ast.parse(fh.read())
    for node in tree.body:
        if isinstance(node, ast.FunctionDef) and node.name == 'polynomial_fit':
            params = [a.arg for a in node.args.args]
            calls = []
            for sub in ast.walk(node):
                if (isinstance(sub, ast.Call) and isinstance(sub.func, ast.Attribute) and sub.func.attr == 'polyfit'):
                    if len(sub.args) > len(NP_POLYFIT_PARAMS) or any(isinstance(a, ast.Starred) for a in sub.args) \
                            or any(k.arg is None for k in sub.keywords):
                        return None
                    bound = dict(zip(NP_POLYFIT_PARAMS, [ast.unparse(a) for a in sub.args]))
                    bound.update({k.arg: ast.unparse(k.value) for k in sub.keywords})
                    calls.append((sub.lineno, [(k, bound[k]) for k in NP_POLYFIT_PARAMS if k in bound]))
            calls.sort()
            return params, [c for _, c in calls]
    return None


def lean_polyfit_calls(repo):
    ex = extract_polyfit_calls(repo)
    if ex is None or not ex[1]:
        return None
    params, calls = ex

    def q(t):
        return '"%s"' % t.replace('\\', '\\\\').replace('"', '\\"')
    L = ['/-- parameters of `polynomial_fit` -/',
         'def polynomialFitParams : List String := [%s]' % ', '.join(q(t) for t in params), '',
         '/-- every `np.polyfit(...)` call inside `polynomial_fit`: (numpy parameter the argument binds to, source text) -/',
         'def polyfitCalls : List (List (String × String)) := [',
         '  ' + ',\n  '.join('[%s]' % ', '.join('(%s, %s)' % (q(k), q(v)) for k, v in c) for c in calls) + ']', '']
    return '\n'.join(L)
