"""Round 7 (C06): the one-slot cache of the real SplinedI3EnergySigSetOverBkgPDFRatio driven *directly* through its public
get_ratio / get_gradient (not only through the likelihood), next to the Lean model Model/CacheI3R7.lean.

icase = dict(spec=<i3 spec of cache_fixtures.build_i3>, d0, s0, ops=[...])
  ops: ['I', d] new trial | ['S', s] source change (+ new trial on the same data) |
       ['R', [x per source]] get_ratio | ['G', fid, [x per source]] get_gradient for global fit parameter fid

The leaves of the model (`World.compute d s key`) are what a *freshly built* object graph hands out through the public API
for data set d, source set s at the per-source values `key` (a one-row key is broadcast to all sources); which key a query
belongs to (`_create_interpol_params_recarray`), hit / miss and the gradient assembly are computed by the model."""
import numpy as np

from harness import cache_fixtures as cf
from harness.core import f2b, flist, parse_flist

ATOL_RECORDED = 1e-8
_FRESH = {}


def _hashable(x):
    if isinstance(x, dict):
        return tuple(sorted((k, _hashable(v)) for k, v in x.items()))
    if isinstance(x, (list, tuple)):
        return tuple(_hashable(v) for v in x)
    return x


def _form(G, rec):
    """glue dimension `rec_form` of a case: what the caller does with the src_params_recarray it hands in —
    None: a new record array per call; 'reuse': one instance, overwritten in place for every call (as a minimiser loop would);
    'scribble': a new instance per call that the caller overwrites right after the call (see `_after`)"""
    form = getattr(G, 'rec_form', None)
    if form == 'reuse':
        if getattr(G, 'rec_inst', None) is None or G.rec_inst.dtype != rec.dtype or G.rec_inst.shape != rec.shape:
            G.rec_inst = rec
        else:
            G.rec_inst[...] = rec
        return G.rec_inst
    return rec


def _after(G, rec):
    if getattr(G, 'rec_form', None) == 'scribble':
        for name in rec.dtype.names:
            if rec.dtype[name].kind == 'f':
                rec[name] = np.nan


def _rec(G, xs):
    fp = cf.fitparams(G, 2.0, xs)
    return _form(G, G.pmm.create_src_params_recarray(gflp_values=fp))


def n_fitparams(G):
    return len(G.pmm.global_paramset.floating_params)


def query(G, kind, xs, fid=None):
    """one public call on the ratio object; the result is copied (what is handed out may be the cache array itself)"""
    rec = _rec(G, xs)
    if kind == 'R':
        out = G.energy.get_ratio(tdm=G.tdm, src_params_recarray=rec)
    else:
        out = G.energy.get_gradient(tdm=G.tdm, src_params_recarray=rec, fitparam_id=fid)
    out = [float(v) for v in np.array(out, dtype=np.float64).ravel()]
    _after(G, rec)
    return out


def fresh_eval(spec, d, s, xs):
    """ratio and the gradient w.r.t. every global fit parameter on a newly built object graph (memoised per run: every
    entry stems from its own fresh graph)"""
    key = (_hashable(spec), d, s, tuple(f2b(float(x)) for x in xs))
    if key not in _FRESH:
        G = cf.build_i3(spec, d, s)
        ratio = query(G, 'R', xs)
        grads = {}
        G2 = cf.build_i3(spec, d, s)                # gradients on a second graph (no preceding get_ratio)
        for fid in range(n_fitparams(G)):
            grads[fid] = query(G2, 'G', xs, fid)
        src_of = [int(k) for k in np.asarray(G.tdm.src_evt_idxs[0])]
        gp = [int(v) for v in _rec(G, xs)['gamma:gpidx']]
        _FRESH[key] = dict(ratio=ratio, grads=grads, src_of=src_of, gp=gp)
    return _FRESH[key]


def run_impl(icase):
    """the history on one object graph; per op 'U' | list of values | 'EXC:<type>'"""
    G = cf.build_i3(icase['spec'], icase['d0'], icase['s0'])
    G.rec_form = icase.get('rec_form')
    n_calls = [0]
    im = cf._get(G.energy, '_interpolmethod')      # diagnostic only (hit / miss count); a renamed attribute drops it
    if im is not None:
        class Counting(object):
            """transparent proxy: counts calls, every other attribute access goes to the real interpolation method"""
            def __call__(self, *a, **kw):
                n_calls[0] += 1
                return im(*a, **kw)

            def __getattr__(self, name):
                return getattr(im, name)
        try:
            G.energy._interpolmethod = Counting()
        except Exception:
            im = None
    res = []
    for op in icase['ops']:
        if op[0] == 'I':
            cf.op_init(G, op[1])
            res.append('U')
        elif op[0] == 'S':
            cf.op_change_source(G, op[1], 'new', 'new')
            res.append('U')
        else:
            before = n_calls[0]
            try:
                v = query(G, op[0], op[-1], op[1] if op[0] == 'G' else None)
            except Exception as e:        # noqa: BLE001 - an exception is an answer of the history
                v = 'EXC:' + type(e).__name__
            res.append((v, (n_calls[0] == before) if im is not None else None))
    return res


def states(icase):
    """(d, s) current at every op"""
    (d, s) = (icase['d0'], icase['s0'])
    out = []
    for op in icase['ops']:
        if op[0] == 'I':
            d = op[1]
        elif op[0] == 'S':
            s = op[1]
        out.append((d, s))
    return out


def request(icase, bump, atol):
    spec = icase['spec']
    K = spec['K']
    leaves, srcof, gp = {}, {}, None
    for op, (d, s) in zip(icase['ops'], states(icase)):
        if op[0] not in 'RG':
            continue
        xs = [float(x) for x in op[-1]]
        for key in ([xs[0]], xs):
            full = key * K if len(key) == 1 else key
            fe = fresh_eval(spec, d, s, full)
            srcof[d] = fe['src_of']
            gp = fe['gp']
            nfp = len(fe['grads'])
            row = np.zeros(len(fe['ratio']))
            for fid in range(1, nfp):       # the gradient row of the slot = sum of the per-fit-parameter pieces
                row = row + np.array(fe['grads'][fid])
            leaves[(d, s, tuple(f2b(x) for x in key))] = (fe['ratio'], [float(v) for v in row])
    toks = []
    for op in icase['ops']:
        if op[0] in 'IS':
            toks.append('%s%d' % (op[0], op[1]))
        elif op[0] == 'R':
            toks.append('R' + flist([float(x) for x in op[1]]))
        else:
            toks.append('G%d|%s' % (op[1], flist([float(x) for x in op[2]])))
    lt = ['%d:%d:%s:%s:%s' % (d, s, ','.join(str(b) for b in k), flist(r), flist(g)) for (d, s, k), (r, g) in sorted(leaves.items())]
    st = ['%d:%s' % (d, ','.join(str(i) for i in v) if v else '-') for d, v in sorted(srcof.items())]
    return 'i3 %d %s %s %s %s %d %d %s' % (1 if bump else 0, f2b(atol), ';'.join(lt) or '-', ';'.join(st) or '-',
                                           ','.join(str(g) for g in (gp or [])) or '-', icase['d0'], icase['s0'],
                                           ';'.join(toks) or '-')


def _close(a, b, scale):
    return abs(a - b) <= 1e-9 * (abs(a) + abs(b)) + 1e-12 * scale + 1e-300 or (a != a and b != b)


def compare(icase, impl, model_line, stats=None):
    """None | text of the first disagreement.  Relation: values 1e-9 relative with an absolute floor 1e-12 * max|row|;
    hit / miss is a diagnostic counter only."""
    toks = model_line.split(';') if icase['ops'] else []
    if len(toks) != len(icase['ops']):
        return 'model answered %d operations of %d: %s' % (len(toks), len(icase['ops']), model_line[:200])
    for i, (op, r, m) in enumerate(zip(icase['ops'], impl, toks)):
        if op[0] in 'IS':
            if m != 'U':
                return 'operation %d %s: model %s' % (i, op, m)
            if stats is not None:
                stats['branches']['i3 step: initTrial' if op[0] == 'I' else 'i3 step: changeSource'] += 1
            continue
        (v, nocall) = r
        if m in ('SHAPE', 'NOLEAF') or isinstance(v, str):
            return 'operation %d %s: implementation %s, model %s' % (i, op, v if isinstance(v, str) else 'values', m)
        (kind, hit, vals) = m.split(':')
        mv = parse_flist(vals)
        if len(mv) != len(v):
            return 'operation %d %s: %d values, model %d' % (i, op, len(v), len(mv))
        scale = max([abs(x) for x in mv] + [0.0])
        for j, (a, b) in enumerate(zip(v, mv)):
            if not _close(a, b, scale):
                return 'operation %d %s: value %d: implementation %r, model %r' % (i, op, j, a, b)
        if stats is not None:
            stats['i3_numbers'] = stats.get('i3_numbers', 0) + len(v)
            if nocall is not None and nocall != (hit == '1'):
                stats['diag_i3_hit_differs'] = stats.get('diag_i3_hit_differs', 0) + 1
    return None


def count_branches(icase, model_line, atol, br):
    """branches of the model functions, from the model's own answers and the inputs"""
    toks = model_line.split(';') if icase['ops'] else []
    filled_sid, sid, prev_key = None, 0, None
    K = icase['spec']['K']
    for op, m in zip(icase['ops'], toks):
        if op[0] in 'IS':
            sid += 1
            continue
        if ':' not in m:
            continue
        xs = [float(x) for x in op[-1]]
        allclose = all(abs(b - a) <= atol for a, b in zip(xs, xs[1:]))
        br['reduceKey: all close, first row' if allclose else 'reduceKey: rows differ, kept'] += 1
        key = tuple(xs[:1] if allclose else xs)
        hit = m.split(':')[1] == '1'
        if filled_sid is None:
            br['lookup: slot empty'] += 1
        elif filled_sid != sid:
            br['lookup: other state id'] += 1
        elif hit:
            br['lookup: hit'] += 1
        else:
            br['lookup: other key'] += 1
        if filled_sid == sid and prev_key is not None:
            br['keyEq: same length' if len(prev_key) == len(key) else 'keyEq: one row broadcast'] += 1
        if not hit:
            (filled_sid, prev_key) = (sid, key)
        if op[0] == 'G':
            fe_gp = [2 + k for k in range(K)] if K > 1 else [2]
            n = sum(1 for g in fe_gp if g == op[1] + 1)
            br['gradOut: no source' if n == 0 else ('gradOut: all sources, cached row' if n == K else 'gradOut: masked copy')] += 1


BRANCHES = ['i3 step: initTrial', 'i3 step: changeSource', 'reduceKey: all close, first row', 'reduceKey: rows differ, kept',
            'lookup: slot empty', 'lookup: other state id', 'lookup: hit', 'lookup: other key',
            'keyEq: same length', 'keyEq: one row broadcast',
            'gradOut: no source', 'gradOut: all sources, cached row', 'gradOut: masked copy']


def fresh_vs_used(icase, impl=None):
    """implementation only: every get_ratio / get_gradient inside the history equals (bitwise) the same call on a freshly
    built object graph holding the data set and source set current at that moment"""
    impl = run_impl(icase) if impl is None else impl
    for i, (op, r, (d, s)) in enumerate(zip(icase['ops'], impl, states(icase))):
        if op[0] not in 'RG':
            continue
        fe = fresh_eval(icase['spec'], d, s, [float(x) for x in op[-1]])
        want = fe['ratio'] if op[0] == 'R' else fe['grads'][op[1]]
        got = r[0]
        if isinstance(got, str) or len(got) != len(want) or any(f2b(a) != f2b(b) for a, b in zip(got, want)):
            j = 0 if isinstance(got, str) or len(got) != len(want) else \
                next(k for k, (a, b) in enumerate(zip(got, want)) if f2b(a) != f2b(b))
            return ('operation %d %s of the history %s (first trial: data set %d, source set %d) on the splined I3 energy PDF '
                    'ratio: %s, freshly built objects: %s (%d values, shown from the first differing value %d)'
                    % (i, op, icase['ops'][:i], icase['d0'], icase['s0'], got if isinstance(got, str) else got[j:j + 3],
                       want[j:j + 3], len(want), j))
    return None


GAMMAS = [2.03, 2.07, 2.13, 2.56, 3.5, 2.1, 1.0, 4.0]


def gen_icase(rng, spec, maxlen):
    K = spec['K']
    nfp = 1 + K

    def xs(prev):
        u = rng.random()
        if prev is not None and u < 0.3:
            return list(prev)                                   # the same point again (hit)
        g = rng.choice(GAMMAS)
        if K == 1:
            if prev is not None and u < 0.45:
                return [float(np.nextafter(prev[0], 9.0))]       # neighbouring double: another key
            return [g]
        v = rng.random()
        if v < 0.3:
            return [g] * K                                       # all equal: one-row key
        if v < 0.45:
            return [g] + [g + 4e-9] * (K - 1)                    # within atol: one-row key, first source's value
        if v < 0.6:
            return [g] + [g + 3e-8] * (K - 1)                    # just outside atol: full key
        return [g] + [rng.choice(GAMMAS) for _ in range(K - 1)]
    ops, prev = [], None
    for _ in range(rng.randint(2, maxlen)):
        u = rng.random()
        if u < 0.18:
            ops.append(['I', rng.choice([0, 1, 2, 3])])
        elif u < 0.26:
            ops.append(['S', rng.choice([0, 1])])
        else:
            p = xs(prev)
            prev = p
            if rng.random() < 0.45:
                ops.append(['R', p])
            else:
                ops.append(['G', rng.randrange(nfp), p])
    return dict(spec=spec, d0=rng.choice([0, 1, 2]), s0=0, ops=ops, rec_form=rng.choice([None, 'reuse', 'scribble']))


def directed_icases(spec):
    """deterministic, for every i3 configuration: every branch of lookup / keyEq / gradOut at least once"""
    K = spec['K']
    p, q = [2.03] * K, [2.56] * K
    out = [dict(spec=spec, d0=0, s0=0, rec_form=[None, 'reuse', 'scribble'][(K + len(spec['interp'])) % 3],
                ops=[['R', p], ['R', p], ['G', 1, p], ['G', 0, p], ['R', q], ['I', 1], ['R', q], ['G', 1, q],
                                            ['S', 1], ['G', 1, q], ['R', q], ['I', 2], ['G', K, q], ['I', 3], ['R', q], ['R', p]])]
    if K > 1:
        a = [2.03] + [2.56] * (K - 1)
        near = [2.03] + [2.03 + 4e-9] * (K - 1)
        far = [2.03] + [2.03 + 3e-8] * (K - 1)
        out.append(dict(spec=spec, d0=1, s0=0, rec_form='reuse', ops=[['R', p], ['R', a], ['G', 1, a], ['G', 2, a], ['G', 0, a], ['R', p], ['R', near],
                                                    ['R', far], ['G', 2, far], ['R', near], ['I', 0], ['G', 1, near], ['R', a]]))
    else:
        n1 = [float(np.nextafter(2.03, 3.0))]
        out.append(dict(spec=spec, d0=1, s0=0, rec_form='scribble', ops=[['R', p], ['R', n1], ['G', 1, n1], ['R', p], ['G', 1, p]]))
    return out


# ---- PDFRatioProduct with the caching ratio as first / second factor ------------------------------------------------
#   pcase = dict(spec, stubdep=[local parameter names the stateless factor depends on], d0, s0, ops)
#   ops: ['I', d] | ['S', s] | ['R', xs] direct get_ratio of the caching factor | ['P', xs] product get_ratio |
#        ['Q', fid, xs] product get_gradient.   Fit parameters: ns, gamma (or gamma0..), beta (only the stub knows it).

_FRESH_P = {}
STUB_DR = {'gamma': 0.11 + 0.07 * np.arange(27, dtype=np.float64).reshape(3, 9) % 0.9,
           'beta': -0.4 + 0.13 * np.arange(27, dtype=np.float64).reshape(3, 9) % 1.1}


def build_prod(spec, stubdep, d, s):
    from skyllh.core.parameters import Parameter
    from harness import llh_fixtures as fx
    G = cf.build_i3(spec, d, s)
    K = spec['K']
    beta = Parameter('beta', 1.0, 0.0, 2.0)
    if not G.split:
        params = [Parameter('gamma', 2.0, 1.0, 4.0), beta]
    else:
        params = [(Parameter('gamma%d' % k, 2.0, 1.0, 4.0), [G.sources[k]], ['gamma']) for k in range(K)] + [beta]
    G.pmm = fx.make_pmm(G.sources, params=params, ns_init=2.0, ns_max=30.0, ns_min=0.0)
    cf.op_init(G, d)
    G.pstub = fx.StubPDFRatio(G.cfg, cf.STUB_TABLE[:K], dR={n: STUB_DR[n][:K] for n in stubdep}, param_names=list(stubdep))
    G.prod = G.energy * G.pstub if spec['order'] == 'first' else G.pstub * G.energy
    return G


def _prec(G, xs):
    from harness import llh_fixtures as fx
    if not G.split:
        fp = fx.fitparam_values(G.pmm, 2.0, gamma=xs[0], beta=1.0)
    else:
        fp = fx.fitparam_values(G.pmm, 2.0, beta=1.0, **{'gamma%d' % k: xs[k] for k in range(G.spec['K'])})
    return _form(G, G.pmm.create_src_params_recarray(gflp_values=fp))


def _out(x, n):
    if isinstance(x, np.ndarray):
        return [float(v) for v in np.array(x, dtype=np.float64).ravel()]
    return 'Z' if (np.isscalar(x) and x == 0) else [float(x)] * n


def pquery(G, op):
    rec = _prec(G, op[-1])
    if op[0] == 'R':
        out = _out(G.energy.get_ratio(tdm=G.tdm, src_params_recarray=rec), 0)
    elif op[0] == 'P':
        out = _out(G.prod.get_ratio(tdm=G.tdm, src_params_recarray=rec), 0)
    else:
        out = _out(G.prod.get_gradient(tdm=G.tdm, src_params_recarray=rec, fitparam_id=op[1]), 0)
    _after(G, rec)
    return out


def fresh_prod(spec, stubdep, d, s, xs):
    key = (_hashable(spec), tuple(stubdep), d, s, tuple(f2b(float(x)) for x in xs))
    if key not in _FRESH_P:
        G = build_prod(spec, stubdep, d, s)
        nfp = n_fitparams(G)
        rec = _prec(G, xs)
        out = dict(P=pquery(G, ['P', xs]), Q={}, nfp=nfp,
                   stub_ratio=_out(G.pstub.get_ratio(tdm=G.tdm, src_params_recarray=rec), 0), stub_grad={},
                   stub_dep=[fid for fid in range(nfp)
                             if any(n in rec.dtype.fields and np.any(rec[n + ':gpidx'] == fid + 1) for n in stubdep)])
        G2 = build_prod(spec, stubdep, d, s)        # gradients on a second graph (no preceding get_ratio)
        for fid in range(nfp):
            out['stub_grad'][fid] = _out(G.pstub.get_gradient(tdm=G.tdm, src_params_recarray=rec, fitparam_id=fid), 0)
            out['Q'][fid] = pquery(G2, ['Q', fid, xs])
        _FRESH_P[key] = out
    return _FRESH_P[key]


def prun_impl(pcase):
    G = build_prod(pcase['spec'], pcase['stubdep'], pcase['d0'], pcase['s0'])
    G.rec_form = pcase.get('rec_form')
    res = []
    for op in pcase['ops']:
        if op[0] == 'I':
            cf.op_init(G, op[1])
            res.append('U')
        elif op[0] == 'S':
            cf.op_change_source(G, op[1], 'new', 'new')
            res.append('U')
        else:
            try:
                res.append(pquery(G, op))
            except Exception as e:        # noqa: BLE001
                res.append('EXC:' + type(e).__name__)
    return res


def prequest(pcase, bump, atol):
    spec = pcase['spec']
    K = spec['K']
    base = request(dict(pcase, ops=[(['R', op[-1]] if op[0] in 'PQ' else op) for op in pcase['ops']]), bump, atol).split(' ')
    (leaves, srcof, gp) = (base[3], base[4], base[5])
    stubr, stubg, dep = {}, {}, []
    for op, (d, s) in zip(pcase['ops'], states(pcase)):
        if op[0] not in 'PQ':
            continue
        fp_ = fresh_prod(spec, pcase['stubdep'], d, s, [float(x) for x in op[-1]])
        stubr[(d, s)] = fp_['stub_ratio']
        dep = fp_['stub_dep']
        for fid, g in fp_['stub_grad'].items():
            if g != 'Z':
                stubg[(d, s, fid)] = g
    toks = []
    for op in pcase['ops']:
        if op[0] in 'IS':
            toks.append('%s%d' % (op[0], op[1]))
        elif op[0] in 'RP':
            toks.append(op[0] + flist([float(x) for x in op[1]]))
        else:
            toks.append('Q%d|%s' % (op[1], flist([float(x) for x in op[2]])))
    return 'i3p %s %s %s %s %s %s %s %s %d %d %s' % (
        base[1], base[2], leaves, srcof, gp,
        ';'.join('%d:%d:%s' % (d, s, flist(v)) for (d, s), v in sorted(stubr.items())) or '-',
        ';'.join('%d:%d:%d:%s' % (d, s, f, flist(v)) for (d, s, f), v in sorted(stubg.items())) or '-',
        ','.join(str(f) for f in dep) or '-', pcase['d0'], pcase['s0'], ';'.join(toks) or '-')


PBRANCHES = ['pstep: low', 'pstep: pratio', 'pstep: pgrad', 'combine: both factors depend', 'combine: caching factor only',
             'combine: stateless factor only', 'combine: neither (scalar 0)', 'gradOrZero: array']


def pcompare(pcase, impl, model_line, stats=None):
    toks = model_line.split(';') if pcase['ops'] else []
    if len(toks) != len(pcase['ops']):
        return 'model answered %d operations of %d: %s' % (len(toks), len(pcase['ops']), model_line[:200])
    sts = states(pcase)
    for i, (op, v, m) in enumerate(zip(pcase['ops'], impl, toks)):
        br = stats['branches'] if stats is not None else {}
        if op[0] in 'IS':
            if m != 'U':
                return 'operation %d %s: model %s' % (i, op, m)
            br['pstep: low'] = br.get('pstep: low', 0) + 1
            continue
        if m == 'SHAPE' or (isinstance(v, str) and v.startswith('EXC')):
            return 'operation %d %s: implementation %s, model %s' % (i, op, v if isinstance(v, str) else 'values', m)
        if (v == 'Z') != (m == 'Z'):
            return 'operation %d %s: scalar 0 handed out: implementation %s, model %s' % (i, op, v == 'Z', m == 'Z')
        if m == 'Z':
            br['pstep: pgrad'] = br.get('pstep: pgrad', 0) + 1
            br['combine: neither (scalar 0)'] = br.get('combine: neither (scalar 0)', 0) + 1
            continue
        mv = parse_flist(m.split(':')[-1])
        if len(mv) != len(v):
            return 'operation %d %s: %d values, model %d' % (i, op, len(v), len(mv))
        scale = max([abs(x) for x in mv] + [0.0])
        if op[0] in 'PQ':
            # conditioning: the two terms of the product rule may cancel; the floor follows the size of the terms
            (d_, s_) = sts[i]
            xs_ = [float(x) for x in op[-1]]
            fe = fresh_eval(pcase['spec'], d_, s_, xs_)
            fp_ = fresh_prod(pcase['spec'], pcase['stubdep'], d_, s_, xs_)
            mx = lambda r: max([abs(x) for x in r] + [0.0]) if not isinstance(r, str) else 0.0      # noqa: E731
            scale = max(scale, mx(fe['ratio']) * max([mx(g) for g in fp_['stub_grad'].values()] + [0.0])
                        + max([mx(g) for g in fe['grads'].values()] + [0.0]) * mx(fp_['stub_ratio']),
                        mx(fe['ratio']) * mx(fp_['stub_ratio']))
        for j, (a, b) in enumerate(zip(v, mv)):
            if not _close(a, b, scale):
                return 'operation %d %s: value %d: implementation %r, model %r' % (i, op, j, a, b)
        if stats is not None:
            stats['i3p_numbers'] = stats.get('i3p_numbers', 0) + len(v)
            br['pstep: ' + {'R': 'low', 'P': 'pratio', 'Q': 'pgrad'}[op[0]]] += 1
            if op[0] == 'Q':
                K = pcase['spec']['K']
                d1 = 1 <= op[1] <= K
                d2 = (('gamma' in pcase['stubdep']) and d1) or (('beta' in pcase['stubdep']) and op[1] == K + 1)
                br['combine: both factors depend' if d1 and d2 else ('combine: caching factor only' if d1 else
                                                                    'combine: stateless factor only')] += 1
                if d2:
                    br['gradOrZero: array'] += 1
    return None


def pfresh_vs_used(pcase, impl=None):
    """implementation only: every call of the product inside the history equals (bitwise) the same call on freshly built
    objects holding the data set and source set of that moment"""
    impl = prun_impl(pcase) if impl is None else impl
    for i, (op, got, (d, s)) in enumerate(zip(pcase['ops'], impl, states(pcase))):
        if op[0] not in 'PQ':
            continue
        fp_ = fresh_prod(pcase['spec'], pcase['stubdep'], d, s, [float(x) for x in op[-1]])
        want = fp_['P'] if op[0] == 'P' else fp_['Q'][op[1]]
        same = (got == want) if (isinstance(got, str) or isinstance(want, str)) else \
            (len(got) == len(want) and all(f2b(a) == f2b(b) for a, b in zip(got, want)))
        if not same:
            return ('operation %d %s of the history %s (first trial: data set %d, source set %d; PDFRatioProduct of the splined '
                    'I3 energy ratio and a stateless ratio depending on %s): %s, freshly built objects: %s'
                    % (i, op, pcase['ops'][:i], pcase['d0'], pcase['s0'], pcase['stubdep'] or 'no parameter',
                       got if isinstance(got, str) else got[:6], want if isinstance(want, str) else want[:6]))
    return None


def gen_pcase(rng, spec, maxlen):
    K = spec['K']
    stubdep = rng.choice([[], ['gamma'], ['beta'], ['gamma', 'beta']])
    base = gen_icase(rng, spec, maxlen)
    ops = []
    for op in base['ops']:
        if op[0] == 'R':
            ops.append([rng.choice('PPR'), op[1]])
        elif op[0] == 'G':
            ops.append(['Q', rng.randrange(K + 2), op[2]])
        else:
            ops.append(op)
    return dict(spec=spec, stubdep=stubdep, d0=base['d0'], s0=0, ops=ops, rec_form=base['rec_form'])


def directed_pcases(spec, i, n=1):
    K = spec['K']
    p, q = [2.03] * K, [2.56] * K
    a = [2.03] + [2.56] * (K - 1)
    deps = [[], ['gamma'], ['beta'], ['gamma', 'beta']]
    return [dict(spec=spec, stubdep=deps[(i // 2 + i + j) % 4], d0=j, s0=0, rec_form=[None, 'reuse', 'scribble'][(i // 2 + j) % 3],
                 ops=[['Q', 1, p], ['P', p], ['Q', K + 1, p], ['Q', 0, p], ['Q', K, a], ['P', a], ['I', 2], ['Q', 1, a], ['P', q],
                      ['S', 1], ['Q', K + 1, q], ['R', q], ['Q', K, q], ['I', 3], ['P', q]]) for j in range(n)]
