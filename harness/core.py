"""Common machinery of the /verif checks (see DESIGN.md section 2).

A check for property Cxx
  1. regenerates lean/SkyllhModel/Generated/Cxx.lean from /repo's current source (ast, no execution),
  2. re-checks the property theorems with the Lean kernel (lake build SkyllhModel.Props.Cxx),
  3. audits them (#print axioms, forbidden tokens),
  4. runs the correspondence between the executable Lean model and the real implementation,
  5. runs the property oracles on the implementation (failing-input search),
  6. consults known_findings.json, writes evidence/Cxx.json and prints the verdict.
"""
import collections
import hashlib
import json
import os
import random
import re
import struct
import subprocess
import sys
import time

VERIF = os.path.dirname(os.path.dirname(os.path.abspath(__file__)))
LEAN_DIR = os.environ.get('VERIF_LEAN_DIR', os.path.join(VERIF, 'lean'))
REPO = os.environ.get('VERIF_REPO', '/repo')
ALLOWED_AXIOMS = {'propext', 'Classical.choice', 'Quot.sound'}
FORBIDDEN = re.compile(
    r'\bsorry\b|\badmit\b|^\s*axiom\s|native_decide|bv_decide|implemented_by|\bunsafe\s|maxHeartbeats\s+0\b')

EXIT_OK, EXIT_VIOLATION, EXIT_MACHINERY = 0, 1, 2


class MachineryError(Exception):
    """The check itself is broken (audit failure, driver crash, timeout): exit 2, no verdict."""


# ---------------------------------------------------------------------------------------------
# float <-> bit pattern helpers (floats cross the line protocol as decimal IEEE-754 bit patterns)

def f2b(x):
    return str(struct.unpack('<Q', struct.pack('<d', float(x)))[0])


def b2f(s):
    return struct.unpack('<d', struct.pack('<Q', int(s)))[0]


def flist(xs):
    xs = list(xs)
    return ','.join(f2b(x) for x in xs) if xs else '-'


def ilist(xs):
    xs = list(xs)
    return ','.join(str(int(x)) for x in xs) if xs else '-'


def parse_flist(s):
    return [] if s == '-' else [b2f(t) for t in s.split(',')]


def parse_ilist(s):
    return [] if s == '-' else [int(t) for t in s.split(',')]


def jsonable(x):
    """Make numpy scalars/arrays and other odd objects JSON serialisable (floats keep repr precision)."""
    try:
        import numpy as np
    except Exception:  # pragma: no cover
        np = None
    if isinstance(x, dict):
        return {str(k): jsonable(v) for k, v in x.items()}
    if isinstance(x, (list, tuple, set, frozenset)):
        return [jsonable(v) for v in x]
    if np is not None:
        if isinstance(x, np.ndarray):
            return jsonable(x.tolist())
        if isinstance(x, np.generic):
            return jsonable(x.item())
    if isinstance(x, float):
        if x != x:
            return 'nan'
        if x in (float('inf'), float('-inf')):
            return 'inf' if x > 0 else '-inf'
        return x
    if isinstance(x, (int, str, bool)) or x is None:
        return x
    if isinstance(x, bytes):
        return x.hex()
    return repr(x)


def unjson_float(x):
    if x == 'nan':
        return float('nan')
    if x == 'inf':
        return float('inf')
    if x == '-inf':
        return float('-inf')
    return float(x)


# ---------------------------------------------------------------------------------------------

class Ctx:
    def __init__(self, prop, tier='quick', seed=0, replay=None):
        self.prop = prop
        self.tier = tier
        self.seed = int(seed)
        self.replay_path = replay
        self.t0 = time.time()
        self.rng = random.Random((self.seed << 8) ^ int(prop[1:]))
        self._np_rng = None
        self.counters = collections.Counter()
        self.samples = []
        self.max_samples = 6
        self.evaluations = 0
        self._nontrivial = set()
        self.violations = []       # dicts
        self.known_hits = []       # (signature, what)
        self.notes = []
        self.assumptions = []
        self.trusted_base = []
        self.proof = {'obligations': 0, 'discharged': 0, 'theorems': [], 'axioms': {},
                      'broken': [], 'build_ok': None, 'generated_fallbacks': []}
        self.rule = ''
        self.extra = {}
        self.exhaustive = False
        self._findings = None
        self.module = None
        self.deadline = None

    # -- randomness -------------------------------------------------------------------------
    @property
    def np_rng(self):
        if self._np_rng is None:
            import numpy as np
            self._np_rng = np.random.RandomState((self.seed * 1000003 + int(self.prop[1:])) % (2**32))
        return self._np_rng

    def reseed(self, seed):
        """Continue the same run with another stream of random choices (used by the change-directed extra exploration)."""
        self.count('reseeded_runs')
        self.rng = random.Random((int(seed) << 8) ^ int(self.prop[1:]))
        import numpy as np
        self._np_rng = np.random.RandomState((int(seed) * 1000003 + int(self.prop[1:])) % (2**32))

    @property
    def thorough(self):
        return self.tier == 'thorough'

    def n(self, quick, thorough):
        return thorough if self.thorough else quick

    # -- bookkeeping ------------------------------------------------------------------------
    def count(self, key, k=1):
        self.counters[key] += k

    def case(self, desc=None, nontrivial=True, key=None):
        """Register one explored case. `key` (or desc) identifies it for distinctness."""
        self.evaluations += 1
        if nontrivial:
            k = key if key is not None else desc
            h = hashlib.sha1(json.dumps(jsonable(k), sort_keys=True).encode()).hexdigest()[:16]
            self._nontrivial.add(h)
        if desc is not None and len(self.samples) < self.max_samples:
            self.samples.append(jsonable(desc))

    def note(self, msg):
        self.notes.append(msg)
        print('note: ' + msg, flush=True)

    # -- known findings ---------------------------------------------------------------------
    def findings(self):
        if self._findings is None:
            path = os.path.join(VERIF, 'known_findings.json')
            try:
                with open(path) as f:
                    allf = json.load(f).get('findings', [])
            except FileNotFoundError:
                allf = []
            # per-property fragments written while a property is being built (merged by the lead)
            frag = os.path.join(VERIF, 'findings.d', self.prop + '.json')
            if os.path.exists(frag):
                with open(frag) as f:
                    d = json.load(f)
                allf = allf + (d.get('findings', []) if isinstance(d, dict) else d)
            self._findings = [f for f in allf if f.get('property') == self.prop]
        return self._findings

    def open_signatures(self):
        return {f['signature']: f for f in self.findings() if f.get('status') == 'open'}

    # -- violations -------------------------------------------------------------------------
    def violation(self, oracle, case, what, signature=None, kind='input', impl_output=None,
                  model_output=None, theorem=None, relation=None, no_failing_input=False):
        """Report a property violation (or a known finding, if its signature is listed as open)."""
        signature = signature or '%s/%s' % (self.prop, oracle)
        known = self.open_signatures().get(signature)
        if known is not None:
            if signature not in [s for s, _ in self.known_hits]:
                self.known_hits.append((signature, known.get('what', what)))
                print('KNOWN-FINDING: property=%s %s [%s]' % (self.prop, known.get('what', what), signature),
                      flush=True)
            self.count('known_finding_hits')
            return False
        rec = {'property': self.prop, 'kind': kind, 'oracle': oracle, 'signature': signature,
               'seed': self.seed, 'tier': self.tier, 'case': jsonable(case), 'what': what,
               'impl_output': jsonable(impl_output), 'model_output': jsonable(model_output),
               'theorem': theorem, 'relation': relation, 'no_failing_input_found': bool(no_failing_input)}
        # one report per signature is enough; keep the first (usually smallest) case
        if any(v['signature'] == signature for v in self.violations):
            self.count('violation_repeats')
            return True
        h = hashlib.sha1(json.dumps(rec, sort_keys=True).encode()).hexdigest()[:10]
        os.makedirs(os.path.join(VERIF, 'replays'), exist_ok=True)
        path = os.path.join(VERIF, 'replays', '%s_%s.json' % (self.prop, h))
        with open(path, 'w') as f:
            json.dump(rec, f, indent=1, sort_keys=True)
        rec['replay'] = path
        self.violations.append(rec)
        tail = ' no-failing-input-found' if no_failing_input else ''
        print('VIOLATION property=%s replay=%s%s' % (self.prop, path, tail), flush=True)
        print('  what: %s' % what, flush=True)
        return True

    # -- Lean side --------------------------------------------------------------------------
    def _run(self, cmd, cwd=LEAN_DIR, inp=None, timeout=1800):
        try:
            p = subprocess.run(cmd, cwd=cwd, input=inp, capture_output=True, text=True, timeout=timeout)
        except subprocess.TimeoutExpired:
            raise MachineryError('timeout running %s' % ' '.join(cmd))
        return p.returncode, p.stdout, p.stderr

    def write_generated(self, text):
        """(Re)write Generated/<prop>.lean iff its content changed (keeps no-op builds fast)."""
        path = os.path.join(LEAN_DIR, 'SkyllhModel', 'Generated', self.prop + '.lean')
        old = None
        if os.path.exists(path):
            with open(path) as f:
                old = f.read()
        if old != text:
            tmp = path + '.tmp%d' % os.getpid()
            with open(tmp, 'w') as f:
                f.write(text)
            os.replace(tmp, path)
            self.count('generated_rewritten')
        return path

    def local_import_closure(self, relpath):
        """Files of this lake project reachable from relpath through `import SkyllhModel.…`."""
        seen, todo = [], [relpath]
        while todo:
            p = todo.pop()
            if p in seen:
                continue
            full = os.path.join(LEAN_DIR, p)
            if not os.path.exists(full):
                continue
            seen.append(p)
            with open(full) as f:
                for line in f:
                    m = re.match(r'\s*(?:public\s+)?import\s+(SkyllhModel(?:\.\w+)+)', line)
                    if m:
                        todo.append(m.group(1).replace('.', '/') + '.lean')
        return seen

    @staticmethod
    def strip_comments(src):
        # remove nested block comments and line comments (good enough for the audit grep)
        out, depth, i = [], 0, 0
        while i < len(src):
            if src.startswith('/-', i):
                depth += 1
                i += 2
            elif src.startswith('-/', i) and depth > 0:
                depth -= 1
                i += 2
            elif depth > 0:
                if src[i] == '\n':
                    out.append('\n')
                i += 1
            elif src.startswith('--', i):
                while i < len(src) and src[i] != '\n':
                    i += 1
            else:
                out.append(src[i])
                i += 1
        return ''.join(out)

    def theorem_names(self, relpath):
        with open(os.path.join(LEAN_DIR, relpath)) as f:
            src = self.strip_comments(f.read())
        names = []
        for m in re.finditer(r'^\s*(?:@\[[^\]]*\]\s*)?(?:private\s+|protected\s+)?(theorem|lemma)\s+([^\s:({\[]+)', src, re.M):
            names.append(m.group(2))
        return names

    def prove(self, props_module=None, driver_modules=()):
        """lake build of the property theorems + audit.  A failing build is a broken proof obligation
        (recorded, decided at finish()); a failing audit is a machinery error."""
        props_module = props_module or 'SkyllhModel.Props.%s' % self.prop
        rel = props_module.replace('.', '/') + '.lean'
        t = time.time()
        if driver_modules:
            rc, out, err = self._run(['lake', 'build'] + list(driver_modules))
            if rc != 0:
                raise MachineryError('model modules do not build:\n' + out[-3000:] + err[-2000:])
        rc, out, err = self._run(['lake', 'build', props_module])
        names = self.theorem_names(rel)
        prop_prefix = self.prop.lower() + '_'
        thms = [n for n in names if n.lower().startswith(prop_prefix)]
        self.proof['theorems'] = thms
        self.proof['obligations'] = len(thms)
        self.proof['build_s'] = round(time.time() - t, 2)
        if rc != 0:
            self.proof['build_ok'] = False
            broken = self._broken_theorems(out + err)
            self.proof['broken'] = broken or ['<build of %s>' % props_module]
            self.proof['build_log_tail'] = (out + err)[-4000:]
            self.proof['discharged'] = max(0, len(thms) - len(self.proof['broken']))
            print('proof: build of %s FAILED; broken: %s' % (props_module, ', '.join(self.proof['broken'])), flush=True)
            return False
        self.proof['build_ok'] = True
        # ---- audit: forbidden tokens in every local file the theorems depend on
        files = self.local_import_closure(rel)
        for p in files:
            with open(os.path.join(LEAN_DIR, p)) as f:
                src = self.strip_comments(f.read())
            for ln, line in enumerate(src.split('\n'), 1):
                if FORBIDDEN.search(line):
                    raise MachineryError('audit: forbidden token in %s:%d: %s' % (p, ln, line.strip()))
        # ---- audit: axioms
        if thms:
            audit_dir = os.path.join(LEAN_DIR, '.lake', 'audit')
            os.makedirs(audit_dir, exist_ok=True)
            apath = os.path.join(audit_dir, 'Audit%s_%d.lean' % (self.prop, os.getpid()))
            with open(apath, 'w') as f:
                f.write('import %s\n' % props_module)
                for n in thms:
                    f.write('#print axioms %s\n' % n)
            rc, out, err = self._run(['lake', 'env', 'lean', apath])
            os.unlink(apath)
            if rc != 0:
                raise MachineryError('audit: #print axioms failed:\n' + out[-2000:] + err[-2000:])
            axioms = {}
            for m in re.finditer(r"'([^']+)' depends on axioms: \[([^\]]*)\]", out.replace('\n', ' ')):
                axioms[m.group(1)] = sorted(a.strip() for a in m.group(2).split(',') if a.strip())
            for m in re.finditer(r"'([^']+)' does not depend on any axioms", out):
                axioms[m.group(1)] = []
            missing = [n for n in thms if n not in axioms]
            if missing:
                raise MachineryError('audit: no axiom report for %s' % missing)
            bad = {n: a for n, a in axioms.items() if not set(a) <= ALLOWED_AXIOMS}
            if bad:
                raise MachineryError('audit: non-standard axioms: %r' % bad)
            used = sorted(set(a for v in axioms.values() for a in v))
            self.proof['axioms_used'] = used
            self.proof['axioms'] = axioms
        self.proof['discharged'] = len(thms)
        self.proof['files'] = files
        self.proof['audit_s'] = round(time.time() - t, 2)
        print('proof: %d theorems of %s re-checked by the Lean kernel, axioms %s (%.1fs)' % (
            len(thms), props_module, self.proof.get('axioms_used', []), time.time() - t), flush=True)
        if self.thorough and os.environ.get('VERIF_LEANCHECKER', '1') == '1':
            t2 = time.time()
            rc, out, err = self._run(['lake', 'env', 'leanchecker', props_module], timeout=3600)
            self.proof['leanchecker_rc'] = rc
            self.proof['leanchecker_s'] = round(time.time() - t2, 1)
            if rc != 0:
                raise MachineryError('leanchecker rejected %s:\n%s' % (props_module, (out + err)[-2000:]))
            print('proof: leanchecker re-checked %s (%.0fs)' % (props_module, time.time() - t2), flush=True)
        return True

    def _broken_theorems(self, log):
        broken = []
        for m in re.finditer(r'error: (?:\./)?(SkyllhModel/[\w/]+\.lean):(\d+):(\d+)', log):
            path, line = m.group(1), int(m.group(2))
            try:
                with open(os.path.join(LEAN_DIR, path)) as f:
                    lines = f.read().split('\n')
            except OSError:
                continue
            name = None
            for i in range(min(line, len(lines)) - 1, -1, -1):
                mm = re.match(r'\s*(?:@\[[^\]]*\]\s*)?(?:private\s+)?(theorem|lemma|def|example|instance)\s+([^\s:({\[]+)?', lines[i])
                if mm:
                    name = (mm.group(2) or mm.group(1))
                    break
            tag = '%s (%s:%d)' % (name, path, line)
            if tag not in broken:
                broken.append(tag)
        return broken

    def driver(self, name, lines, timeout=1200):
        """Run the Lean model driver Driver/<name>.lean on the request lines; one answer per line."""
        lines = list(lines)
        if not lines:
            return []
        inp = '\n'.join(lines) + '\n'
        rc, out, err = self._run(['lake', 'env', 'lean', '--run', 'Driver/%s.lean' % name], inp=inp, timeout=timeout)
        if rc != 0:
            raise MachineryError('driver %s failed (rc=%d): %s' % (name, rc, (out[-1500:] + err[-1500:])))
        res = out.split('\n')
        if res and res[-1] == '':
            res.pop()
        if len(res) != len(lines):
            raise MachineryError('driver %s: %d answers for %d requests; tail: %r' % (name, len(res), len(lines), res[-3:]))
        self.count('model_lines', len(lines))
        return res

    # -- finish -----------------------------------------------------------------------------
    def finish(self):
        # a broken proof obligation without any concrete failing input
        if self.proof['build_ok'] is False and not self.violations:
            self.violation(
                oracle='proof', case={'broken': self.proof['broken'], 'log_tail': self.proof.get('build_log_tail', '')[-1500:]},
                what='proof obligation(s) no longer check: %s; searched the implementation and the model for a failing input and found none' % ', '.join(self.proof['broken']),
                signature='%s/proof-broken' % self.prop, kind='theorem', theorem=', '.join(self.proof['broken']),
                no_failing_input=True)
        wall = time.time() - self.t0
        for lst in (self.trusted_base, self.assumptions, self.notes):
            seen = []
            for x in lst:
                if x not in seen:
                    seen.append(x)
            lst[:] = seen
        cov = {
            'obligations': max(1, self.proof['obligations']),
            'discharged': self.proof['discharged'],
            'checker_cmd': 'cd lean && lake build SkyllhModel.Props.%s  # then `#print axioms` of every %s_* theorem%s' % (
                self.prop, self.prop.lower(), '; lake env leanchecker (thorough tier)' if self.thorough else ''),
            'trusted_base': ['Lean 4.33.0 kernel', 'axioms: ' + ', '.join(self.proof.get('axioms_used', sorted(ALLOWED_AXIOMS)))] + self.trusted_base,
            'theorems': self.proof['theorems'],
            'broken_obligations': self.proof['broken'],
            'evaluations': self.evaluations,
            'distinct_nontrivial': len(self._nontrivial),
            'rule': self.rule,
            'samples': self.samples if self.samples else [{'note': 'no correspondence cases in this run'}],
            'distribution': dict(sorted(self.counters.items())),
            'exhaustive': bool(self.exhaustive),
            'known_findings_reproduced': [s for s, _ in self.known_hits],
            'notes': self.notes,
            'proof_timing_s': {k: self.proof[k] for k in ('build_s', 'audit_s', 'leanchecker_s') if k in self.proof},
        }
        cov.update(self.extra)
        ev = {'property_id': self.prop, 'tier': self.tier, 'seed': self.seed, 'level': 'proof',
              'coverage': cov, 'assumptions': self.assumptions, 'wall_s': round(wall, 2),
              'violations': len(self.violations)}
        os.makedirs(os.path.join(VERIF, 'evidence'), exist_ok=True)
        with open(os.path.join(VERIF, 'evidence', self.prop + '.json'), 'w') as f:
            json.dump(jsonable(ev), f, indent=1, sort_keys=True)
        status = 'VIOLATED' if self.violations else 'OK'
        print('%s %s tier=%s seed=%d theorems=%d/%d cases=%d distinct=%d known=%d wall=%.1fs' % (
            self.prop, status, self.tier, self.seed, self.proof['discharged'], self.proof['obligations'],
            self.evaluations, len(self._nontrivial), len(self.known_hits), wall), flush=True)
        return EXIT_VIOLATION if self.violations else EXIT_OK


# ---------------------------------------------------------------------------------------------

def load_module(prop):
    import importlib
    return importlib.import_module('harness.props.' + prop.lower())


def source_digests(repo):
    """sha1 of the ast dump (comments / layout ignored) of every skyllh/**/*.py of the tree under test."""
    import ast
    out = {}
    base = os.path.join(repo, 'skyllh')
    for root, dirs, files in os.walk(base):
        dirs[:] = sorted(d for d in dirs if d != '__pycache__')
        for fn in sorted(files):
            if fn.endswith('.py'):
                path = os.path.join(root, fn)
                rel = os.path.relpath(path, repo)
                try:
                    with open(path) as f:
                        out[rel] = hashlib.sha1(ast.dump(ast.parse(f.read())).encode()).hexdigest()[:16]
                except (SyntaxError, OSError, UnicodeDecodeError):
                    out[rel] = 'unparsable'
    return out


def source_drift(ctx):
    """Change-directed exploration.  source_baseline.json (tools/mkbaseline.py, committed) holds the digests of the skyllh sources
    the checks were last validated on (the pinned tree + the fix:/hook: commits).  When the tree under test differs from it, the
    files that changed are recorded in the evidence and the harness explores with additional derived seeds (VERIF_DRIFT_SEEDS,
    default 2): a change to the code is exactly the situation in which a class of inputs reached by only some seeds matters.
    Never a verdict by itself; on the baseline tree nothing extra runs."""
    try:
        with open(os.path.join(VERIF, 'source_baseline.json')) as f:
            base = json.load(f).get('files', {})
    except (OSError, ValueError):
        return []
    if not base:
        return []
    cur = source_digests(REPO)
    changed = sorted(k for k in set(base) | set(cur) if base.get(k) != cur.get(k))
    if os.environ.get('VERIF_FORCE_DRIFT') == '1':
        changed = changed or ['<forced by VERIF_FORCE_DRIFT>']
    if not changed:
        ctx.extra['source_drift'] = {'changed_files': [], 'extra_seeds': []}
        return []
    k = int(os.environ.get('VERIF_DRIFT_SEEDS', '2') or 0)
    seeds = [ctx.seed + 1000003 * (i + 1) for i in range(k)]
    ctx.extra['source_drift'] = {'changed_files': changed[:50], 'extra_seeds': seeds}
    ctx.note('source differs from the validated baseline in %s: exploring with %d additional derived seed(s)' % (', '.join(changed[:8]), k))
    return seeds


def model_map_report(ctx, mod):
    """Which callables of the anchored source files are inside the Lean model (evidence only, never a verdict).

    A harness module may declare MODEL_MAP = {'skyllh/core/x.py::Class.method': ['LeanNamespace.def', ...], ...}.  Every key is
    looked up in the *current* source (ast): a key that no longer exists is reported as a note (the function was renamed or
    removed: its Lean definitions are then tied to the code only through the correspondence run).  Every Lean name is looked up in
    the local Lean files the property theorems import.  The evidence lists the anchored callables inside / outside the model with
    their source line counts, so that "what is modelled rather than verified, and what is neither" is regenerated on every run."""
    import ast
    mm = getattr(mod, 'MODEL_MAP', None)
    if not mm:
        return
    try:
        with open(os.path.join(VERIF, 'properties.jsonl')) as f:
            props = [json.loads(l) for l in f if l.strip()]
        anchors = [x for x in props if x['id'] == ctx.prop][0]['anchors']['files']
    except Exception:  # noqa
        anchors = []
    files = sorted(set([a for a in anchors if a.endswith('.py')] + [k.split('::')[0] for k in mm]))
    table = {}
    for rel in files:
        path = os.path.join(REPO, rel)
        if not os.path.isfile(path):
            continue
        try:
            with open(path) as f:
                tree = ast.parse(f.read())
        except SyntaxError:
            continue

        def walk(node, prefix):
            for ch in node.body:
                if isinstance(ch, (ast.FunctionDef, ast.AsyncFunctionDef)):
                    table['%s::%s%s' % (rel, prefix, ch.name)] = (ch.end_lineno or ch.lineno) - ch.lineno + 1
                elif isinstance(ch, ast.ClassDef):
                    walk(ch, prefix + ch.name + '.')
        walk(tree, '')
    lean_src = ''
    for p in ctx.proof.get('files', []) or []:
        try:
            with open(os.path.join(LEAN_DIR, p)) as f:
                lean_src += f.read() + '\n'
        except OSError:
            pass
    gone, lean_missing = [], []
    for k, names in mm.items():
        if k not in table:
            gone.append(k)
        for n in names:
            last = n.split('.')[-1]
            if lean_src and not re.search(r'\b(def|abbrev|structure|inductive|theorem|instance)\s+(\S*\.)?%s\b' % re.escape(last), lean_src):
                lean_missing.append(n)
    if gone:
        ctx.note('MODEL_MAP names callables that no longer exist in the current source (renamed or removed; their Lean definitions '
                 'are tied to the code only through the correspondence): %s' % ', '.join(sorted(gone)))
    if lean_missing:
        ctx.note('MODEL_MAP names Lean definitions not found in the imported model files: %s' % ', '.join(sorted(set(lean_missing))))
    inside = sorted(k for k in mm if k in table)
    outside = sorted(k for k in table if k not in mm and not k.split('::')[1].split('.')[-1].startswith('__str__'))
    ctx.extra['model_map'] = {
        'anchored_py_files': files,
        'callables_in_anchored_files': len(table),
        'callables_inside_lean_model': len(inside),
        'source_lines_inside_lean_model': sum(table[k] for k in inside),
        'source_lines_in_anchored_callables': sum(table.values()),
        'inside': {k: mm[k] for k in inside},
        'outside_model': outside[:400],
        'stale_keys': sorted(gone),
        'lean_names_not_found': sorted(set(lean_missing)),
        'meaning': 'inside = the callable has an executable Lean counterpart that the property theorems are about and that is compared '
                   'with it on every run; outside = only exercised through callers, oracles, or not at all',
    }


def run_known_findings(ctx, mod):
    """Replay each listed open finding on the current tree (prints KNOWN-FINDING when it still fails)."""
    oracles = getattr(mod, 'ORACLES', {})
    for f in ctx.findings():
        if f.get('status') != 'open':
            continue
        fn = oracles.get(f.get('oracle'))
        if fn is None:
            raise MachineryError('known finding %s names unknown oracle %r' % (f.get('signature'), f.get('oracle')))
        res = fn(ctx, f.get('case'))
        if res:
            if f['signature'] not in [s for s, _ in ctx.known_hits]:
                ctx.known_hits.append((f['signature'], f.get('what', res)))
                print('KNOWN-FINDING: property=%s %s [%s]' % (ctx.prop, f.get('what', res), f['signature']), flush=True)
        else:
            ctx.note('known finding %s no longer reproduces on this tree' % f['signature'])


def main(argv=None):
    import argparse
    ap = argparse.ArgumentParser()
    ap.add_argument('prop')
    ap.add_argument('--tier', default=os.environ.get('VERIF_TIER', 'quick'), choices=['quick', 'thorough'])
    ap.add_argument('--seed', type=int, default=int(os.environ.get('VERIF_SEED', '0') or 0))
    ap.add_argument('--replay', default=None)
    ap.add_argument('--no-proof', action='store_true', help='skip the Lean build/audit (development only)')
    a = ap.parse_args(argv)
    prop = a.prop.upper()
    if REPO not in sys.path:
        sys.path.insert(0, REPO)
    os.environ.setdefault('ICECUBE_SKYLLH_VERIF', '1')
    ctx = Ctx(prop, a.tier, a.seed, a.replay)
    try:
        mod = load_module(prop)
        ctx.module = mod
        if a.replay:
            with open(a.replay) as f:
                rec = json.load(f)
            fn = getattr(mod, 'ORACLES', {}).get(rec.get('oracle'))
            if fn is None:
                if rec.get('oracle') == 'proof':
                    ok = True
                    if hasattr(mod, 'generated'):
                        ctx.write_generated(mod.generated(ctx))
                    ok = ctx.prove(driver_modules=getattr(mod, 'MODEL_MODULES', ()))
                    if not ok:
                        print('VIOLATION property=%s replay=%s no-failing-input-found' % (prop, a.replay))
                        return EXIT_VIOLATION
                    print('OK: proof obligations check on this tree')
                    return EXIT_OK
                raise MachineryError('unknown oracle %r in replay file' % rec.get('oracle'))
            res = fn(ctx, rec['case'])
            if res:
                sig = rec.get('signature')
                if sig in ctx.open_signatures():
                    print('KNOWN-FINDING: property=%s %s [%s]' % (prop, res, sig))
                    return EXIT_OK
                print('VIOLATION property=%s replay=%s' % (prop, a.replay))
                print('  what: %s' % res)
                return EXIT_VIOLATION
            print('OK: replayed case passes on this tree')
            return EXIT_OK
        if hasattr(mod, 'generated'):
            ctx.write_generated(mod.generated(ctx))
        if not a.no_proof:
            ctx.prove(driver_modules=getattr(mod, 'MODEL_MODULES', ()))
        else:
            ctx.proof['build_ok'] = True
        run_known_findings(ctx, mod)
        model_map_report(ctx, mod)
        extra_seeds = source_drift(ctx)
        mod.run(ctx)
        for s2 in extra_seeds:
            if ctx.violations or (time.time() - ctx.t0) > float(os.environ.get('VERIF_DRIFT_BUDGET_S', '600')):
                break
            ctx.reseed(s2)
            mod.run(ctx)
        return ctx.finish()
    except MachineryError as e:
        print('MACHINERY-ERROR property=%s: %s' % (prop, e), flush=True)
        if ctx.violations:
            # a violation with its replay was already reported: a later failure of the machinery must not mask it
            ctx.extra['incomplete_run'] = 'machinery error after a reported violation: %s' % str(e)[:300]
            try:
                return ctx.finish()
            except Exception:  # noqa
                return EXIT_VIOLATION
        return EXIT_MACHINERY
    except Exception as e:  # noqa
        # An exception nobody expected.  If it was raised inside skyllh (a frame of the traceback lies in the repository under
        # test) the implementation failed where the harness had no reason to expect a failure: the correspondence could not be
        # completed -> reported as a violation without a minimised input (the traceback is the replay).  Otherwise it is a bug of
        # the harness itself: machinery error, no verdict.
        import traceback
        tb = traceback.extract_tb(e.__traceback__)
        in_repo = [f for f in tb if os.path.abspath(f.filename).startswith(os.path.abspath(REPO) + os.sep)]
        text = ''.join(traceback.format_exception(type(e), e, e.__traceback__))
        if in_repo and not a.replay:
            ctx.violation('unexpected-exception', {'traceback': text[-4000:]},
                          'the implementation raised %s: %s at %s:%d (%s) where the harness expected none; the comparison could not be completed'
                          % (type(e).__name__, e, os.path.relpath(in_repo[-1].filename, REPO), in_repo[-1].lineno, in_repo[-1].name),
                          signature='%s/unexpected-exception/%s' % (prop, in_repo[-1].name), kind='correspondence',
                          relation='harness run completes', no_failing_input=True)
            try:
                return ctx.finish()
            except Exception:  # noqa
                return EXIT_VIOLATION
        print('MACHINERY-ERROR property=%s: unexpected %s in the harness itself:\n%s' % (prop, type(e).__name__, text[-3000:]), flush=True)
        if ctx.violations and not a.replay:
            # a violation with its replay was already reported: a later crash of the harness must not mask it (exit 1, run marked
            # incomplete in the evidence)
            ctx.extra['incomplete_run'] = 'harness exception after a reported violation: %s: %s' % (type(e).__name__, str(e)[:300])
            try:
                return ctx.finish()
            except Exception:  # noqa
                return EXIT_VIOLATION
        return EXIT_MACHINERY
