"""C20 — named collections, keyed lookups and configurations keep their identity rules.

Correspondence: the real `NamedObjectCollection` (histories of add / += / pop / +), `make_dict_hash` / `PDFSet`,
`DataFieldStages` / `DataFields.get_joint_names` and `Config` (creation + every mutator) vs. Model/Coll.lean
(Driver/C20.lean).  Everything compared is a decision, an index, an identity pattern or a passed-through
value, so the relation is exact equality after canonicalisation (objects by a pool number, Python object
identities by their sharing pattern, hash values only through their equality).
Property oracles (implementation only): plain-Python reference list / dict / bit loops, deep-copied
reference configurations, identity (`is`) checks, behavioural isolation of the public Config queries
(interleaved instances vs. the configuration's own content and vs. the same configuration asked alone).
"""
import collections
import copy
import itertools
import os
import sys

from harness.core import MachineryError

MODEL_MODULES = ['SkyllhModel.Model.Coll', 'SkyllhModel.Model.CollR7']

# Python callable -> the executable Lean definitions that mirror it, that the c20_* theorems are about and that
# run(ctx) compares with the real callable on every run
_CM = ['Coll.cmethod', 'Coll.cstep']
MODEL_MAP = {
    'skyllh/core/py.py::make_dict_hash': ['Coll.makeDictHash', 'Coll.gridKey', 'Coll.normVal', 'Coll.canon'],
    'skyllh/core/py.py::NamedObjectCollection.__init__': ['Coll.mkNamed', 'Coll.ctorType', 'Coll.addEach'],
    'skyllh/core/py.py::NamedObjectCollection.add': ['Coll.plan', 'Coll.checkObj', 'Coll.checkSeq', 'Coll.extendAt'],
    'skyllh/core/py.py::NamedObjectCollection.pop': ['Coll.plan', 'Coll.eraseAt'],
    'skyllh/core/py.py::NamedObjectCollection.copy': ['Coll.copyOf', 'Coll.copyStepWith'],
    'skyllh/core/py.py::ObjectCollection.copy': ['Coll.copyOf'],
    'skyllh/core/py.py::ObjectCollection.__add__': ['Coll.plan', 'Coll.applyActWith'],
    'skyllh/core/py.py::NamedObjectCollection._create_obj_name_to_idx_dict': ['Coll.createIdx', 'Coll.namePairs'],
    'skyllh/core/py.py::NamedObjectCollection.name_list': ['Coll.nameList'],
    'skyllh/core/py.py::NamedObjectCollection.get_index_by_name': ['Coll.lookupIdx'],
    'skyllh/core/py.py::NamedObjectCollection.__getitem__': ['Coll.getItem', 'Coll.getItemName', 'Coll.getItemIdx'],
    'skyllh/core/py.py::ObjectCollection.__len__': ['Coll.len'],
    'skyllh/core/py.py::ObjectCollection.index': ['Coll.indexOf'],
    'skyllh/core/pdf.py::PDFSet.make_key': ['Coll.makeDictHash'],
    'skyllh/core/pdf.py::PDFSet.add_pdf': ['Coll.addPdfE'],
    'skyllh/core/pdf.py::PDFSet.get_pdf': ['Coll.getPdfE'],
    'skyllh/core/pdf.py::PDFSet.__contains__': ['Coll.containsE'],
    'skyllh/core/pdf.py::PDFSet.pdf_keys': ['Coll.pdfKeys'],
    'skyllh/core/datafields.py::DataFieldStages.and_check': ['Coll.andCheckE', 'Coll.andCheck', 'Coll.andCheckSeq'],
    'skyllh/core/datafields.py::DataFieldStages.or_check': ['Coll.orCheckE', 'Coll.orCheck', 'Coll.orCheckSeq'],
    'skyllh/core/datafields.py::DataFields.get_joint_names': ['Coll.jointNamesE'],
    'skyllh/core/config.py::Config.__init__': ['Coll.newCfg', 'Coll.Cfg.deepCopy'],
    'skyllh/core/config.py::Config.from_dict': ['Coll.cstep', 'Coll.Cfg.update', 'Coll.Cfg.deepCopy'],
    'skyllh/core/config.py::Config.from_yaml': ['Coll.cstep', 'Coll.Cfg.update'],
    'skyllh/core/config.py::Config.is_tracing_enabled': _CM + ['Coll.methodsOk'],
    'skyllh/core/config.py::Config.enable_tracing': _CM + ['Coll.methodsOk'],
    'skyllh/core/config.py::Config.disable_tracing': _CM + ['Coll.methodsOk'],
    'skyllh/core/config.py::Config.set_enable_tracing': _CM + ['Coll.methodsOk'],
    'skyllh/core/config.py::Config.set_ncpu': _CM + ['Coll.methodsOk'],
    'skyllh/core/config.py::Config.set_internal_units': _CM + ['Coll.unitLine', 'Coll.runScript', 'Coll.methodsOk'],
    'skyllh/core/config.py::Config.set_wd': _CM + ['Coll.sysRemove'],
    'skyllh/core/config.py::Config.get_wd': _CM + ['Coll.methodsOk'],
    'skyllh/core/config.py::Config.to_internal_time_unit': _CM + ['Coll.methodsOk'],
    'skyllh/core/config.py::Config.wd_filename': _CM,
    'skyllh/core/dataset.py::DatasetCollection.add_datasets': ['Coll.dsAddEach', 'Coll.dsStep'],
    'skyllh/core/dataset.py::DatasetCollection.__iadd__': ['Coll.dsStep'],
    'skyllh/core/dataset.py::DatasetCollection.remove_dataset': ['Coll.dsStep'],
    'skyllh/core/dataset.py::DatasetCollection.get_dataset': ['Coll.dsStep'],
    'skyllh/core/dataset.py::DatasetCollection.dataset_names': ['Coll.datasetNames'],
}

STAGE_NAMES = ['DATAPREPARATION_EXP', 'DATAPREPARATION_MC', 'ANALYSIS_EXP', 'ANALYSIS_MC']
STAGE_RECORDED = [1, 2, 4, 8]


def generated(ctx):
    from harness import extract
    vals = []
    for name, rec in zip(STAGE_NAMES, STAGE_RECORDED):
        try:
            v = extract.class_attr('skyllh/core/datafields.py', 'DataFieldStages', name)
            if not isinstance(v, int) or isinstance(v, bool) or v < 0:
                raise ValueError('not a natural number: %r' % (v,))
        except Exception as e:  # noqa
            ctx.note('C20: extraction of DataFieldStages.%s failed (%s); using the recorded value %d' % (name, e, rec))
            ctx.proof['generated_fallbacks'].append(name)
            v = rec
        vals.append(v)
    from harness import c20_r7_fixtures as r7
    try:
        cfg_text = r7.lean_text(r7.extract_config())
    except Exception as e:  # noqa
        ctx.note('C20: extraction of the _BASECONFIG shape / the key chains of the Config methods failed (%s); using the '
                 'recorded shape' % (e,))
        ctx.proof['generated_fallbacks'].append('config-shape')
        cfg_text = r7.lean_text(r7.RECORDED)
    return ('-- generated by harness/props/c20.py from skyllh/core/datafields.py and skyllh/core/config.py; do not edit\n'
            'namespace Gen.C20\n'
            'def dataprepExp : Nat := %d\n'
            'def dataprepMc : Nat := %d\n'
            'def analysisExp : Nat := %d\n'
            'def analysisMc : Nat := %d\n'
            'def stageBits : List Nat := [dataprepExp, dataprepMc, analysisExp, analysisMc]\n' % tuple(vals)
            + cfg_text + 'end Gen.C20\n')


# ------------------------------------------------------------------------------------------
# fixtures

_FX = {}


def fx():
    if _FX:
        return _FX

    class NA(object):
        name = None

        def __init__(self, name):
            self.name = name

        def __repr__(self):
            return 'NA(%s)' % self.name

    class NB(object):
        name = None

        def __init__(self, name):
            self.name = name

        def __repr__(self):
            return 'NB(%s)' % self.name

    class NA2(NA):            # a subclass: its instances are accepted wherever NA instances are
        def __repr__(self):
            return 'NA2(%s)' % self.name

    class NC(object):         # a class without a `name` attribute (constructor must refuse it)
        pass

    _FX['TY'] = [NA, NB, NA2, NC]
    return _FX


def ty_sub(a, b):
    """issubclass between the fixture classes (the driver's TyRel instance says the same)"""
    return a == b or (a == 2 and b == 0)


# pool number -> (name code, type code).  5 has the name of 0 (a *different* object with a clashing
# name), 6 is of another class (rejected by the collections of type 0).
POOL = {0: (0, 0), 1: (1, 0), 2: (2, 0), 3: (3, 0), 4: (4, 0), 5: (0, 0), 6: (6, 1), 7: (7, 2)}   # 7: subclass instance
UNKNOWN_NAME = 9


def nm(code):
    return 'n%d' % code


def code_of(name):
    try:
        return int(str(name)[1:])
    except Exception:  # noqa
        return 98


def enc_obj(o):
    return '%d.%d.%d' % (o, POOL[o][0], POOL[o][1])


def enc_op(op):
    k = op[0]
    if k == 'N':
        return 'N:%d' % op[1]
    if k in ('A', '+A'):
        return '%s:%d:%s' % (k, op[1], enc_obj(op[2]))
    if k in ('C', '+C'):
        return '%s:%d:%d' % (k, op[1], op[2])
    if k in ('S', '+S'):
        return '%s:%d:%s' % (k, op[1], ';'.join(enc_obj(o) for o in op[2]) or '-')
    if k == 'P':
        if len(op) > 3 and op[3] == 'float':
            return 'PB:%d' % op[1]
        return 'P:%d:%s' % (op[1], 'n' if op[2] is None else int(op[2]))
    if k == 'Q':
        return 'Q:%d:%d' % (op[1], op[2])
    if k == 'Y':     # `c.copy()` (round 7)
        return 'Y:%d' % op[1]
    if k == 'K':     # constructor: ['K', ty | None, form n|s|q|t|a, [objs]]
        form = {'n': 'n', 's': 's'}.get(op[2], 'q')
        return 'K:%s:%s:%s' % ('n' if op[1] is None else op[1], form, ';'.join(enc_obj(o) for o in op[3]) or '-')
    raise ValueError(op)


def op_key(op):
    """model request + the Python form of the call (operator / tuple / ndarray / index type)"""
    extra = op[3] if len(op) > 3 and isinstance(op[3], str) else (op[2] if op[0] == 'K' else '')
    return enc_op(op) + str(extra)


def _lst(xs):
    xs = list(xs)
    return ','.join(str(x) for x in xs) if xs else '-'


def sharing(world):
    """Which collections see each other's in-place changes — observed through public behaviour only.
    On a deep copy of the whole world (copy.deepcopy keeps shared sub-objects shared, the real world stays
    untouched) a uniquely named probe object is added to every collection; collection j shares the object
    list / the name index of collection i iff probe i shows up in j.objects / under its name in j.
    -> (oc, ic): for every collection the number of the first collection it shares list / index with."""
    TY = fx()['TY']
    n = len(world)
    oc, ic = list(range(n)), list(range(n))
    if n < 2:
        return oc, ic
    try:
        # the member objects themselves need not be copied (the probe looks at the containers only)
        memo = {}
        for c in world:
            for o in c.objects:
                memo[id(o)] = o
        w2 = copy.deepcopy(list(world), memo)
    except Exception as e:  # noqa
        raise MachineryError('C20: the collections cannot be deep-copied for the sharing probe: %s: %s' % (type(e).__name__, e))
    probes = []
    for i, c in enumerate(w2):
        p = None
        if c.obj_type in TY:
            p = c.obj_type('probe%d' % i)
            try:
                c.add(p)
            except Exception:  # noqa
                p = None
                _PROBE_STATS['add-raised'] += 1
        probes.append(p)
    for j, c in enumerate(w2):
        objs = list(c.objects)
        for i in range(j):
            p = probes[i]
            if p is None:
                continue
            # the object list is shared iff the probe object itself shows up in the list;
            # the name index is shared iff the probe's name is known (membership alone: with only the
            # index shared, collection[name] would look into the collection's own list)
            if oc[j] == j and any(o is p for o in objs):
                oc[j] = i
            try:
                if ic[j] == j and p.name in c:
                    ic[j] = i
            except Exception:  # noqa
                pass
    return oc, ic


_PROBE_STATS = collections.Counter()


class CollWorld(object):
    """the real collections driven by an op list"""

    def __init__(self):
        TY = fx()['TY']
        self.objs = {i: TY[t](nm(n)) for i, (n, t) in POOL.items()}
        self.ident = {id(o): i for i, o in self.objs.items()}
        self.world = []

    def do(self, op):
        from skyllh.core.py import NamedObjectCollection
        TY = fx()['TY']
        k = op[0]
        w = self.world
        use_operator = k in ('A', 'C', 'S') and len(op) > 3 and 'i' in str(op[3])
        try:
            if k == 'N':
                w.append(NamedObjectCollection(obj_type=TY[op[1]]))
                return 'ok'
            if k == 'K':
                objs = [self.objs[o] for o in op[3]]
                arg = None if op[2] == 'n' else (objs[0] if op[2] == 's' else self._seq(objs, op[2]))
                w.append(NamedObjectCollection(arg, obj_type=None if op[1] is None else TY[op[1]]))
                return 'ok'
            c = w[op[1]]
            if k in ('A', 'C', 'S'):
                arg = self.objs[op[2]] if k == 'A' else (w[op[2]] if k == 'C' else [self.objs[o] for o in op[2]])
                if k == 'S' and len(op) > 3:
                    arg = self._seq(arg, op[3])
                if use_operator:
                    r = c
                    r += arg
                else:
                    r = c.add(arg)
                return 'ok' if r is c else 'not-self'
            if k == 'P':
                idx = op[2]
                if len(op) > 3:
                    import numpy as np
                    idx = {'bool': bool, 'np': np.int64, 'float': float}[op[3]](idx)
                r = c.pop() if op[2] is None else c.pop(idx)
                return 'obj:%d' % self.ident.get(id(r), 99)
            if k == 'Q':
                r = c.pop(nm(op[2]))
                return 'obj:%d' % self.ident.get(id(r), 99)
            if k == 'Y':
                r = c.copy()
                w.append(r)
                return 'coll:%d' % (len(w) - 1)
            if k in ('+A', '+C', '+S'):
                arg = self.objs[op[2]] if k == '+A' else (w[op[2]] if k == '+C' else [self.objs[o] for o in op[2]])
                if k == '+S' and len(op) > 3:
                    arg = self._seq(arg, op[3])
                r = c + arg
                w.append(r)
                return 'coll:%d' % (len(w) - 1)
        except Exception as e:  # noqa  (any exception of the implementation is an observable result)
            return 'E:' + type(e).__name__
        raise ValueError(op)

    @staticmethod
    def _seq(objs, form):
        """the sequence of objects in the requested Python form: list (default), tuple, object ndarray"""
        if 't' in form:
            return tuple(objs)
        if 'a' in form:
            import numpy as np
            arr = np.empty(len(objs), dtype=object)
            for i, o in enumerate(objs):
                arr[i] = o
            return arr
        return list(objs)

    def query(self):
        """len / c[i] / c[name] / c.index(o) of every collection (same layout as the driver's `collq`)"""
        def res(f):
            try:
                return f()
            except Exception as e:  # noqa
                return 'E:' + type(e).__name__
        outs = []
        for c in self.world:
            n = len(c)
            gi = [res(lambda i=i: self.ident.get(id(c[i]), 99)) for i in range(-n - 1, n + 1)]
            gn = [res(lambda o=o: self.ident.get(id(c[o.name]), 99)) for o in c.objects]
            ix = [res(lambda k=k: c.index(self.objs[k])) for k in range(8)]
            outs.append('%d/%s/%s/%s' % (n, _lst(gi), _lst(gn), _lst(ix)))
        return '|'.join(outs) if outs else '-'

    def dump_coll(self, c, oc=None, ic=None):
        TY = fx()['TY']
        w = self.world
        ty = TY.index(c.obj_type) if c.obj_type in TY else 9
        objs = list(c.objects)
        ids = [self.ident.get(id(o), 99) for o in objs]
        try:
            names = list(c.name_list)
            ncodes = _lst(code_of(n) for n in names)
            idx = _lst('%d=%d' % (code_of(n), c.get_index_by_name(n)) for n in names)
        except Exception as e:  # noqa
            ncodes = idx = '?' + type(e).__name__
        by = []
        for o in objs:
            try:
                by.append(self.ident.get(id(c[o.name]), 99))
            except Exception:  # noqa
                by.append('E')
        me = [i for i, d in enumerate(w) if d is c][0]
        return '%d/%s/%s/%s/%s/%d/%d' % (ty, _lst(ids), ncodes, idx, _lst(by), me if oc is None else oc,
                                         me if ic is None else ic)

    def dump(self):
        if not self.world:
            return '-'
        oc, ic = sharing(self.world)
        return '|'.join(self.dump_coll(c, oc[i], ic[i]) for i, c in enumerate(self.world))


def impl_hist(ops, all_steps=True):
    cw = CollWorld()
    outs = []
    for i, op in enumerate(ops):
        r = cw.do(op)
        if all_steps or i == len(ops) - 1:
            outs.append('%s#%s' % (r, cw.dump()))
    return outs, cw


def model_tokens(line_answer):
    """split one driver answer of `coll` into (res#dump, agree) per step"""
    res = []
    for tok in line_answer.split(' '):
        parts = tok.split('#')
        if len(parts) == 3:
            res.append((parts[0] + '#' + parts[1], parts[2]))
        else:
            res.append((tok, '1'))
    return res


# ------------------------------------------------------------------------------------------
# oracle: collection history against a plain-Python reference (implementation only)

def _check_coll(c, ref_ids, cw):
    """accessors of the real collection `c` against the reference object list"""
    objs = [cw.objs[i] for i in ref_ids]
    got = [cw.ident.get(id(o), 99) for o in c.objects]
    if got != list(ref_ids):
        return 'objects are %r, expected %r' % (got, list(ref_ids))
    if len(c) != len(objs):
        return 'len() = %d, expected %d' % (len(c), len(objs))
    if [cw.ident.get(id(o)) for o in c] != list(ref_ids):
        return 'iteration order differs from the object list'
    names = [o.name for o in objs]
    first_occ = list(collections.OrderedDict.fromkeys(names))
    if list(c.name_list) != first_occ:
        return 'name_list = %r, names in positional order are %r' % (list(c.name_list), first_occ)
    for n in set(names):
        last = len(names) - 1 - names[::-1].index(n)
        try:
            i = c.get_index_by_name(n)
        except Exception as e:  # noqa
            return 'get_index_by_name(%r) raised %s although an object of that name is at position %d' % (n, type(e).__name__, last)
        if i != last:
            return 'get_index_by_name(%r) = %r, but the object of that name is at position %d' % (n, i, last)
        if c[n] is not objs[last]:
            return 'collection[%r] is not the object at position %d' % (n, last)
        if n not in c:
            return '%r in collection is False although it holds an object of that name' % n
    for n in (nm(k) for k in list(range(8)) + [UNKNOWN_NAME]):
        if n not in names:
            if n in c:
                return '%r in collection is True although no object has that name' % n
            try:
                c.get_index_by_name(n)
                return 'get_index_by_name(%r) returns for a name that is not in the collection' % n
            except KeyError:
                pass
    for i, o in enumerate(objs):
        if c[i] is not o or c.index(o) != objs.index(o):
            return 'collection[%d] / index() inconsistent with the object list' % i
    if objs and c[-1] is not objs[-1]:
        return 'collection[-1] is not the last object'
    handed_out = c.name_list
    handed_out.append('not-a-name')
    if list(c.name_list) != first_occ:
        return 'changing the list returned by name_list changes the collection'
    return None


def o_coll_hist(ctx, case):
    ops = [list(op) for op in case['ops']]
    TY = fx()['TY']
    cw = CollWorld()
    ref = []  # [ty, [ids]]
    for step, op in enumerate(ops):
        k = op[0]
        exp_res = None
        new_ref = [[t, list(ids)] for t, ids in ref]
        if k == 'N':
            new_ref.append([op[1], []])
            exp_res = 'ok'
        elif k == 'K':
            # constructor: the type is the given one or that of the (first) object; every object must be an
            # instance of it; the type must have a `name` attribute (class 3 has none, nor have object / list)
            objs_ = list(op[3]) if op[2] != 'n' else []
            t = op[1] if op[1] is not None else (POOL[objs_[0]][1] if objs_ else None)
            if t is None or t == 3 or not all(ty_sub(POOL[o][1], t) for o in objs_):
                exp_res = 'E:TypeError'
            else:
                new_ref.append([t, objs_])
                exp_res = 'ok'
        else:
            j = op[1]
            ty, ids = ref[j]
            if k in ('A', '+A', 'S', '+S', 'C', '+C'):
                ambiguous = False
                if k in ('A', '+A'):
                    xs = [op[2]] if ty_sub(POOL[op[2]][1], ty) else None
                elif k in ('S', '+S'):
                    s = list(op[2])
                    strict = bool(s) and all(ty_sub(POOL[o][1], POOL[s[0]][1]) for o in s) and ty_sub(POOL[s[0]][1], ty)
                    xs = s if strict else None
                    # every element is acceptable on its own, but the class of the first one (which the temporary
                    # collection takes as its type) rejects a later one: either outcome respects the property
                    ambiguous = bool(s) and not strict and all(ty_sub(POOL[o][1], ty) for o in s)
                else:
                    xs = list(ref[op[2]][1]) if ty_sub(ref[op[2]][0], ty) else None
                if ambiguous:
                    probe = CollWorld()
                    for o_ in ops[:step]:
                        probe.do(o_)
                    xs = None if probe.do(op).startswith('E:TypeError') else list(op[2])
                if k in ('S', '+S') and not list(op[2]):
                    # an empty sequence: the current code raises TypeError (the temporary collection gets the
                    # object type `list`); accepting it as "add nothing" is equally fine for the property
                    probe = CollWorld()
                    for o_ in ops[:step]:
                        probe.do(o_)
                    xs = None if probe.do(op).startswith('E:TypeError') else []
                if xs is None:
                    exp_res = 'E:TypeError'
                elif k[0] == '+':
                    new_ref.append([ty, ids + xs])
                    exp_res = 'coll:%d' % (len(new_ref) - 1)
                else:
                    new_ref[j][1] = ids + xs
                    exp_res = 'ok'
            elif k == 'Y':
                new_ref.append([ty, list(ids)])
                exp_res = 'coll:%d' % (len(new_ref) - 1)
            elif k in ('P', 'Q'):
                if k == 'P':
                    i = len(ids) - 1 if op[2] is None else int(op[2])
                    if i < 0:
                        i += len(ids)
                    err = 'E:IndexError' if not (0 <= i < len(ids)) else None
                    if len(op) > 3 and op[3] == 'float':
                        err = 'E:TypeError'
                else:
                    names = [POOL[o][0] for o in ids]
                    if op[2] in names:
                        i = len(names) - 1 - names[::-1].index(op[2])
                        err = None
                    else:
                        err = 'E:KeyError'
                if err:
                    exp_res = err
                else:
                    exp_res = 'obj:%d' % ids[i]
                    del new_ref[j][1][i]
        before = list(cw.world)
        before_lists = [c.objects for c in before]
        got = cw.do(op)
        where = 'step %d %s of %s' % (step, enc_op(op), ' '.join(enc_op(o) for o in ops[:step + 1]))
        if got != exp_res:
            return '%s: result %s, expected %s' % (where, got, exp_res)
        ref = new_ref
        if len(cw.world) != len(ref):
            return '%s: %d collections exist, expected %d' % (where, len(cw.world), len(ref))
        for ci, (c, (ty, ids)) in enumerate(zip(cw.world, ref)):
            if c.obj_type is not TY[ty]:
                return '%s: collection %d has obj_type %r' % (where, ci, c.obj_type)
            msg = _check_coll(c, ids, cw)
            if msg:
                return '%s: collection %d: %s' % (where, ci, msg)
        if (k[0] == '+' or k == 'Y') and got.startswith('coll:'):
            r = cw.world[-1]
            if type(r) is not type(before[op[1]]):
                return '%s: the result of + is a %s, the operand a %s' % (where, type(r).__name__, type(before[op[1]]).__name__)
            oc, ic = sharing(cw.world)
            if oc[-1] != len(oc) - 1 or ic[-1] != len(ic) - 1 or any(r is c or r.objects is lst for c, lst in zip(before, before_lists)):
                return '%s: the result of + shares its object list or name index with an operand' % where
    return None


def o_plain_plus(ctx, case):
    """plain ObjectCollection and the named subclasses of the package under +"""
    from skyllh.core.py import ObjectCollection
    vals = case['vals']
    a = ObjectCollection(list(vals[:2]), obj_type=int)
    b = ObjectCollection(list(vals[2:]), obj_type=int)
    try:
        c = a + b
        d = a + vals[0]
    except Exception as e:  # noqa
        return 'ObjectCollection(%r) + ObjectCollection(%r) raised %s: %s' % (vals[:2], vals[2:], type(e).__name__, e)
    if list(c.objects) != list(vals) or list(d.objects) != list(vals[:2]) + [vals[0]]:
        return 'ObjectCollection +: result %r / %r' % (c.objects, d.objects)
    if list(a.objects) != list(vals[:2]) or list(b.objects) != list(vals[2:]):
        return 'ObjectCollection +: operands changed to %r, %r' % (a.objects, b.objects)
    if c.objects is a.objects or c.obj_type is not int or type(c) is not ObjectCollection:
        return 'ObjectCollection +: result shares the list / has type %r / class %s' % (c.obj_type, type(c).__name__)
    c.add(7)
    if list(a.objects) != list(vals[:2]):
        return 'adding to the result of + changed the left operand'
    # subclasses used by the package
    from skyllh.core.model import Model, ModelCollection
    from skyllh.core.pdf import PDFAxes, PDFAxis
    from skyllh.core.parameters import ParameterGrid, ParameterGridSet
    for mk, extra, cls in (
            (lambda: ModelCollection([Model('m0'), Model('m1')]), lambda: Model('m2'), ModelCollection),
            (lambda: PDFAxes([PDFAxis('x', 0, 1), PDFAxis('y', 0, 2)]), lambda: PDFAxis('z', 0, 3), PDFAxes),
            (lambda: ParameterGridSet([ParameterGrid('p0', [1., 2.]), ParameterGrid('p1', [1., 2.])]),
             lambda: ParameterGrid('p2', [3., 4.]), ParameterGridSet)):
        x = mk()
        names = list(x.name_list)
        e = extra()
        try:
            y = x + e
        except Exception as ex:  # noqa
            return '%s + object raised %s: %s' % (cls.__name__, type(ex).__name__, ex)
        if type(y) is not cls:
            return '%s + object gives a %s' % (cls.__name__, type(y).__name__)
        if list(y.name_list) != names + [e.name] or list(x.name_list) != names or len(x) != len(names):
            return '%s +: result names %r, operand names %r' % (cls.__name__, y.name_list, x.name_list)
        if y[e.name] is not y[len(names)] or y.get_index_by_name(e.name) != len(names):
            return '%s +: lookup by name inconsistent with position in the result' % cls.__name__
        same_members = all(y[i] is x[i] for i in range(len(names))) and y[len(names)] is e
        if cls is ParameterGridSet:
            # ParameterGridSet.copy is a deepcopy: the result holds copies of the operand's grids.  The property
            # promises a new collection and unchanged operands, not the identity of the members: recorded only.
            if ctx is not None and not same_members:
                ctx.count('obs:ParameterGridSet-plus-holds-copies')
        elif not same_members:
            return '%s +: the result does not hold the objects of the operands themselves' % cls.__name__
        y.pop(names[0])
        if list(x.name_list) != names:
            return '%s +: pop on the result changed the operand' % cls.__name__
    # constructor with objects (list and tuple): same rules as a sequence of adds
    from skyllh.core.py import NamedObjectCollection
    TY = fx()['TY']
    for seq_type in (list, tuple):
        objs = [TY[0]('n0'), TY[0]('n1'), TY[0]('n2')]
        try:
            c = NamedObjectCollection(seq_type(objs), obj_type=TY[0])
        except Exception as ex:  # noqa
            return 'NamedObjectCollection(%s of objects) raised %s: %s' % (seq_type.__name__, type(ex).__name__, ex)
        if list(c.name_list) != ['n0', 'n1', 'n2'] or any(c[o.name] is not o or c.get_index_by_name(o.name) != i or c[i] is not o
                                                          for i, o in enumerate(objs)):
            return 'NamedObjectCollection(%s of objects): lookup by name inconsistent with position' % seq_type.__name__
    return None


def o_dataset_coll(ctx, case):
    """DatasetCollection (dict keyed, no positional order): names, lookup and removal stay consistent under
    += (single / sequence / duplicate name in the middle of a sequence) and remove_dataset"""
    from skyllh.core.dataset import Dataset, DatasetCollection
    from skyllh.core.config import Config
    cfg = _pdf_fixtures()['cfg'] if 'cfg' in _FX else Config()
    ds = [Dataset(cfg=cfg, name='d%d' % (i % 4), exp_pathfilenames=None, mc_pathfilenames=None, livetime=1.0,
                  default_sub_path_fmt='x', version=1) for i in range(6)]      # 4 and 5 clash with 0 and 1
    dc = DatasetCollection('c')
    ref = {}
    for step, op in enumerate(case['ops']):
        where = 'step %d %r of %r' % (step, op, case['ops'][:step + 1])
        k = op[0]
        try:
            if k == 'add':
                r = dc.add_datasets(ds[op[1]])
                got = 'ok' if r is dc else 'not-self'
            elif k == 'iadd':
                x = dc
                x += [ds[i] for i in op[1]] if isinstance(op[1], list) else ds[op[1]]
                got = 'ok' if x is dc else 'not-self'
            elif k == 'remove':
                dc.remove_dataset('d%d' % op[1])
                got = 'ok'
            else:
                raise MachineryError('C20: unknown dataset op %r' % (op,))
        except MachineryError:
            raise
        except Exception as e:  # noqa
            got = 'E:' + type(e).__name__
        if k in ('add', 'iadd'):
            idxs = op[1] if isinstance(op[1], list) else [op[1]]
            admissible = []
            new = dict(ref)
            dup = False
            for i in idxs:
                if ds[i].name in new:
                    dup = True
                    break
                new[ds[i].name] = ds[i]
            if dup:   # KeyError; either nothing or the datasets before the clash were added
                admissible = [('E:KeyError', dict(ref)), ('E:KeyError', new)]
            else:
                admissible = [('ok', new)]
        else:
            name = 'd%d' % op[1]
            admissible = [('ok', {n: d for n, d in ref.items() if n != name})] if name in ref else [('E:KeyError', dict(ref))]
        names = list(dc.dataset_names)
        match = [st for res, st in admissible if res == got and sorted(st) == names]
        if not match:
            return '%s: result %s, names %r; admissible: %r' % (where, got, names, [(r_, sorted(st)) for r_, st in admissible])
        ref = match[0]
        for n, d in ref.items():
            if dc.get_dataset(n) is not d or dc[n] is not d:
                return '%s: lookup of %r does not give the dataset added under that name' % (where, n)
        if ref and [x is ref[n] for x, n in zip(dc[sorted(ref)], sorted(ref))] != [True] * len(ref):
            return '%s: lookup by a sequence of names is inconsistent' % where
        for n in ('d0', 'd1', 'd2', 'd3'):
            if n not in ref:
                try:
                    dc.get_dataset(n)
                    return '%s: get_dataset(%r) returns although no such dataset is in the collection' % (where, n)
                except KeyError:
                    pass
    return None


# ------------------------------------------------------------------------------------------
# dictionary hash / PDFSet

KEYS = ['gamma', 'E0', 'sigma', 'ns']


def _pdf_fixtures():
    if 'Stub' in _FX:
        return _FX
    from skyllh.core.pdf import PDF
    from skyllh.core.config import Config
    from skyllh.core.parameters import ParameterGrid, ParameterGridSet

    class StubPDF(PDF):
        def assert_is_valid_for_trial_data(self, *a, **k):
            pass

        def get_pd(self, *a, **k):
            return None

        def initialize_for_new_trial(self, *a, **k):
            pass

    _FX['Stub'] = StubPDF
    _FX['cfg'] = Config()
    _FX['pgs'] = ParameterGridSet([ParameterGrid(k, [1., 2., 3.]) for k in KEYS])
    return _FX


def mk_pdfset():
    from skyllh.core.pdf import PDFSet
    f = _pdf_fixtures()
    return PDFSet(cfg=f['cfg'], param_grid_set=f['pgs'])


# a dictionary value is given by a JSON-able spec [class, x]
VAL_POOL = [['float', 2.0], ['np64', 2.0], ['np32', 2.0], ['int', 2], ['npint', 2], ['bool', True], ['float', 1.0], ['int', 1],
            ['float', -1.0], ['int', -1], ['int', -2], ['float', -2.0], ['float', 0.0], ['float', -0.0], ['int', 0],
            ['bool', False], ['nan'], ['np32', 0.1], ['float', 0.1], ['next', 0.1], ['float', 0.30000000000000004],
            ['float', 0.3], ['str', 'a'], ['str', 'b'], ['none'], ['int', 2 ** 70 + 1], ['float', float(2 ** 70)],
            ['int', 2 ** 70]]


def mk_val(spec):
    import numpy as np
    t = spec[0]
    x = spec[1] if len(spec) > 1 else None
    if t == 'float':
        return float(x)
    if t == 'np64':
        return np.float64(x)
    if t == 'np32':
        return np.float32(x)
    if t == 'int':
        return int(x)
    if t == 'npint':
        return np.int64(x)
    if t == 'bool':
        return bool(x)
    if t == 'str':
        return str(x)
    if t == 'none':
        return None
    if t == 'nan':
        return float('nan')
    if t == 'next':
        return float(np.nextafter(float(x), np.inf))
    raise MachineryError('C20: unknown value spec %r' % (spec,))


def mk_gdict(items):
    d = {}
    for k, spec in items:
        d[k] = mk_val(spec)
    return d


def _is_num(v):
    import numpy as np
    return isinstance(v, (bool, int, float, np.bool_, np.integer, np.floating))


def _exact(v):
    """the exact value of a number (numpy scalars compare with Python floats after a lossy cast, so == is not used)"""
    import numpy as np
    from fractions import Fraction
    if isinstance(v, (bool, np.bool_, int, np.integer)):
        return Fraction(int(v))
    f = float(v)
    if f != f:
        return 'nan'
    if f in (float('inf'), float('-inf')):
        return repr(f)
    return Fraction(f)


def _val_equal(a, b):
    """the same grid value: the same number (exactly; all NaNs alike) / equal other values"""
    if _is_num(a) and _is_num(b):
        return _exact(a) == _exact(b)
    if _is_num(a) != _is_num(b):
        return False
    return type(a) is type(b) and a == b


def _same_point(d1, d2):
    return set(d1) == set(d2) and all(_val_equal(d1[k], d2[k]) for k in d1)


def _changed(items):
    """items with the first value replaced by a neighbouring / different one, and with the first key renamed"""
    k0, spec0 = items[0]
    v = mk_val(spec0)
    if _is_num(v) and v == v and abs(float(v)) < 1e300:
        other = ['next', float(v)]
    else:
        other = ['str', 'other-value']
    return [[k0, other]] + [list(it) for it in items[1:]], [['zz', spec0]] + [list(it) for it in items[1:]]


_VT = None


def enc_val(v):
    """what the model is told about a value: float bits | integer (+ float bits when float(v) == v) | other code"""
    import numpy as np
    from harness.core import f2b
    global _VT
    if _VT is None:
        _VT = _Table()
    if isinstance(v, (float, np.floating)):
        return 'f' + f2b(float(v))
    if isinstance(v, (bool, int, np.bool_, np.integer)):
        f = float(v)
        return 'i%d_%s' % (int(v), f2b(f) if f == v else '-')
    return 'o%d' % _VT('%s:%r' % (type(v).__name__, v))


def enc_gdict(d):
    return ','.join('%d=%s' % (KEYS.index(k) if k in KEYS else 9, enc_val(v)) for k, v in d.items()) or '-'


def o_hash_order(ctx, case):
    try:
        return _hash_order(case)
    except MachineryError:
        raise
    except Exception as e:  # noqa
        return 'make_dict_hash / PDFSet on %r raised %s: %s' % (case.get('d1'), type(e).__name__, e)


def _hash_order(case):
    from skyllh.core.py import make_dict_hash
    d1, d2 = mk_gdict(case['d1']), mk_gdict(case['d2'])
    same = _same_point(d1, d2)
    if (make_dict_hash(d1) == make_dict_hash(d2)) != same:
        return 'make_dict_hash(%r) %s make_dict_hash(%r) although the dictionaries %s' % (
            d1, '!=' if same else '==', d2, 'hold the same grid values' if same else 'differ')
    f = _pdf_fixtures()
    s = mk_pdfset()
    p = f['Stub'](cfg=f['cfg'])
    s.add_pdf(p, d1)
    try:
        q = s.get_pdf(d2)
    except KeyError:
        q = None
    if same:
        if q is None:
            return 'PDFSet.get_pdf(%r) raises KeyError after add_pdf(pdf, %r)' % (d2, d1)
        if q is not p:
            return 'PDFSet.get_pdf(%r) is not the PDF added for %r' % (d2, d1)
        if d2 not in s or s.make_key(d2) != s.make_key(d1) or s[s.make_key(d2)] is not p:
            return 'PDFSet: %r in set / make_key inconsistent with %r' % (d2, d1)
        try:
            s.add_pdf(f['Stub'](cfg=f['cfg']), d2)
            return 'PDFSet.add_pdf accepted %r although a PDF for %r exists (two PDFs for one grid point)' % (d2, d1)
        except KeyError:
            pass
    else:
        if q is not None or d2 in s:
            return 'PDFSet.get_pdf(%r) finds a PDF although only the different grid point %r was added' % (d2, d1)
        p2 = f['Stub'](cfg=f['cfg'])
        try:
            s.add_pdf(p2, d2)
        except KeyError:
            return 'PDFSet.add_pdf(pdf, %r) raises KeyError although only the different grid point %r was added' % (d2, d1)
        if s.get_pdf(d2) is not p2 or s.get_pdf(d1) is not p:
            return 'PDFSet: lookups of %r and %r are mixed up' % (d1, d2)
    # a neighbouring value / a renamed key is a different key
    for items in _changed(case['d2']):
        d = mk_gdict(items)
        if _same_point(d, d1) or _same_point(d, d2):
            continue
        if d in s:
            return 'PDFSet: %r is reported as contained although only %r%s was added' % (d, d1, '' if same else ' and %r' % (d2,))
        try:
            s.get_pdf(d)
            return 'PDFSet.get_pdf(%r) returns a PDF although it was never added' % (d,)
        except KeyError:
            pass
    return None


def _bits(m):
    return [b for b in range(m.bit_length()) if (m >> b) & 1]


def o_stage(ctx, case):
    from skyllh.core.datafields import DataFieldStages as DFS, DataFields
    stage, masks, form = case['stage'], case['masks'], case.get('form', 'int')
    arg = _stage_arg(masks, form)
    ml = [int(masks)] if form in ('int', 'bool', 'npint') else list(masks)
    want_and = all(all((stage >> b) & 1 for b in _bits(m)) for m in ml)
    want_or = any(any((stage >> b) & 1 for b in _bits(m)) for m in ml)
    try:
        ga, go = DFS.and_check(stage, arg), DFS.or_check(stage, arg)
    except Exception as e:  # noqa
        if form == 'npint' and isinstance(e, TypeError):
            return None      # a numpy integer scalar is not an `int` for the code: refusing it is no wrong answer
        return 'and_check / or_check(%d, %r) raised %s: %s' % (stage, arg, type(e).__name__, e)
    if bool(ga) != want_and:
        return 'and_check(%d, %r) = %r, but "all bits of every mask are set in stage" is %r' % (stage, arg, ga, want_and)
    if bool(go) != want_or:
        return 'or_check(%d, %r) = %r, but "some bit of some mask is set in stage" is %r' % (stage, arg, go, want_or)
    fields = case.get('fields')
    if fields is not None:
        d = collections.OrderedDict((n, s) for n, s in fields)
        want = [n for n, s in fields if any(any((s >> b) & 1 for b in _bits(m)) for m in ml)]
        try:
            got = DataFields.get_joint_names(d, arg)
        except Exception as e:  # noqa
            if form == 'npint' and isinstance(e, TypeError):
                return None
            return 'get_joint_names(%r, %r) raised %s: %s' % (dict(d), arg, type(e).__name__, e)
        if list(got) != want:
            return 'get_joint_names(%r, %r) = %r, expected %r' % (dict(d), arg, got, want)
    return None


def o_stage_consts(ctx, case):
    """the named stage constants are different single flags (implementation only)"""
    from skyllh.core.datafields import DataFieldStages as DFS
    vals = [(n, getattr(DFS, n)) for n in STAGE_NAMES]
    for n, v in vals:
        if not isinstance(v, int) or v <= 0:
            return 'DataFieldStages.%s = %r is not a positive int' % (n, v)
    for (n1, v1), (n2, v2) in itertools.permutations(vals, 2):
        if DFS.or_check(v1, v2):
            return 'a field required at stage %s only (%d) is reported as required at stage %s (%d): or_check(%d, %d) is True' % (
                n1, v1, n2, v2, v1, v2)
        if not (DFS.and_check(v1 | v2, v1) and DFS.and_check(v1 | v2, [v1, v2])):
            return 'and_check(%d | %d, ...) does not see both stages %s, %s' % (v1, v2, n1, n2)
    return None


def _enc_stages(masks, form):
    if form in ('int', 'bool'):
        return 'i%d' % int(masks)
    if form == 'npint':
        return 'x'
    if form == 'set':
        masks = sorted(set(masks))
    return 'l' + (','.join(str(m) for m in masks) or '-')


# ------------------------------------------------------------------------------------------
# Config

_CFG = {}


def cfg_fixtures():
    if _CFG:
        return _CFG
    import skyllh.core.config as cm
    from astropy import units
    _CFG['mod'] = cm
    # the module-private template is used when it is there (to restore it after a case and to see sharing
    # with it); everything else goes through the public behaviour "content of a fresh Config()"
    _CFG['has_base'] = isinstance(getattr(cm, '_BASECONFIG', None), dict)
    _CFG['base0'] = copy.deepcopy(cm._BASECONFIG) if _CFG['has_base'] else copy.deepcopy(dict(cm.Config()))
    _CFG['units'] = units
    _CFG['syspath'] = list(sys.path)
    _CFG['shared0'] = {k: copy.deepcopy(v) for k, v in _shared_containers(cm).items()}
    import atexit

    def _cleanup(path='/tmp/C20_cfg_%d.yaml' % os.getpid()):
        try:
            os.unlink(path)
        except OSError:
            pass
    atexit.register(_cleanup)
    shared = {'b': 1}
    _CFG['user'] = [
        lambda: {'debugging': {'enable_tracing': False, 'log_format': 'x'}, 'multiproc': {'ncpu': 2},
                 'project': {'working_directory': '/tmp'}, 'datafields': {'dec': 4, 'own': 1},
                 'units': {'internal': {'angle': 'rad', 'energy': 'GeV', 'length': 'cm', 'time': 's'},
                           'defaults': {'fluxes': {'energy': 'GeV'}}},
                 'caching': {'pdf': {'MultiDimGridPDF': False}}},
        lambda: (lambda s: {'debugging': {'enable_tracing': True}, 'extra': {'a': {'b': 1}}, 'sh1': s, 'sh2': s,
                            'flag': 3, 'lists': {'a': [1, 2]}, 'seq': [1]})(dict(shared)),
    ]
    return _CFG


def _shared_containers(cm):
    """mutable containers that live on the Config / HasConfig classes or at module level of
    skyllh.core.config (found by inspection, whatever they are called): {(owner, name): object}"""
    res = {}
    for owner_name in ('Config', 'HasConfig'):
        owner = getattr(cm, owner_name, None)
        if owner is None:
            continue
        for name, v in vars(owner).items():
            if not (name.startswith('__') and name.endswith('__')) and isinstance(v, (dict, list, set)):
                res[(owner_name, name)] = v
    for name, v in vars(cm).items():
        if not (name.startswith('__') and name.endswith('__')) and isinstance(v, (dict, list, set)):
            res[('module', name)] = v
    return res


def reset_shared_state():
    """put every class / module level container back to its content at import time (in place)"""
    F = cfg_fixtures()
    cur = _shared_containers(F['mod'])
    for key, snap in F['shared0'].items():
        obj = cur.get(key)
        if obj is None or type(obj) is not type(snap):
            continue
        fresh = copy.deepcopy(snap)
        if isinstance(obj, dict):
            obj.clear()
            obj.update(fresh)
        elif isinstance(obj, list):
            obj[:] = fresh
        else:
            obj.clear()
            obj.update(fresh)
    for key, obj in cur.items():      # containers that appeared later (lazily created caches)
        if key not in F['shared0'] and key[0] != 'module':
            obj.clear()


def shared_state_changed():
    """names of class / module level containers whose content differs from import time (diagnostic)"""
    F = cfg_fixtures()
    cur = _shared_containers(F['mod'])
    out = []
    for key, obj in cur.items():
        snap = F['shared0'].get(key)
        try:
            if snap is None or obj != snap:
                out.append('%s.%s' % key)
        except Exception:  # noqa
            out.append('%s.%s' % key)
    return out


NONQUERY_PREFIXES = ('set_', 'enable', 'disable', 'add', 'remove', 'update', 'from_', 'load', 'clear', 'pop', 'del')


def _query_specs(cm):
    """every public query of Config found by inspection: properties, methods without argument and
    methods with one argument (called with several units and a file name) -> [(label, fn(cfg))]"""
    import inspect
    u = cfg_fixtures()['units']
    cands = [('s', u.s), ('day', u.day), ('h', u.h), ('GeV', u.GeV), ("'data.txt'", 'data.txt')]
    specs = []
    for name, attr in sorted(vars(cm.Config).items()):
        if name.startswith('_') or name.startswith(NONQUERY_PREFIXES):
            continue
        if isinstance(attr, property):
            specs.append((name, lambda c, n=name: getattr(c, n)))
        elif isinstance(attr, (classmethod, staticmethod)) or not callable(attr):
            continue
        else:
            try:
                ps = [q for q in list(inspect.signature(attr).parameters.values())[1:]
                      if q.default is q.empty and q.kind in (q.POSITIONAL_ONLY, q.POSITIONAL_OR_KEYWORD)]
            except (TypeError, ValueError):
                continue
            if len(ps) == 0:
                specs.append((name + '()', lambda c, n=name: getattr(c, n)()))
            elif len(ps) == 1:
                for lab, v in cands:
                    specs.append(('%s(%s)' % (name, lab), lambda c, n=name, v=v: getattr(c, n)(v)))
    return specs


def _outcome(fn, c):
    try:
        return ('V', fn(c))
    except Exception as e:  # noqa
        return ('E', type(e).__name__)


def _same(a, b):
    if a[0] != b[0]:
        return False
    if a[0] == 'E':
        return a[1] == b[1]
    try:
        eq = (a[1] == b[1])
        if isinstance(eq, bool):
            return eq
        return bool(eq)
    except Exception:  # noqa
        return repr(a[1]) == repr(b[1])


def _query_reference(label, content):
    """independent value of the known derived queries from the content of the configuration itself"""
    u = cfg_fixtures()['units']
    units = {'s': u.s, 'day': u.day, 'h': u.h, 'GeV': u.GeV, 'TeV': u.TeV, 'rad': u.rad, 'deg': u.deg, 'cm': u.cm, 'm': u.m}

    def f():
        if label == 'is_tracing_enabled':
            return content['debugging']['enable_tracing']
        if label == 'get_wd()':
            return os.path.abspath(content['project']['working_directory'])
        if label == "wd_filename('data.txt')":
            return os.path.join(os.path.abspath(content['project']['working_directory']), 'data.txt')
        if label.startswith('to_internal_time_unit(') and label[22:-1] in units:
            internal = content['units']['internal']['time']
            key = (label, internal)
            try:
                hash(key)
            except TypeError:
                return units[label[22:-1]].to(internal)
            if key not in _REF_CACHE:      # harness side memo, keyed by BOTH units
                try:
                    _REF_CACHE[key] = ('V', units[label[22:-1]].to(internal))
                except Exception as e:  # noqa
                    _REF_CACHE[key] = ('E', type(e).__name__)
            raise _Ready(_REF_CACHE[key])
        raise LookupError(label)
    try:
        return ('V', f())
    except _Ready as r:
        return r.args[0]
    except LookupError:
        return None
    except Exception as e:  # noqa
        return ('E', type(e).__name__)


_REF_CACHE = {}


class _Ready(Exception):
    pass


def _yaml_fixture():
    yaml_path = '/tmp/C20_cfg_%d.yaml' % os.getpid()
    yaml_dict = {'debugging': {'enable_tracing': False, 'log_format': 'y'}, 'multiproc': {'ncpu': 3},
                 'project': {'working_directory': '.'}}
    if not os.path.exists(yaml_path):
        import yaml
        with open(yaml_path, 'w') as f:
            yaml.safe_dump(yaml_dict, f)
    return yaml_path, yaml_dict


def _create_cfg(cm, mode, users):
    if mode == 'new':
        return cm.Config()
    if mode in ('fd0', 'fd1'):
        return cm.Config.from_dict(users[int(mode[2])])
    if mode == 'yamlN':      # round 7: the `pathfilename is None` branch — "nothing is done"
        return cm.Config.from_yaml(None)
    return cm.Config.from_yaml(_yaml_fixture()[0])


def o_config_queries(ctx, case):
    """behavioural isolation: what the public queries of a configuration answer depends on that
    configuration alone — not on edits / queries made on other instances before (interleaved A,B,A,B),
    not on the order of calls; also for a fresh Config() made afterwards.  References: the known derived
    values computed from the content, and the same configuration built and queried alone."""
    M = _all_mutators()
    F = cfg_fixtures()
    create, edits = case['create'], case['edits']
    with CfgRun(case) as r:
        cm = r.cm
        specs = _query_specs(cm)
        # -- every configuration alone (own creation + own edits), shared state reset before
        solo = {}
        for step in range(len(edits) + 1):
            for i, mode in enumerate(create):
                reset_shared_state()
                c = _create_cfg(cm, mode, [mk() for mk in F['user']])
                for which, mname in edits[:step]:
                    if which == i:
                        try:
                            M[mname][0](c)
                        except Exception:  # noqa
                            pass
                for label, fn in specs:
                    solo[(step, i, label)] = _outcome(fn, c)
        # -- all together, queries interleaved
        reset_shared_state()
        users = [mk() for mk in F['user']]
        cfgs = [_create_cfg(cm, mode, users) for mode in create]
        for step in range(len(edits) + 1):
            if step > 0:
                which, mname = edits[step - 1]
                try:
                    M[mname][0](cfgs[which])
                except Exception:  # noqa
                    pass
            what = 'created %r, edits %r, then every query on the configurations in turn (0,1,..,0,1,..)' % (create, edits[:step])
            outs = collections.defaultdict(list)
            for label, fn in specs:
                for _ in range(2):
                    for i, c in enumerate(cfgs):
                        outs[(i, label)].append(_outcome(fn, c))
            fresh = cm.Config()
            for label, fn in specs:
                outs[('fresh', label)].append(_outcome(fn, fresh))
            for (i, label), got in outs.items():
                content = dict(fresh) if i == 'fresh' else dict(cfgs[i])
                want = _query_reference(label, content)
                who = 'a fresh Config()' if i == 'fresh' else 'configuration %d' % i
                if want is not None:
                    for g in got:
                        if not _same(g, want):
                            return '%s: %s.%s = %r, but its own content gives %r' % (what, who, label, g[1], want[1])
                if i != 'fresh':
                    base = solo[(step, i, label)]
                    for g in got:
                        if not _same(g, base):
                            return '%s: %s.%s = %r, but the same configuration built and asked alone answers %r' % (
                                what, who, label, g[1], base[1])
    return None


def _mutators():
    u = cfg_fixtures()['units']
    wd_a, wd_b = '/tmp/C20_wd_a', 'C20_wd_rel'
    M = collections.OrderedDict()
    M['enable_tracing'] = (lambda c: c.enable_tracing(), [(('debugging',), 'enable_tracing', True)])
    M['disable_tracing'] = (lambda c: c.disable_tracing(), [(('debugging',), 'enable_tracing', False)])
    M['set_enable_tracing_T'] = (lambda c: c.set_enable_tracing(True), [(('debugging',), 'enable_tracing', True)])
    M['set_enable_tracing_F'] = (lambda c: c.set_enable_tracing(False), [(('debugging',), 'enable_tracing', False)])
    M['set_ncpu_1'] = (lambda c: c.set_ncpu(1), [(('multiproc',), 'ncpu', 1)])
    M['set_ncpu_4'] = (lambda c: c.set_ncpu(4), [(('multiproc',), 'ncpu', 4)])
    M['units_angle'] = (lambda c: c.set_internal_units(angle_unit=u.deg), [(('units', 'internal'), 'angle', u.deg)])
    M['units_energy'] = (lambda c: c.set_internal_units(energy_unit=u.TeV), [(('units', 'internal'), 'energy', u.TeV)])
    M['units_length'] = (lambda c: c.set_internal_units(length_unit=u.m), [(('units', 'internal'), 'length', u.m)])
    M['units_time'] = (lambda c: c.set_internal_units(time_unit=u.day), [(('units', 'internal'), 'time', u.day)])
    M['units_time_h'] = (lambda c: c.set_internal_units(time_unit=u.h), [(('units', 'internal'), 'time', u.h)])
    M['units_all'] = (lambda c: c.set_internal_units(u.deg, u.TeV, u.m, u.day),
                      [(('units', 'internal'), 'angle', u.deg), (('units', 'internal'), 'energy', u.TeV),
                       (('units', 'internal'), 'length', u.m), (('units', 'internal'), 'time', u.day)])
    M['set_wd_abs'] = (lambda c: c.set_wd(wd_a), [(('project',), 'working_directory', os.path.abspath(wd_a))])
    M['set_wd_rel'] = (lambda c: c.set_wd(wd_b), [(('project',), 'working_directory', os.path.abspath(wd_b))])
    M['item_top_new'] = (lambda c: c.__setitem__('newkey', 5), [((), 'newkey', 5)])
    M['item_top_over'] = (lambda c: c.__setitem__('project', 7), [((), 'project', 7)])
    M['item_datafield'] = (lambda c: c['datafields'].__setitem__('dec', 8), [(('datafields',), 'dec', 8)])
    M['item_datafield_new'] = (lambda c: c['datafields'].__setitem__('extra', 3), [(('datafields',), 'extra', 3)])
    M['item_caching'] = (lambda c: c['caching']['pdf'].__setitem__('MultiDimGridPDF', True),
                         [(('caching', 'pdf'), 'MultiDimGridPDF', True)])
    M['item_fluxes'] = (lambda c: c['units']['defaults']['fluxes'].__setitem__('energy', u.TeV),
                        [(('units', 'defaults', 'fluxes'), 'energy', u.TeV)])
    return M


def _directed_mutators():
    """edits used by the directed cases only (error branches of the navigation): not part of the pair space"""
    D = collections.OrderedDict()

    def set_project_wd(c):
        c['project']['working_directory'] = 'x'
    D['item_project_wd'] = (set_project_wd, [(('project',), 'working_directory', 'x')], None)
    for sec in ('units', 'debugging', 'project', 'multiproc'):
        D['del_' + sec] = (lambda c, sec=sec: c.__delitem__(sec), None, lambda c, sec=sec: c.__delitem__(sec))
    return D


def _oracle_only_mutators():
    """edits the Lean model has no operation for (non-dict containers, deletions, dict API, default / error
    branches of the setters): (edit on the Config, the same edit on the plain reference dictionary)"""
    u = cfg_fixtures()['units']

    def both(f):
        return (f, f)

    def ref_wd(d):
        d['project']['working_directory'] = os.path.abspath(d['project']['working_directory'])

    def ref_bad_units(d):
        d['units']['internal']['angle'] = u.deg
        raise TypeError('energy_unit')
    O = collections.OrderedDict()
    O['list_append'] = both(lambda c: c['lists']['a'].append(9))
    O['list_top_append'] = both(lambda c: c['seq'].append(9))
    O['del_datafield'] = both(lambda c: c['datafields'].__delitem__('dec'))
    O['pop_section'] = both(lambda c: c.pop('caching'))
    O['nested_update'] = both(lambda c: c['debugging'].update({'enable_tracing': True, 'new': 1}))
    O['setdefault_new'] = both(lambda c: c.setdefault('extra2', {}).__setitem__('x', 1))
    O['set_wd_default'] = (lambda c: c.set_wd(), ref_wd)
    O['units_bad_type'] = (lambda c: c.set_internal_units(angle_unit=u.deg, energy_unit='GeV'), ref_bad_units)
    return O


def _all_mutators():
    """name -> (edit on the Config, write table for the model or None, edit on the reference dictionary or None)"""
    A = collections.OrderedDict()
    for k, (fn, writes) in _mutators().items():
        A[k] = (fn, writes, None)
    for k, (fn, ref) in _oracle_only_mutators().items():
        A[k] = (fn, None, ref)
    A.update(_directed_mutators())
    return A


CREATE_MODES = ['new', 'fd0', 'fd1', 'yaml']


class _Table(object):
    def __init__(self, start=0):
        self.d = {}
        self.start = start

    def __call__(self, x):
        if x not in self.d:
            self.d[x] = len(self.d) + self.start
        return self.d[x]


def _valkey(v):
    return '%s:%r' % (type(v).__name__, v)


# codes shared by all configuration cases of a run (so the tables of the external functions stay valid)
_CT = {'kt': _Table(), 'vt': _Table(), 'vals': {}, 'exc': _Table(1), 'abs': {}, 'conv': {}, 'join': {}}
IDX_BASE = 100000        # key code of position i of a list container (same convention in Driver/C20.lean)
QUERY_UNITS = ['s', 'day', 'h', 'GeV']
QUERY_FILE = 'data.txt'


def kcode(k):
    return _CT['kt'](k)


def vcode(v):
    c = _CT['vt'](_valkey(v))
    _CT['vals'].setdefault(c, v)
    return c


def _ext(f, derived=False):
    """value or exception class of an external function, as the driver's table entry"""
    try:
        c = vcode(f())
        if derived and c not in _CT['abs']:
            _CT.setdefault('derived', set()).add(c)
        return 'v%d' % c
    except Exception as e:  # noqa
        return 'e%d' % _CT['exc'](type(e).__name__)


def ext_tables():
    """tables of os.path.abspath / unit.to / os.path.join over every value seen so far (closed under abspath;
    conversion factors and joined file names are results only, never arguments)"""
    u = cfg_fixtures()['units']
    units = [getattr(u, n) for n in QUERY_UNITS]
    ucodes = [vcode(un) for un in units]
    fcode = vcode(QUERY_FILE)
    derived = _CT.setdefault('derived', set())
    if _CT.get('tab_n') == len(_CT['vals']):
        return _CT['tab']
    for _ in range(4):
        n0 = len(_CT['vals'])
        for c, v in list(_CT['vals'].items()):
            if c in derived:
                continue
            if c not in _CT['abs']:
                _CT['abs'][c] = _ext(lambda v=v: os.path.abspath(v))
            for un, uc in zip(units, ucodes):
                if (uc, c) not in _CT['conv']:
                    _CT['conv'][(uc, c)] = _ext(lambda un=un, v=v: un.to(v), derived=True)
            if isinstance(v, str) and (c, fcode) not in _CT['join']:
                _CT['join'][(c, fcode)] = _ext(lambda v=v: os.path.join(v, QUERY_FILE), derived=True)
        if len(_CT['vals']) == n0:
            break
    t1 = ','.join('%d>%s' % (a, r) for a, r in _CT['abs'].items()) or '-'
    t2 = ','.join('%d:%d>%s' % (a, b_, r) for (a, b_), r in _CT['conv'].items()) or '-'
    t3 = ','.join('%d:%d>%s' % (a, b_, r) for (a, b_), r in _CT['join'].items()) or '-'
    _CT['tab'] = 'X=%s/%s/%s/%d/%d' % (t1, t2, t3, vcode(True), vcode(False))
    _CT['tab_n'] = len(_CT['vals'])
    return _CT['tab']


def keys_token():
    names = ['debugging', 'enable_tracing', 'multiproc', 'ncpu', 'units', 'internal', 'angle', 'energy', 'length', 'time',
             'project', 'working_directory']
    return 'K=' + ','.join(str(kcode(n)) for n in names)


def flatten(d, lt):
    """nested dict / list -> (container paths with identity numbers, leaf paths with value codes)"""
    dicts, leaves = [], []

    def rec(x, path):
        dicts.append((path, lt(id(x))))
        items = x.items() if isinstance(x, dict) else [(('#', i), v) for i, v in enumerate(x)]
        for k, v in items:
            kc = IDX_BASE + k[1] if isinstance(k, tuple) and k and k[0] == '#' else kcode(k)
            if isinstance(v, (dict, list)):
                rec(v, path + (kc,))
            else:
                leaves.append((path + (kc,), vcode(v)))
    rec(d, ())
    return dicts, leaves


def _enc_path(p):
    return '.'.join(str(k) for k in p) if p else '_'


def _enc_cfg(dicts, leaves):
    e = lambda xs: ';'.join('%s=%d' % (_enc_path(p), v) for p, v in xs) or '-'  # noqa
    return e(dicts) + '@' + e(leaves)


def _canon_world(cfgs):
    """cfgs: list of (dicts, leaves) -> contents per configuration + sharing pattern of the container identities"""
    contents = []
    holders = collections.defaultdict(list)
    for ci, (dicts, leaves) in enumerate(cfgs):
        contents.append((sorted(p for p, _ in dicts), sorted(leaves)))
        for p, l in dicts:
            holders[l].append((ci, p))
    shared = sorted(tuple(sorted(h)) for h in holders.values() if len(h) > 1)
    return contents, shared


def _parse_cfg_world(s):
    cfgs = []
    for c in s.split('|'):
        d, l = c.split('@')
        pe = lambda t: [] if t == '-' else [  # noqa
            (tuple(int(k) for k in e.split('=')[0].split('.')) if e.split('=')[0] != '_' else (), int(e.split('=')[1]))
            for e in t.split(';')]
        cfgs.append((pe(d), pe(l)))
    return cfgs


def _calls():
    """what each edit is in the Lean model: methods of Config (modelled line by line), item writes, deletions,
    list appends.  name -> list of call specs"""
    u = cfg_fixtures()['units']
    C = collections.OrderedDict()
    C['enable_tracing'] = [('m', 'et')]
    C['disable_tracing'] = [('m', 'dt')]
    C['set_enable_tracing_T'] = [('m', 'set', True)]
    C['set_enable_tracing_F'] = [('m', 'set', False)]
    C['set_ncpu_1'] = [('m', 'ncpu', 1)]
    C['set_ncpu_4'] = [('m', 'ncpu', 4)]
    C['units_angle'] = [('m', 'units', (u.deg, None, None, None))]
    C['units_energy'] = [('m', 'units', (None, u.TeV, None, None))]
    C['units_length'] = [('m', 'units', (None, None, u.m, None))]
    C['units_time'] = [('m', 'units', (None, None, None, u.day))]
    C['units_time_h'] = [('m', 'units', (None, None, None, u.h))]
    C['units_all'] = [('m', 'units', (u.deg, u.TeV, u.m, u.day))]
    C['set_wd_abs'] = [('m', 'wd', '/tmp/C20_wd_a')]
    C['set_wd_rel'] = [('m', 'wd', 'C20_wd_rel')]
    C['item_top_new'] = [('set', (), 'newkey', 5)]
    C['item_top_over'] = [('set', (), 'project', 7)]
    C['item_datafield'] = [('set', ('datafields',), 'dec', 8)]
    C['item_datafield_new'] = [('set', ('datafields',), 'extra', 3)]
    C['item_caching'] = [('set', ('caching', 'pdf'), 'MultiDimGridPDF', True)]
    C['item_fluxes'] = [('set', ('units', 'defaults', 'fluxes'), 'energy', u.TeV)]
    # formerly reference-oracle only
    C['list_append'] = [('app', ('lists', 'a'), 9)]
    C['list_top_append'] = [('app', ('seq',), 9)]
    C['del_datafield'] = [('del', ('datafields',), 'dec')]
    C['pop_section'] = [('del', (), 'caching')]
    C['nested_update'] = [('set', ('debugging',), 'enable_tracing', True), ('set', ('debugging',), 'new', 1)]
    C['set_wd_default'] = [('m', 'wd', None)]
    C['units_bad_type'] = [('m', 'units', (u.deg, 'bad', None, None))]
    C['item_project_wd'] = [('set', ('project',), 'working_directory', 'x')]
    for sec in ('units', 'debugging', 'project', 'multiproc'):
        C['del_' + sec] = [('del', (), sec)]
    return C


def _enc_call(j, spec):
    kind = spec[0]
    path = lambda p: _enc_path(tuple(kcode(x) for x in p))  # noqa
    if kind == 'set':
        return 'set:%d:%s:%d:%d' % (j, path(spec[1]), kcode(spec[2]), vcode(spec[3]))
    if kind == 'del':
        return 'del:%d:%s:%d' % (j, path(spec[1]), kcode(spec[2]))
    if kind == 'app':
        return 'app:%d:%s:%d' % (j, path(spec[1]), vcode(spec[2]))
    m = spec[1]
    if m in ('et', 'dt', 'ite', 'getwd'):
        return 'm:%d:%s' % (j, m)
    if m in ('set', 'ncpu', 'titu', 'wdf'):
        return 'm:%d:%s:%d' % (j, m, vcode(spec[2]))
    if m == 'units':
        return 'm:%d:units:%s' % (j, ','.join('-' if a is None else ('b' if isinstance(a, str) and a == 'bad' else 'v%d' % vcode(a))
                                              for a in spec[2]))
    if m == 'wd':
        return 'm:%d:wd:%s' % (j, 'n' if spec[2] is None else vcode(spec[2]))
    raise MachineryError('C20: unknown call spec %r' % (spec,))


def modelable(case):
    C = _calls()
    return all(m in C for _, m in case['edits'])


def _query_plan(ncfg):
    """the queries asked at the end of a case, configurations in turn, twice (0,1,..,0,1,..)"""
    u = cfg_fixtures()['units']
    qs = [('m', 'ite'), ('m', 'getwd'), ('m', 'wdf', QUERY_FILE)] + [('m', 'titu', getattr(u, n)) for n in QUERY_UNITS]
    return [(i, q) for q in qs for _ in range(2) for i in range(ncfg)]


def _impl_query(c, q):
    u = cfg_fixtures()['units']
    try:
        m = q[1]
        r = (c.is_tracing_enabled if m == 'ite' else c.get_wd() if m == 'getwd' else
             c.wd_filename(q[2]) if m == 'wdf' else c.to_internal_time_unit(q[2]))
        return 'cont' if isinstance(r, (dict, list)) else 'v%d' % vcode(r)
    except Exception as e:  # noqa
        return 'E:' + type(e).__name__


_R7_STATS = collections.Counter()


def _holder(cm, c):
    """an object of a class derived from HasConfig holding `c` (None when the class is not there)"""
    HC = getattr(cm, 'HasConfig', None)
    if HC is None:
        return None
    H = type('C20Holder', (HC,), {})
    return H(cfg=c)


def o_has_config(ctx, case):
    """implementation only: a HasConfig holder hands out the very Config instance it was given (two holders of one
    configuration see each other's edits, holders of different configurations do not); anything that is not a
    Config is refused with TypeError"""
    F = cfg_fixtures()
    cm = F['mod']
    with CfgRun({'create': [], 'edits': []}):
        a, b = cm.Config(), cm.Config()
        ha, ha2, hb = _holder(cm, a), _holder(cm, a), _holder(cm, b)
        if ha is None:
            return None
        if ha.cfg is not a or ha2.cfg is not a or hb.cfg is not b:
            return 'HasConfig.cfg does not return the Config instance the holder was given'
        M = _mutators()
        M[case['mutator']][0](ha.cfg)
        ref = cm.Config()
        M[case['mutator']][0](ref)
        if dict(ha2.cfg) != dict(ref) or dict(a) != dict(ref):
            return 'an edit (%s) through one holder is not seen through a second holder of the same configuration' % case['mutator']
        if dict(hb.cfg) != dict(cm.Config()):
            return 'an edit (%s) through a holder of one configuration changed the configuration of another holder' % case['mutator']
        for bad in ({}, dict(a), None):
            try:
                _holder(cm, bad)
                return 'HasConfig accepts %s as configuration' % type(bad).__name__
            except TypeError:
                pass
        try:
            ha.cfg = dict(a)
            return 'the cfg setter accepts a plain dict'
        except TypeError:
            pass
        hb.cfg = a
        if hb.cfg is not a:
            return 'the cfg setter does not store the given instance'
    return None


class CfgRun(object):
    """runs a configuration case on the real code; yields the request line for the model and the
    canonical final world"""

    def __init__(self, case):
        self.case = case
        self.F = cfg_fixtures()
        self.cm = self.F['mod']

    def __enter__(self):
        if self.F['has_base']:
            self.cm._BASECONFIG = copy.deepcopy(self.F['base0'])
        self.saved_path = list(sys.path)
        return self

    def __exit__(self, *a):
        if self.F['has_base']:
            self.cm._BASECONFIG = copy.deepcopy(self.F['base0'])
        sys.path[:] = self.saved_path
        return False

    def base(self):
        """the template object when reachable, else a stand-in with the content of a fresh Config()"""
        if self.F['has_base']:
            return self.cm._BASECONFIG
        return copy.deepcopy(self.F['base0'])

    def run(self, fd_op='fd', queries=True):
        """-> (model request line, per-call results of the implementation, canonical final world, final sys.path codes)"""
        cm = self.cm
        M = _all_mutators()
        C = _calls()
        lt = _Table(1)
        users = [mk() for mk in self.F['user']]
        yaml_path, yaml_dict = _yaml_fixture()
        world = [self.base()] + users + [yaml_dict]
        init = [flatten(x, lt) for x in world]
        sys0 = [vcode(p) for p in sys.path]
        ops, results = [], []
        cfgs = []
        for mode in self.case['create']:
            if mode == 'new':
                c = cm.Config()
                ops.append('new')
            elif mode in ('fd0', 'fd1'):
                ui = int(mode[2])
                c = cm.Config.from_dict(users[ui])
                ops.append('%s:%d' % (fd_op, 1 + ui))
            elif mode == 'yaml':
                c = cm.Config.from_yaml(yaml_path)
                ops.append('fd:%d' % (len(users) + 1))
            elif mode == 'yamlN':
                c = cm.Config.from_yaml(None)
                ops.append('new')
            else:
                raise MachineryError('C20: unknown creation mode %r' % (mode,))
            results.append(('ok', 1))
            cfgs.append(c)
            world.append(c)
        # round 7, glue: how the caller got hold of the configuration — directly, or through the `cfg` property of a
        # HasConfig holder (every odd-numbered edit of a case; a holder must hand out the instance it was given)
        holders = [_holder(cm, c) for c in cfgs]
        nfix = len(world) - len(cfgs)
        for eno, (which, mname) in enumerate(self.case['edits']):
            fn = M[mname][0]
            # 'u0' / 'u1': the edit is made on the user dictionary that was handed to from_dict before
            target = users[int(which[1])] if isinstance(which, str) else cfgs[which]
            if not isinstance(which, str) and eno % 2 == 1 and holders[which] is not None:
                target = holders[which].cfg
                _R7_STATS['cfg:edit-through-HasConfig-holder'] += 1
            widx = 1 + int(which[1]) if isinstance(which, str) else nfix + which
            try:
                fn(target)
                res = 'ok'
            except Exception as e:  # noqa
                res = 'E:' + type(e).__name__
            calls = [_enc_call(widx, sp) for sp in C[mname]]
            results.append((res, len(calls)))      # the model performs the calls of one edit one by one
            ops += calls
        if queries:
            for i, q in _query_plan(len(cfgs)):
                results.append((_impl_query(cfgs[i], q), 1))
                ops.append(_enc_call(nfix + i, q))
        final = [flatten(x, lt) for x in world]
        sys1 = [vcode(p) for p in sys.path]
        line = 'cfg %s S=%s %s' % ('|'.join(_enc_cfg(d, l) for d, l in init),
                                   ','.join(str(c) for c in sys0) or '-', ' '.join(ops))
        return line, results, _canon_world(final), sys1


def cfg_batch(ctx, lines):
    """the configuration requests of a batch, preceded by the key codes and the tables of the external
    functions over every value registered so far (the driver keeps them for the following requests)"""
    lines = list(lines)
    if not lines:
        return []
    return ctx.driver('C20', ['cfgtab %s %s' % (keys_token(), ext_tables())] + lines)[1:]


def cfg_compare(case, results, canon_impl, answer, spec_must_agree=True, sys_impl=None):
    """model answer vs implementation for one configuration case -> None | text"""
    toks = answer.split(' ')
    if toks[0] != 'inv=1':
        raise MachineryError('C20: the generated initial world violates the assumption "entries share no container": ' + toks[0])
    toks = toks[1:]
    exc_names = {v: k for k, v in _CT['exc'].d.items()}
    mres, ires = [], []
    pos = 0
    for res, n in results:
        rs = [t.split('#')[0] for t in toks[pos:pos + n]]
        pos += n
        rs = [('E:' + exc_names.get(int(r[1:]), '?')) if r.startswith('X') else r for r in rs]
        if any(r == 'E:?' for r in rs):
            raise MachineryError('C20: the driver asked an external function for an argument that is not in the table')
        if n == 1:
            mres.append(rs[0] if not (res == 'ok' and not rs[0].startswith('E:')) else 'ok')
        else:
            bad = [r for r in rs if r.startswith('E:')]
            mres.append(bad[0] if bad else 'ok')
        ires.append(res)
    for t in toks:
        if spec_must_agree and t.split('#')[2] != '1':
            raise MachineryError('C20: world semantics and per-configuration specification of the Lean model disagree: ' + t[:200])
    if mres != ires:
        k = [i for i, (a, b) in enumerate(zip(ires, mres)) if a != b][0]
        return 'results (call %d of creations + edits + queries): implementation %r, model %r' % (k, ires[k], mres[k])
    wtxt, stxt = toks[-1].split('#')[1].split(';sys=')
    canon_model = _canon_world(_parse_cfg_world(wtxt))
    if canon_model != canon_impl:
        ci, cmo = canon_impl, canon_model
        for i, (a, b) in enumerate(zip(ci[0], cmo[0])):
            if a != b:
                da = [x for x in a[1] if x not in b[1]]
                db = [x for x in b[1] if x not in a[1]]
                return 'content of configuration object %d: implementation has %r, model has %r (container paths equal: %s)' % (
                    i, da[:4], db[:4], a[0] == b[0])
        return 'sharing of nested containers: implementation %r, model %r' % (ci[1][:4], cmo[1][:4])
    if sys_impl is not None:
        sys_model = [] if stxt == '-' else [int(x) for x in stxt.split(',')]
        if sys_model != list(sys_impl):
            return 'sys.path after the case: implementation %r, model %r' % (
                [_CT['vals'].get(c) for c in sys_impl[:4]], [_CT['vals'].get(c) for c in sys_model[:4]])
    return None


def _apply_writes(ref, writes):
    for path, k, v in writes:
        d = ref
        for p in path:
            d = d[p]
        if not isinstance(d, dict):
            raise TypeError('not a dict')
        d[k] = v


def o_config(ctx, case):
    """reference: every configuration is an independent deep-copied plain dict"""
    M = _all_mutators()
    with CfgRun(case) as r:
        cm = r.cm
        F = r.F
        base_snapshot = copy.deepcopy(F['base0'])
        users = [mk() for mk in F['user']]
        users_snapshot = copy.deepcopy(users)
        cfgs, refs = [], []
        yaml_path = '/tmp/C20_cfg_%d.yaml' % os.getpid()
        yaml_dict = {'debugging': {'enable_tracing': False, 'log_format': 'y'}, 'multiproc': {'ncpu': 3},
                     'project': {'working_directory': '.'}}
        if not os.path.exists(yaml_path):
            import yaml
            with open(yaml_path, 'w') as f:
                yaml.safe_dump(yaml_dict, f)
        for mode in case['create']:
            ref = copy.deepcopy(base_snapshot)
            if mode == 'new':
                c = cm.Config()
            elif mode in ('fd0', 'fd1'):
                c = cm.Config.from_dict(users[int(mode[2])])
                ref.update(copy.deepcopy(users_snapshot[int(mode[2])]))
            elif mode == 'yamlN':
                c = cm.Config.from_yaml(None)
            else:
                c = cm.Config.from_yaml(yaml_path)
                ref.update(copy.deepcopy(yaml_dict))
            if dict(c) != ref:
                return 'a new configuration (created %r, this one by %s) differs from base configuration + user dictionary at %s' % (
                    case['create'], mode, _diff(dict(c), ref))
            cfgs.append(c)
            refs.append(ref)
        for step, (which, mname) in enumerate(case['edits']):
            fn, writes, ref_fn = M[mname]
            try:
                fn(cfgs[which])
                got = 'ok'
            except Exception as e:  # noqa
                got = 'E:' + type(e).__name__
            try:
                if writes is None:
                    ref_fn(refs[which])
                else:
                    _apply_writes(refs[which], writes)
                want = 'ok'
            except Exception as e:  # noqa
                want = 'E:' + type(e).__name__
            what = 'after %s on configuration %d (created %r, edits %r)' % (mname, which, case['create'], case['edits'][:step + 1])
            if got != want:
                return '%s: result %s, expected %s' % (what, got, want)
            for i, (c, ref) in enumerate(zip(cfgs, refs)):
                if dict(c) != ref:
                    return '%s: configuration %d (%s) differs from its own edit history at %s' % (
                        what, i, 'the edited one' if i == which else 'not the edited one', _diff(dict(c), ref))
                def _try(f):
                    try:
                        return ('V', f())
                    except Exception as e:  # noqa
                        return ('E', type(e).__name__)
                if _try(lambda: c.is_tracing_enabled) != _try(lambda: ref['debugging']['enable_tracing']):
                    return '%s: is_tracing_enabled of configuration %d is stale' % (what, i)
            fresh = dict(cm.Config())
            if fresh != base_snapshot:
                return '%s: the module level base configuration changed (a fresh Config() differs) at %s' % (
                    what, _diff(fresh, base_snapshot))
            if users != users_snapshot:
                return '%s: the user dictionary given to from_dict changed at %s' % (what, _diff(users, users_snapshot))
    return None


def _diff(a, b, path=''):
    if isinstance(a, dict) and isinstance(b, dict):
        for k in list(a.keys()) + [k for k in b.keys() if k not in a]:
            if k not in a or k not in b:
                return '%s[%r] (only on one side)' % (path, k)
            d = _diff(a[k], b[k], '%s[%r]' % (path, k))
            if d:
                return d
        return None
    if isinstance(a, list) and isinstance(b, list) and len(a) == len(b):
        for i, (x, y) in enumerate(zip(a, b)):
            d = _diff(x, y, '%s[%d]' % (path, i))
            if d:
                return d
        return None
    return None if a == b else '%s: %r vs %r' % (path, a, b)


# ------------------------------------------------------------------------------------------
# correspondence replay (model vs implementation on one stored case)

# ------------------------------------------------------------------------------------------
# round 7: navigation outcomes of the Config methods on a shape (`mok`), writes that allocate (`xw`)

def mok_impl(case):
    """-> (request line, implementation answer | None, error text | None)"""
    from harness import c20_r7_fixtures as r7
    F = cfg_fixtures()
    E = dict(r7.shape_edits())
    with CfgRun({'create': [], 'edits': []}):
        c = F['mod'].Config()
        for e in case['edits']:
            try:
                E[e](c)
            except (KeyError, TypeError, AttributeError):
                pass     # the section the edit addresses is gone / a scalar: the edit is skipped
        dicts, leaves = flatten(c, _Table(1))
        flags, err = r7.impl_methods_ok(c, F['units'])
    line = 'mok ' + _enc_cfg(dicts, leaves)
    return line, (None if flags is None else ''.join(str(f) for f in flags)), err


def xw_impl(case):
    """-> (request line, per-op results of the implementation, canonical final world, reference check text | None)"""
    from harness import c20_r7_fixtures as r7
    F = cfg_fixtures()
    with CfgRun({'create': [], 'edits': []}) as r:
        base = r.base()
        cfgs = r7.xw_world(F['mod'], F['user'])
        refs = [copy.deepcopy(dict(c)) for c in cfgs]
        base0 = copy.deepcopy(base)
        lt = _Table(1)
        init = [flatten(x, lt) for x in cfgs]
        res, toks, bad = [], [], None
        for grp in _canon_world(init)[1]:
            if len(set(ci for ci, _ in grp)) > 1:
                bad = ('configurations made by Config() / from_dict (two of them from one user dictionary) share a container: '
                       '%r' % ([(ci, [_CT['kt'].d and next((k for k, c_ in _CT['kt'].d.items() if c_ == x), x) for x in pth])
                                for ci, pth in grp][:4],))
                break
        for step, op in enumerate(case['ops']):
            kind, j, path, k, v = op
            out = r7.xw_apply(cfgs, op)
            ref_out = r7.xw_apply(refs, op)
            enc = lambda o: o if isinstance(o, str) and (o == 'ok' or o.startswith('E:')) else (  # noqa
                'cont' if isinstance(o, (dict, list)) else 'v%d' % vcode(o))
            res.append(enc(out))
            if bad is None and enc(out) != enc(ref_out):
                bad = 'step %d (%s through configuration %d): the configuration answers %s, an independent dictionary %s' % (
                    step, kind, j, enc(out), enc(ref_out))
            if bad is None:
                for i, (c, ref) in enumerate(zip(cfgs, refs)):
                    if dict(c) != ref:
                        bad = ('step %d (%s at %r[%r] through configuration %d): configuration %d is %s' % (
                            step, kind, path, k, j, i, 'not the edited one and changed' if i != j else
                            'the edited one and differs from the reference: ' + _diff(dict(c), ref)))
                        break
                if bad is None and base != base0:
                    bad = 'step %d: the base configuration changed' % step
            pp = _enc_path([kcode(x) for x in path])
            toks.append('%s:%d:%s:%d' % (kind, j, pp, kcode(k)) + (':%d' % vcode(v) if kind in ('sdv', 'set') else ''))
        final = [flatten(x, lt) for x in cfgs]
    line = 'xw %s %s' % ('|'.join(_enc_cfg(d, l) for d, l in init), ' '.join(toks))
    return line, res, _canon_world(final), bad


def xw_compare(res, canon_impl, answer):
    toks = answer.split(' ')
    if toks[0] != 'inv=1':
        raise MachineryError('C20: the initial world of an allocating-write case shares containers: ' + toks[0])
    body, wtok = toks[1:-1], toks[-1]
    for t in body:
        if t.split('#')[1] != '1':
            raise MachineryError('C20: allocating write: world semantics / specification / invariant of the Lean model disagree: ' + t)
    mres = [t.split('#')[0] for t in body]
    if mres != res:
        k = [i for i, (a, b) in enumerate(zip(res, mres)) if a != b][0]
        return 'allocating-write history, call %d: implementation %r, model %r' % (k, res[k], mres[k])
    canon_model = _canon_world(_parse_cfg_world(wtok[2:]))
    if canon_model != canon_impl:
        return 'allocating-write history: final content / container sharing differs: implementation %r, model %r' % (
            canon_impl[1][:4], canon_model[1][:4])
    return None


def o_config_alloc(ctx, case):
    """implementation only: `d[k] = {}` / `setdefault` through one configuration vs independent plain dictionaries"""
    return xw_impl(case)[3]


def o_corr(ctx, case):
    k = case['kind']
    if k == 'mok':
        line, impl, err = mok_impl(case)
        if err:
            return err
        ans = cfg_batch(ctx, [line])[0].split(' ')[0]
        return None if ans == impl else 'navigation outcomes of the methods after %r: implementation %s, model %s' % (
            case['edits'], impl, ans)
    if k == 'xw':
        line, res, canon, _ = xw_impl(case)
        return xw_compare(res, canon, cfg_batch(ctx, [line])[0])
    if k == 'coll':
        ops = case['ops']
        impl, _ = impl_hist(ops)
        ans = ctx.driver('C20', ['coll a ' + ' '.join(enc_op(o) for o in ops)])[0]
        for step, (i, (m, agree)) in enumerate(zip(impl, model_tokens(ans))):
            if i != m:
                return 'collection history %s: step %d implementation %s, model %s' % (
                    ' '.join(enc_op(o) for o in ops), step, i, m)
        return None
    if k == 'cfg':
        with CfgRun(case) as r:
            line, results, canon, sys1 = r.run()
        return cfg_compare(case, results, canon, cfg_batch(ctx, [line])[0], sys_impl=sys1)
    if k == 'stage':
        req, impl = _stage_lines(case)
        ans = ctx.driver('C20', req)
        return None if ans == impl else 'stage check %r: implementation %r, model %r' % (case, impl, ans)
    if k == 'dsc':
        req, impl = dsc_lines(case['ops'])
        ans = ctx.driver('C20', [req])[0]
        model = ' '.join('#'.join(t.split('#')[:2]) for t in ans.split(' '))
        return None if model == impl else 'DatasetCollection history %r: implementation %s, model %s' % (case['ops'], impl, model)
    if k == 'pdfset-hist':
        req, impl = pdfset_hist_lines(case['ops'])
        ans = ctx.driver('C20', [req])[0]
        return None if ans == impl else 'PDFSet history %r: implementation %s, model %s' % (case['ops'], impl, ans)
    if k == 'pdfset':
        req, impl = _pdfset_line(case)
        ans = ctx.driver('C20', [req])[0]
        return None if ans == impl else 'PDFSet %r: implementation %r, model %r' % (case, impl, ans)
    raise ValueError(k)


def _stage_arg(masks, form):
    """the `stages` argument in the requested Python form"""
    import numpy as np
    if form == 'int':
        return masks
    if form == 'bool':
        return bool(masks)
    if form == 'npint':
        return np.int64(masks)
    if form == 'tuple':
        return tuple(masks)
    if form == 'set':
        return set(masks)
    if form == 'ndarray':
        return np.array(masks, dtype=np.int64)
    return list(masks)


def _stage_lines(case):
    from skyllh.core.datafields import DataFieldStages as DFS, DataFields
    stage, masks, form = case['stage'], case['masks'], case.get('form', 'int')
    arg = _stage_arg(masks, form)
    st = _enc_stages(masks, form)
    req = ['and %d %s' % (stage, st), 'or %d %s' % (stage, st)]
    def b(f):
        try:
            return '1' if f(stage, arg) else '0'
        except TypeError:
            return 'E'
        except Exception as e:  # noqa
            return 'X:' + type(e).__name__
    impl = [b(DFS.and_check), b(DFS.or_check)]
    if case.get('fields') is not None:
        fields = case['fields']
        d = collections.OrderedDict((n, s) for n, s in fields)
        req.append('joint %s %s' % (','.join('%d:%d' % (int(n[1:]), s) for n, s in fields) or '-', st))
        try:
            impl.append(_lst(int(n[1:]) for n in DataFields.get_joint_names(d, arg)))
        except TypeError:
            impl.append('E')
        except Exception as e:  # noqa
            impl.append('X:' + type(e).__name__)
    return req, impl


def _pdfset_line(case):
    """add d1, get d2, add d2, get d2 with a neighbouring value, get d2 with a renamed key"""
    f = _pdf_fixtures()
    d1, d2 = mk_gdict(case['d1']), mk_gdict(case['d2'])
    d3, d4 = [mk_gdict(it) for it in _changed(case['d2'])]
    req = 'pdfset a:%s:1 g:%s a:%s:2 g:%s g:%s' % tuple(enc_gdict(d) for d in (d1, d2, d2, d3, d4))
    s = mk_pdfset()
    pdfs = {1: f['Stub'](cfg=f['cfg']), 2: f['Stub'](cfg=f['cfg'])}
    back = {id(p): n for n, p in pdfs.items()}
    out = []
    for op, d, p in (('a', d1, 1), ('g', d2, None), ('a', d2, 2), ('g', d3, None), ('g', d4, None)):
        try:
            if op == 'a':
                s.add_pdf(pdfs[p], d)
                out.append('ok')
            else:
                out.append(str(back.get(id(s.get_pdf(d)), 99)))
        except KeyError:
            out.append('E')
        except Exception as e:  # noqa
            out.append('X:' + type(e).__name__)
    return req, ' '.join(out)


GD_POOL = [
    [['gamma', ['float', 1.0]]],
    [['gamma', ['int', 1]]],
    [['gamma', ['float', 2.0]], ['E0', ['float', 1.0]]],
    [['E0', ['np32', 1.0]], ['gamma', ['npint', 2]]],
    [['gamma', ['float', 2.0]], ['E0', ['next', 1.0]]],
    [['gamma', ['str', 'a']]],
    [],
    [['sigma', ['float', 0.0]]],
    [['sigma', ['float', -0.0]]],
]


def gen_pdfset_hist(rng, n):
    ops = []
    for _ in range(n):
        r = rng.random()
        d = rng.randrange(len(GD_POOL))
        if r < 0.35:
            ops.append(['a', d, len(ops) + 1, rng.choice([0, 0, 0, 1])])
        elif r < 0.40:
            ops.append(['an', d])
        elif r < 0.45:
            ops.append(['ao', len(ops) + 1])
        elif r < 0.60:
            ops.append([rng.choice(['gd', 'gk']), d])
        elif r < 0.64:
            ops.append(['go'])
        elif r < 0.78:
            ops.append([rng.choice(['c', 'ck']), d])
        elif r < 0.82:
            ops.append(['co'])
        elif r < 0.90:
            ops.append([rng.choice(['mh', 'mhn', 'mho'])] + ([d] if False else []))
            if ops[-1][0] == 'mh':
                ops[-1].append(d)
        else:
            ops.append(['vals'])
    return ops


def pdfset_hist_lines(ops):
    """the entry points of PDFSet with every argument form -> (driver request, implementation answers)"""
    from skyllh.core.py import make_dict_hash
    from skyllh.core.pdf import PDFAxis
    f = _pdf_fixtures()
    s = mk_pdfset()
    number = {}
    toks, out = [], []
    for op in ops:
        k = op[0]
        d = mk_gdict(GD_POOL[op[1]]) if len(op) > 1 and k not in ('ao',) else None
        try:
            if k == 'a':
                pdf = f['Stub'](cfg=f['cfg'])
                if op[3]:
                    pdf.add_axis(PDFAxis('x', 0, 1))
                number[id(pdf)] = op[2]
                toks.append('a:%s:%d:%d' % (enc_gdict(d), op[2], op[3]))
                s.add_pdf(pdf, d)
                d['modified-after-add'] = 1.0      # the dictionary handed in is the caller's: the key must not follow it
                r = 'ok'
            elif k == 'an':
                toks.append('an:%s' % enc_gdict(d))
                s.add_pdf(object(), d)
                r = 'ok'
            elif k == 'ao':
                toks.append('ao:%d' % op[1])
                s.add_pdf(f['Stub'](cfg=f['cfg']), [1, 2])
                r = 'ok'
            elif k in ('gd', 'gk', 'go'):
                toks.append('go' if k == 'go' else '%s:%s' % (k, enc_gdict(d)))
                arg = 3.5 if k == 'go' else (d if k == 'gd' else s.make_key(d))
                r = str(number.get(id(s.get_pdf(arg) if k != 'gk' or op[1] % 2 else s[arg]), 99))
            elif k in ('c', 'ck', 'co'):
                toks.append('co' if k == 'co' else '%s:%s' % (k, enc_gdict(d)))
                arg = 'x' if k == 'co' else (d if k == 'c' else s.make_key(d))
                r = '1' if arg in s else '0'
            elif k == 'mh':
                toks.append('mh:%s' % enc_gdict(d))
                make_dict_hash(d)
                r = 'ok'
            elif k == 'mhn':
                toks.append('mhn')
                r = 'ok' if make_dict_hash(None) == make_dict_hash({}) else 'differs'
            elif k == 'mho':
                toks.append('mho')
                make_dict_hash('x')
                r = 'ok'
            elif k == 'vals':
                toks.append('vals')
                r = _lst(number.get(id(p_), 99) for p_ in s.values())
                if [s[key] for key in s.pdf_keys] != list(s.values()) or [key for key in s] != s.pdf_keys:
                    r += '!keys-values-order'
                ks = s.pdf_keys
                ks.append(0)
                if len(s.pdf_keys) != len(ks) - 1:
                    r += '!pdf_keys-is-live'
            else:
                raise MachineryError('C20: unknown PDFSet op %r' % (op,))
        except MachineryError:
            raise
        except Exception as e:  # noqa
            r = 'E:' + type(e).__name__
        out.append(r)
    return 'pdfset ' + ' '.join(toks), ' '.join(out)


def dsc_lines(ops):
    """DatasetCollection history -> (driver request, implementation answers: result#sorted names per step)"""
    from skyllh.core.dataset import Dataset, DatasetCollection
    cfg = _pdf_fixtures()['cfg']
    ds = [Dataset(cfg=cfg, name='d%d' % (i % 4), exp_pathfilenames=None, mc_pathfilenames=None, livetime=1.0,
                  default_sub_path_fmt='x', version=1) for i in range(6)] + [object()]
    ident = {id(d): i for i, d in enumerate(ds)}
    enc = lambda i: '%d.%d.%d' % (i, i % 4 if i < 6 else 9, 1 if i < 6 else 0)  # noqa
    dc = DatasetCollection('c')
    toks, out = [], []
    for op in ops:
        k = op[0]
        try:
            if k in ('add', 'iadd'):
                idxs = op[1] if isinstance(op[1], list) else [op[1]]
                toks.append('a:%s' % (';'.join(enc(i) for i in idxs) or '-'))
                arg = [ds[i] for i in op[1]] if isinstance(op[1], list) else ds[op[1]]
                if len(op) > 2 and op[2] == 't' and isinstance(arg, list):
                    arg = tuple(arg)
                if k == 'add':
                    dc.add_datasets(arg)
                else:
                    dc += arg
                r = 'ok'
            elif k == 'remove':
                toks.append('r:%d' % op[1])
                dc.remove_dataset('d%d' % op[1])
                r = 'ok'
            elif k == 'get':
                toks.append('g:%d' % op[1])
                r = str(ident.get(id(dc['d%d' % op[1]] if op[1] % 2 else dc.get_dataset('d%d' % op[1])), 99))
            else:
                raise MachineryError('C20: unknown dataset op %r' % (op,))
        except MachineryError:
            raise
        except Exception as e:  # noqa
            r = 'E:' + type(e).__name__
        out.append('%s#%s' % (r, _lst(int(n[1:]) for n in dc.dataset_names)))
    return 'dsc ' + ' '.join(toks), ' '.join(out)


def _valclass(spec):
    return spec[0]


def gen_dict_cases(ctx):
    """(a) every insertion order x lookup order of 1..4 entries, the lookup dictionary holding the same numbers
    in other Python types; (b) every ordered pair of the value pool under one key; (c) random two-key mixes"""
    cases = []
    alts = [['float'], ['np64'], ['int'], ['np32'], ['npint']]
    n_alt = 0
    for n in range(1, 5):
        for vals in ([1.0, 2.0, 1.5, 3.0][:n], [2.0] * n):
            for o1 in itertools.permutations(range(n)):
                for o2 in itertools.permutations(range(n)):
                    d1 = [[KEYS[i], ['float', vals[i]]] for i in o1]
                    d2 = []
                    for i in o2:
                        t = alts[n_alt % len(alts)][0]
                        n_alt += 1
                        if t in ('int', 'npint') and vals[i] != int(vals[i]):
                            t = 'np64'
                        d2.append([KEYS[i], [t, int(vals[i]) if t in ('int', 'npint') else vals[i]]])
                    if n < 4 or ctx.thorough or n_alt % 3 == 0:      # quick: a third of the 2 x 576 order pairs of 4 entries
                        cases.append({'kind': 'pdfset', 'd1': d1, 'd2': d2, 'cls': 'orders:n=%d' % n})
    for v1 in VAL_POOL:
        for v2 in VAL_POOL:
            cases.append({'kind': 'pdfset', 'd1': [['gamma', v1]], 'd2': [['gamma', v2]], 'cls': 'value-pair'})
    for _ in range(ctx.n(150, 1500)):
        a, b, c, d = (ctx.rng.choice(VAL_POOL) for _ in range(4))
        d1 = [['gamma', a], ['E0', b]]
        d2 = [['E0', ctx.rng.choice([b, d])], ['gamma', ctx.rng.choice([a, c])]]
        cases.append({'kind': 'pdfset', 'd1': d1, 'd2': d2, 'cls': 'two-key-mix'})
    return cases


ORACLES = {'has_config': o_has_config, 'config_alloc': o_config_alloc, 'dataset_coll': o_dataset_coll, 'config_queries': o_config_queries, 'stage_consts': o_stage_consts, 'coll_hist': o_coll_hist, 'plain_plus': o_plain_plus, 'hash_order': o_hash_order, 'stage': o_stage,
           'config': o_config, 'corr': o_corr}


# ------------------------------------------------------------------------------------------
# generators

SETUP = [['N', 0], ['N', 0], ['A', 1, 3], ['A', 1, 4]]     # collection 0 = A (empty), collection 1 = B = [o3, o4]


_EMPTY_OK = []


def empty_seq_accepted():
    """does the implementation accept `coll.add([])` (True) or raise TypeError (False, current code)?"""
    if not _EMPTY_OK:
        cw = CollWorld()
        cw.do(['N', 0])
        r = cw.do(['S', 0, []])
        if r not in ('ok', 'E:TypeError'):
            raise MachineryError('C20: add([]) on an empty collection gives %s' % r)
        _EMPTY_OK.append(r == 'ok')
    return _EMPTY_OK[0]


def alphabet(j, ids, b_ids, unique):
    names_in = [POOL[o][0] for o in ids]
    n = len(ids)
    ops = []
    for o in ([0, 1, 2, 3, 4] if unique else [0, 1, 2, 3, 4, 5, 6]):
        if unique and POOL[o][0] in names_in:
            continue
        ops += [['A', j, o], ['A', j, o, 'i'], ['+A', j, o]]
    ops += [['P', j, None]] + [['P', j, i] for i in range(n + 1)] + [['P', j, i] for i in sorted({-1, -2, -n, -n - 1})]
    ops += [['Q', j, c] for c in (0, 1, 2, 3, 4, UNKNOWN_NAME)]
    if not unique or not set(POOL[o][0] for o in b_ids) & set(names_in):
        ops += [['C', j, 1], ['C', j, 1, 'i'], ['+C', j, 1]]
    if not unique or n == 0:
        ops += [['C', j, j], ['+C', j, j]]
    free = [o for o in (0, 1, 2, 3, 4) if POOL[o][0] not in names_in]
    if len(free) >= 1:
        ops += [['S', j, free[:1], 't'], ['+S', j, free[:1]]]
    if len(free) >= 2:
        ops += [['S', j, free[:2]], ['+S', j, free[:2], 't'], ['S', j, free[:2], 'i']]
    if len(free) >= 3:
        ops += [['S', j, free[:3], 't'], ['+S', j, free[:3]]]
    if not empty_seq_accepted():
        ops += [['S', j, []], ['+S', j, []]]
    if not unique:
        ops += [['S', j, [0, 0]], ['S', j, [1, 6]], ['+S', j, [6, 6]], ['A', j, 6], ['C', j, j, 'i']]
        # a subclass instance, mixed sequences in both orders (the first element decides), object ndarray,
        # index given as bool / numpy integer / float
        ops += [['A', j, 7], ['+A', j, 7], ['S', j, [1, 7], 'a'], ['S', j, [7, 1]], ['+S', j, [7, 7], 'a'],
                ['P', j, 1, 'bool'], ['P', j, 0, 'np'], ['P', j, -1, 'np'], ['P', j, 0, 'float']]
    return ops


_SCALARS = (int, float, str, bool, type(None), type)


def _state_key(cw, cur):
    """what the future behaviour of the current collection can depend on: its instance attributes (containers
    by content, scalars by value, anything else by its type only — no addresses), the public dump, the
    sharing flags and the fixed operand"""
    c = cw.world[cur]
    items = []
    try:
        attrs = sorted(vars(c).items())
    except TypeError:
        attrs = []
    for k, v in attrs:
        if isinstance(v, (list, tuple)):
            v = [cw.ident.get(id(o), type(o).__name__) for o in v]
        elif isinstance(v, dict):
            v = [(repr(a) if isinstance(a, _SCALARS) else type(a).__name__,
                  repr(b) if isinstance(b, _SCALARS) else type(b).__name__) for a, b in v.items()]
        elif not isinstance(v, _SCALARS):
            v = type(v).__name__
        items.append((k, repr(v)))
    oc, ic = sharing(cw.world)
    alias_o = any(oc[i] == oc[cur] for i in range(len(oc)) if i != cur)
    alias_i = any(ic[i] == ic[cur] for i in range(len(ic)) if i != cur)
    return repr((items, cw.dump_coll(c, 0, 0), alias_o, alias_i, cw.dump_coll(cw.world[1], 1, 1)))


def _chains(full, cw, op):
    """histories that go on after a successful `+`: in-place operations alternately on the result and on the
    left operand (and the right one), every step compared with the model and the reference"""
    j, r = op[1], len(cw.world) - 1
    used = set(cw.ident.get(id(o)) for c in cw.world for o in c.objects)
    free = [o for o in (0, 1, 2, 3, 4) if o not in used and POOL[o][0] not in [POOL[u][0] for u in used if u in POOL]]
    f1 = free[0] if free else 0
    f2 = free[1] if len(free) > 1 else f1
    k = op[2] if op[0] == '+C' else j
    first_name = POOL[f1][0]
    ch1 = [['A', r, f1], ['A', j, f2, 'i'], ['P', r, 0], ['Q', j, POOL[f2][0]], ['P', k, None], ['C', r, j], ['P', j, -1]]
    ch2 = [['A', j, f1, 'i'], ['P', r, None], ['S', r, [f2], 't'], ['P', j, 0], ['Q', r, first_name], ['+A', r, f1], ['A', k, f2]]
    return [full + ch1, full + ch2]


def bfs_cases(ctx, depth, unique, max_states=None, chain_prefix=0):
    """every (reachable internal state, operation) pair with histories of length <= depth: because the
    behaviour of a collection is a function of its instance attributes (the dedup key) this covers all
    operation sequences up to that length.  After a successful `+` reached with at most `chain_prefix`
    earlier calls the history is continued on result and operands (`_chains`), whatever the dedup says."""
    cases, chains = [], []
    _, cw = impl_hist(SETUP)
    seen = {_state_key(cw, 0)}
    frontier = [([], 0)]
    for d in range(depth):
        nxt = []
        for ops, cur in frontier:
            _, cw0 = impl_hist(SETUP + ops)
            ids = [cw0.ident.get(id(o), 99) for o in cw0.world[cur].objects]
            b_ids = [cw0.ident.get(id(o), 99) for o in cw0.world[1].objects]
            for op in alphabet(cur, ids, b_ids, unique):
                full = SETUP + ops + [op]
                out, cw = impl_hist(full, all_steps=False)
                cases.append((full, out[0]))
                if op[0][0] == '+' and out[0].startswith('coll:') and len(ops) <= chain_prefix:
                    chains += _chains(full, cw, op)
                if d + 1 < depth and not out[0].startswith('E:'):
                    ncur = len(cw.world) - 1 if op[0][0] == '+' else cur
                    key = _state_key(cw, ncur)
                    if key not in seen and (max_states is None or len(seen) < max_states):
                        seen.add(key)
                        nxt.append((ops + [op], ncur))
        frontier = nxt
    return cases, len(seen), chains


def random_hist(rng, length, unique_bias):
    ops = [['N', 0], ['N', 0]]
    if rng.random() < 0.5:
        ops.append(['N', 1])
    if rng.random() < 0.4:
        ops.append(['N', 2])
    if rng.random() < 0.6:     # a collection made by the constructor: type given / inferred, all argument forms
        form = rng.choice(['n', 's', 'q', 't', 'a'])
        objs = [rng.choice([0, 1, 2, 3, 4, 5, 6, 7]) for _ in range(rng.randrange(0, 4))]
        if form == 's' and not objs:
            form = 'n'
        if form == 'a' and not objs:
            form = 'q'
        if form == 's':
            objs = objs[:1]
        ty = rng.choice([None, None, 0, 0, 1, 2, 3])
        if rng.random() < 0.15:      # directed: type inferred from the first element, a later one is foreign
            ty, form, objs = None, rng.choice(['q', 't']), [rng.choice([0, 7]), 6]
        ops.append(['K', ty, form, objs if form != 'n' else []])
    cw = CollWorld()
    for op in ops:
        cw.do(op)
    for _ in range(length):
        n = len(cw.world)
        j = rng.randrange(n)
        r = rng.random()
        pool = [0, 1, 2, 3, 4] if rng.random() < unique_bias else [0, 1, 2, 3, 4, 5, 6, 7]
        if r < 0.35:
            op = [rng.choice(['A', 'A', '+A']), j, rng.choice(pool)]
        elif r < 0.45:
            op = [rng.choice(['C', '+C']), j, rng.randrange(n)]
        elif r < 0.55:
            op = [rng.choice(['S', '+S']), j, [rng.choice(pool) for _ in range(rng.randrange(1 if empty_seq_accepted() else 0, 4))]]
        elif r < 0.8:
            op = ['P', j, rng.choice([None, None, -1, 0, 1, 2, 3, -2, 7])]
            if op[2] is not None and rng.random() < 0.3:
                form = rng.choice(['bool', 'np', 'float'])
                op = ['P', j, rng.choice([0, 1]) if form == 'bool' else op[2], form]
        elif r < 0.93:
            op = ['Q', j, rng.choice([0, 1, 2, 3, 4, 6, UNKNOWN_NAME])]
        else:
            op = ['Y', j]
        if op[0] in ('A', 'C', 'S') and rng.random() < 0.4:
            op.append('i')
        if op[0] in ('S', '+S') and op[2] and rng.random() < 0.5:
            form = rng.choice(['t', 'a'])
            if len(op) > 3:
                op[3] += form
            else:
                op.append(form)
        if (op[0][0] == '+' or op[0] == 'Y') and n >= 6:
            continue
        cw.do(op)
        ops.append(op)
    return ops


# ------------------------------------------------------------------------------------------

def _sharing_copy(mode):
    """a `copy()` that shares the name index ('i'), the object list ('o') or both ('b') with the original —
    written without any attribute name: copy.copy(self) shares everything, then lists / dicts are re-copied"""
    def cp(self):
        oc = copy.copy(self)
        for k, v in list(vars(oc).items()):
            if isinstance(v, list) and mode == 'i':
                setattr(oc, k, list(v))
            if isinstance(v, dict) and mode == 'o':
                setattr(oc, k, copy.copy(v))
        return oc
    return cp


NEG_HISTS = [
    [['N', 0], ['+C', 0, 0]],                                              # empty + empty: nothing to pollute
    [['N', 0], ['A', 0, 0], ['N', 0], ['+C', 0, 1]],                        # [o0] + empty
    [['N', 0], ['A', 0, 0], ['+A', 0, 1], ['A', 1, 2], ['P', 0, None]],
    [['N', 0], ['A', 0, 0], ['A', 0, 1], ['+A', 0, 2], ['Q', 1, 0], ['A', 0, 3], ['P', 1, 0], ['A', 1, 4, 'i']],
    [['N', 0], ['N', 0], ['A', 1, 3], ['+C', 0, 1], ['A', 2, 0], ['A', 0, 1], ['Q', 2, 3]],
]


def negative_model_selftest(ctx):
    """The world semantics must be able to *see* sharing: the real class with an in-memory `copy()` that shares
    index / list / both is compared with the negative models copyShareIdx / copyShareList / copyShareBoth
    (Props: c20_shared_index_counterexample, c20_shared_list_counterexample), and the pinned shallow
    `Config.from_dict` with `cstepOld` (c20_from_dict_old_counterexample).  A disagreement is a fault of the
    machinery (blind probe or wrong location model), not a verdict about skyllh."""
    from skyllh.core.py import NamedObjectCollection as NOC
    had = 'copy' in vars(NOC)
    orig = vars(NOC).get('copy')
    reqs, checks = [], []          # one driver call for the whole self-test
    hist_txt = [' '.join(enc_op(o) for o in h) for h in NEG_HISTS]
    reqs += ['collx f ' + t for t in hist_txt]
    for mode in ('i', 'o', 'b'):
        try:
            NOC.copy = _sharing_copy(mode)
            impls = [impl_hist(h)[0] for h in NEG_HISTS]
        finally:
            if had:
                NOC.copy = orig
            else:
                del NOC.copy
        for n, (t, impl) in enumerate(zip(hist_txt, impls)):
            checks.append(('coll', mode, n, impl, len(reqs)))
            reqs.append('collx %s %s' % (mode, t))
    F = cfg_fixtures()
    cm = F['mod']
    orig_fd = vars(cm.Config)['from_dict']

    def shallow(cls, user_dict):
        cfg = cls()
        cfg.update(user_dict)
        return cfg
    for case in ({'create': ['fd0', 'fd0'], 'edits': [[0, 'enable_tracing'], [1, 'set_ncpu_4']]},
                 {'create': ['fd1', 'new', 'fd1'], 'edits': [[2, 'item_top_new'], [0, 'enable_tracing']]}):
        try:
            cm.Config.from_dict = classmethod(shallow)
            with CfgRun(case) as r:
                line, results, canon, _ = r.run(fd_op='fdold', queries=False)
        finally:
            cm.Config.from_dict = orig_fd
        checks.append(('cfg', case, results, canon, len(reqs)))
        reqs.append(line)
    # class level memo of the conversion factors keyed by the requested unit only (seeded change C20_m3b) vs `memoTime`
    u = F['units']
    orig_titu = vars(cm.Config)['to_internal_time_unit']
    memo = {}

    def titu_memo(self, time_unit):
        if time_unit not in memo:
            memo[time_unit] = time_unit.to(self['units']['internal']['time'])
        return memo[time_unit]
    try:
        cm.Config.to_internal_time_unit = titu_memo
        with CfgRun({'create': ['new', 'new'], 'edits': []}) as r:
            a_, b_ = cm.Config(), cm.Config()
            b_['units']['internal']['time'] = u.day
            got = []
            for c_, un in ((a_, u.day), (b_, u.day), (b_, u.s), (a_, u.s)):
                got.append('v%d' % vcode(c_.to_internal_time_unit(un)))
            lt_ = _Table(1)
            yaml_dict = _yaml_fixture()[1]
            world0 = [r.base()] + [mk() for mk in F['user']] + [yaml_dict]
            nfix = len(world0)
            line = 'cfg %s new new %s mq:%d:%d mq:%d:%d mq:%d:%d mq:%d:%d' % (
                '|'.join(_enc_cfg(*flatten(x, lt_)) for x in world0),
                _enc_call(nfix + 1, ('set', ('units', 'internal'), 'time', u.day)),
                nfix, vcode(u.day), nfix + 1, vcode(u.day), nfix + 1, vcode(u.s), nfix, vcode(u.s))
    finally:
        cm.Config.to_internal_time_unit = orig_titu
    checks.append(('memo', got, None, None, len(reqs)))
    reqs.append(line)
    for d1, d2 in (([['gamma', ['float', 1.0]], ['E0', ['float', 2.0]]], [['E0', ['float', 2.0]], ['gamma', ['float', 1.0]]]),
                   ([['gamma', ['float', 1.0]]], [['gamma', ['float', 1.0]]])):
        a, b = mk_gdict(d1), mk_gdict(d2)
        checks.append(('hash', 'old:%d' % (1 if hash(tuple(a.items())) == hash(tuple(b.items())) else 0), None, None, len(reqs)))
        reqs.append('hkey %s %s' % (enc_gdict(a), enc_gdict(b)))
    def check(answers):
        fixed = [[t for t, _ in model_tokens(a)] for a in answers[:len(NEG_HISTS)]]
        for chk in checks:
            if chk[0] == 'coll':
                _, mode, n, impl, pos = chk
                for step, (i, (m, _)) in enumerate(zip(impl, model_tokens(answers[pos]))):
                    if i != m:
                        raise MachineryError('C20 self-test: sharing copy %r, history %s, step %d: real class %s, negative model %s' % (
                            mode, hist_txt[n], step, i, m))
                if n == 0 and fixed[0] == impl:
                    raise MachineryError('C20 self-test: sharing copy %r is invisible on `empty + empty`' % mode)
                ctx.count('selftest:negative-model:' + mode)
            elif chk[0] == 'memo':
                model = [t.split('#')[0] for t in answers[chk[4]].split(' ')[-4:]]
                if model != chk[1] or len(set(chk[1][:2])) != 1:
                    raise MachineryError('C20 self-test: class level memo: real class %r, negative model %r' % (chk[1], model))
                ctx.count('selftest:negative-model:time-memo')
            elif chk[0] == 'cfg':
                _, case, results, canon, pos = chk
                d = cfg_compare(case, results, canon, answers[pos], spec_must_agree=False)
                if d:
                    raise MachineryError('C20 self-test: shallow from_dict vs cstepOld: ' + d)
                ctx.count('selftest:negative-model:from_dict')
            else:
                if answers[chk[4]].split(' ')[1] != chk[1]:
                    raise MachineryError('C20 self-test: hashKeyOld vs hash(tuple(items)): %s, %s' % (answers[chk[4]], chk[1]))
                ctx.count('selftest:negative-model:tuple-hash')
    return reqs, check


def _res_class(r):
    """result of a call reduced to its branch: ok / value / the exception class"""
    r = str(r)
    if r.startswith('E:') or r.startswith('X:'):
        return r[2:]
    if r == 'E':
        return 'TypeError'
    return 'ok'


def coll_tag(op):
    """the branch of the collection model an operation takes (before its outcome)"""
    k = op[0]
    flag = str(op[3]) if len(op) > 3 and isinstance(op[3], str) else ''
    if k in ('A', '+A'):
        t = 'addObj' if k == 'A' else 'plusObj'
        if k == 'A' and POOL[op[2]][1] == 2:
            t += '.subclass'
        elif k == 'A' and 'i' in flag:
            t += '.operator'
        return t
    if k in ('C', '+C'):
        t = 'addColl' if k == 'C' else 'plusColl'
        if op[1] == op[2]:
            t += '.self'
        elif k == 'C' and 'i' in flag:
            t += '.operator'
        return t
    if k in ('S', '+S'):
        t = 'addSeq' if k == 'S' else 'plusSeq'
        if not op[2]:
            return t + '.empty'
        if k == 'S' and len(set(POOL[o][1] for o in op[2])) > 1:
            return t + '.mixed'
        if 't' in flag:
            return t + '.tuple'
        if 'a' in flag and k == 'S':
            return t + '.ndarray'
        return t
    if k == 'P':
        if op[2] is None:
            return 'pop.default'
        if flag in ('bool', 'np', 'float'):
            return 'pop.' + flag
        return 'pop.neg' if op[2] < 0 else 'pop.pos'
    if k == 'Q':
        return 'popName'
    if k == 'Y':
        return 'copy'
    if k == 'K':
        form = {'n': 'none', 's': 'single'}.get(op[2], 'seq' if op[3] else 'emptyseq')
        return 'ctor.%s.%s' % ('given' if op[1] is not None else 'inferred', form if not (op[1] is not None and form == 'emptyseq') else 'seq')
    return None


def branch(ctx, area, op, result, qual=''):
    """one more execution of the branch (operation kind x qualifier x outcome) of a modelled function"""
    ctx.count('br:%s:%s%s:%s' % (area, op, ('.' + qual) if qual else '', _res_class(result)))


# every branch of the modelled functions the correspondence is expected to execute (model side = code side);
# a branch with no hit in a run is reported in the evidence (`zero_hit_branches`)
ALL_BRANCHES = (
    ['coll:%s:%s' % (o, r) for o in ('addObj', 'addObj.operator', 'addColl', 'addColl.operator', 'plusObj', 'plusColl')
     for r in ('ok', 'TypeError')] +
    # a subclass instance is accepted; a collection is always a valid operand for itself (issubclass(T, T))
    ['coll:addObj.subclass:ok', 'coll:addObj.subclass:TypeError', 'coll:addColl.self:ok', 'coll:plusColl.self:ok'] +
    ['coll:%s:%s' % (o, r) for o in ('addSeq', 'addSeq.tuple', 'addSeq.ndarray', 'plusSeq', 'plusSeq.tuple')
     for r in ('ok', 'TypeError')] +
    ['coll:copy:ok'] +
    ['coll:addSeq.empty:TypeError', 'coll:plusSeq.empty:TypeError', 'coll:addSeq.mixed:ok', 'coll:addSeq.mixed:TypeError',
     'coll:pop.default:ok', 'coll:pop.default:IndexError', 'coll:pop.pos:ok', 'coll:pop.pos:IndexError',
     'coll:pop.neg:ok', 'coll:pop.neg:IndexError', 'coll:pop.bool:ok', 'coll:pop.bool:IndexError', 'coll:pop.np:ok',
     'coll:pop.np:IndexError', 'coll:pop.float:TypeError', 'coll:popName:ok', 'coll:popName:KeyError',
     'coll:ctor.given.none:ok', 'coll:ctor.given.none:TypeError', 'coll:ctor.given.seq:ok', 'coll:ctor.given.seq:TypeError',
     'coll:ctor.given.single:ok', 'coll:ctor.given.single:TypeError', 'coll:ctor.inferred.seq:ok', 'coll:ctor.inferred.seq:TypeError', 'coll:ctor.inferred.single:ok',
     'coll:ctor.inferred.none:TypeError', 'coll:ctor.inferred.emptyseq:TypeError'] +
    ['pdfset:a:ok', 'pdfset:a:KeyError', 'pdfset:a:ValueError', 'pdfset:an:TypeError', 'pdfset:ao:TypeError', 'pdfset:gd:ok',
     'pdfset:gd:KeyError', 'pdfset:gk:ok', 'pdfset:gk:KeyError', 'pdfset:go:TypeError', 'pdfset:c:ok', 'pdfset:ck:ok',
     'pdfset:co:TypeError', 'pdfset:mh:ok', 'pdfset:mhn:ok', 'pdfset:mho:TypeError', 'pdfset:vals:ok'] +
    ['dsc:add:ok', 'dsc:add:KeyError', 'dsc:add:TypeError', 'dsc:iadd:ok', 'dsc:iadd:KeyError', 'dsc:iadd.seq:ok', 'dsc:iadd.seq:KeyError',
     'dsc:iadd.seq:TypeError', 'dsc:remove:ok', 'dsc:remove:KeyError', 'dsc:get:ok', 'dsc:get:KeyError'] +
    ['stage:%s:%s' % (f, r) for f in ('int', 'bool', 'list', 'tuple', 'set', 'ndarray') for r in ('ok',)] +
    ['stage:npint:TypeError', 'stage:joint.npint.nofields:ok', 'stage:joint.npint:TypeError'] +
    ['cfg:%s:%s' % (o, r) for o in ('new', 'fromDict', 'set', 'del', 'app', 'm.et', 'm.dt', 'm.set', 'm.ncpu', 'm.units', 'm.wd',
                                    'm.wd.default', 'm.ite', 'm.getwd', 'm.titu', 'm.wdf') for r in ('ok',)] +
    ['cfg:set:KeyError', 'cfg:set:TypeError', 'cfg:del:KeyError', 'cfg:app:KeyError', 'cfg:m.units.bad:TypeError',
     'cfg:m.units:KeyError', 'cfg:m.wd:TypeError', 'cfg:m.wd:KeyError', 'cfg:m.et:KeyError', 'cfg:m.ite:KeyError',
     'cfg:m.getwd:TypeError', 'cfg:m.getwd:KeyError', 'cfg:m.titu:KeyError', 'cfg:m.titu:UnitConversionError',
     'cfg:m.wdf:TypeError', 'cfg:m.wdf:KeyError', 'cfg:m.ncpu:KeyError', 'cfg:m.units.bad:KeyError', 'cfg:m.wd.default:KeyError',
     'cfg:m.wd.default:TypeError'] +
    ['mok:%s:%s' % (n, r) for n in ('tracingW', 'ncpuW', 'unitsW', 'tracingR', 'wdR', 'timeR') for r in ('ok', 'navigation-error')] +
    ['xw:nd:ok', 'xw:nd:KeyError', 'xw:nd:TypeError', 'xw:set:ok', 'xw:set:KeyError', 'xw:set:TypeError', 'xw:sdd:cont',
     'xw:sdd:val', 'xw:sdd:KeyError', 'xw:sdv:cont', 'xw:sdv:val', 'xw:sdv:KeyError'])
# (xw:sdd:TypeError / xw:sdv:TypeError — a scalar where the dict is expected — occur in random histories only: unlisted)


def _resolve(ctx, suspicious, ndis):
    """disagreements model / implementation: failing-input search (the input itself, then its
    neighbourhood), else report the relation; smallest inputs first"""
    for kind in ('coll', 'pdfset', 'stage', 'cfg'):
        cands = sorted([x for x in suspicious if x[0] == kind], key=lambda x: len(repr(x[1])))
        if not cands:
            continue
        ndis[0] += len(cands)
        oname = {'coll': 'coll_hist', 'pdfset': 'hash_order', 'stage': 'stage', 'cfg': 'config'}[kind]
        hit = None
        for _, c, text in cands[:60]:
            variants = [c]
            if kind == 'cfg':   # neighbourhood: one more edit through every mutator on every configuration
                variants += [dict(c, edits=c['edits'] + [[w, m]]) for w in range(len(c['create'])) for m in _mutators()]
            for v in variants:
                oc = {'ops': v['ops']} if kind == 'coll' else v
                res = ORACLES[oname](ctx, oc)
                if res:
                    hit = (oc, res, text)
                    break
            if hit:
                break
        if hit:
            oc, res, text = hit
            if kind == 'cfg':
                sig = 'C20/Config/' + _classify_cfg(oc, res)
            else:
                if kind == 'pdfset':
                    sig = 'C20/make_dict_hash/' + _classify_hash(oc, res)
                else:
                    sig = {'coll': 'C20/NamedObjectCollection/', 'stage': 'C20/DataFieldStages/'}[kind] + _classify(res)
            ctx.violation(oname, oc, res, signature=sig, model_output=text)
        else:
            _, c, text = cands[0]
            ctx.violation('corr', c, 'model and implementation disagree (%s) but no property oracle fails on this input' % text,
                          kind='correspondence', relation='exact ' + kind, signature='C20/corr/' + kind, no_failing_input=True)
    del suspicious[:]


class Deferred(object):
    """requests of the whole run, answered by one driver process; `fn(answers)` does the comparison"""

    def __init__(self):
        self.reqs, self.jobs = [], []

    def add(self, lines, fn):
        lines = list(lines)
        self.jobs.append((len(self.reqs), len(lines), fn))
        self.reqs += lines

    def flush(self, ctx):
        answers = cfg_batch(ctx, self.reqs)
        for start, n, fn in self.jobs:
            fn(answers[start:start + n])
        self.reqs, self.jobs = [], []


def run(ctx):
    rng = ctx.rng
    ctx.rule = ('collections: every (internal state, operation) pair reachable by <= 6 add/+=/pop/+ calls over 5 uniquely '
                'named objects (states deduplicated on the instance attributes), the same with clashing names / foreign '
                'types to a smaller depth, random histories over several collections; dictionaries: every insertion '
                'order x lookup order of 1..4 entries; stages: the full 16x16 table and all mask sequences up to length '
                '2 (quick) / 3 (thorough); configurations: every ordered pair of mutators on two configurations for '
                'every pair of creation paths; a case is non-trivial when distinct by (kind, arguments)')
    ctx.trusted_base += ['correspondence harness harness/props/c20.py (exact comparison after canonicalisation)',
                         'Python object identity modelled by location numbers; list / dict / OrderedDict, copy.copy and '
                         'copy.deepcopy semantics re-implemented in Model/Coll.lean and compared on every run; sharing between '
                         'collections is observed through public behaviour only (probe objects added on a deep copy of the world)',
                         "Python's hash() as an arbitrary function of the value (equal values hash equal)"]
    ctx.assumptions += ['objects of a collection keep their name while they are stored',
                        'subclassing between object types is not modelled (isinstance = same class)',
                        'the dict API inherited by Config (update / setdefault with mutable values) is the caller\'s own aliasing',
                        'stage values and masks are natural numbers',
                        "Python's hash() is collision free on the canonical item sets that occur (hypothesis `hinj` of the "
                        'separation theorems); equal values hash equal',
                        'the base configuration, user dictionaries and Config instances a program starts from share no '
                        'container object (hypothesis CInv: decidable, `cinvB`, evaluated by the driver on the initial world '
                        'of every configuration case and asserted by the harness; preserved by every modelled call)',
                        'names of stored objects are `str` (collection[name] is positional for any other key type)']
    suspicious = []   # (kind, case, text)
    D = Deferred()
    ndis = [0]

    def resolve():
        _resolve(ctx, suspicious, ndis)

    # ---- 1. collections: bounded-exhaustive state exploration + random histories
    if empty_seq_accepted():
        ctx.count('skipped:empty-sequence-accepted')
        ctx.note('C20: the implementation accepts coll.add([]) (the model mirrors the TypeError of the recorded code); '
                 'histories with empty sequences are left out')
    cases, nstates, chains = bfs_cases(ctx, 6, unique=True, chain_prefix=ctx.n(2, 4))
    ctx.extra['unique_states_explored'] = nstates
    cases2, nstates2, chains2 = bfs_cases(ctx, ctx.n(3, 4), unique=False, max_states=ctx.n(40, 4000), chain_prefix=ctx.n(1, 2))
    ctx.extra['clashing_states_explored'] = nstates2
    chains += chains2
    reqs = ['coll l ' + ' '.join(enc_op(o) for o in ops) for ops, _ in cases + cases2]

    def after_bfs(answers):
        for (ops, impl), ans in zip(cases + cases2, answers):
            ctx.case(key=('coll', [op_key(o) for o in ops]),
                     desc={'kind': 'coll', 'ops': ops} if ctx.evaluations % 4001 == 0 else None)
            ctx.count('coll:' + ops[-1][0])
            ctx.count('coll:len=%d' % (len(ops) - len(SETUP)))
            if coll_tag(ops[-1]):
                branch(ctx, 'coll', coll_tag(ops[-1]), impl.split('#')[0])
            (m, agree), = model_tokens(ans)
            if agree != '1':
                raise MachineryError('C20: world model and list specification disagree on ' + reqs[0])
            if m != impl:
                suspicious.append(('coll', {'kind': 'coll', 'ops': ops}, 'last step: implementation %s, model %s' % (impl, m)))
        resolve()
    D.add(reqs, after_bfs)
    # oracle on a sample of the exhaustive histories (all successful `+` steps and every 7th other one)
    for n, (ops, impl) in enumerate(cases + cases2):
        if (ops[-1][0][0] == '+' and (ctx.thorough or n % 2 == 0)) or n % ctx.n(11, 7) == 0:
            ctx.count('oracle:coll_hist')
            res = o_coll_hist(ctx, {'ops': ops})
            if res:
                ctx.violation('coll_hist', {'ops': ops}, res, signature='C20/NamedObjectCollection/' + _classify(res))
    hists = [random_hist(rng, rng.choice([4, 8, 12] if not ctx.thorough else [6, 12, 25, 40]), rng.choice([0.0, 0.7, 1.0]))
             for _ in range(ctx.n(150, 2500))]
    # directed histories: every branch of the constructor and of the argument checks, whatever the seed
    hists += [[['N', 0], ['K', 0, 's', [6]], ['K', 0, 's', [7]], ['K', None, 's', [1]]],
              [['K', None, 'q', [0, 6]], ['K', None, 't', [7, 0]], ['K', None, 'q', [0, 7]], ['K', 1, 'a', [6, 6]]],
              [['K', 3, 'n', []], ['K', None, 'n', []], ['K', None, 'q', []], ['K', 0, 'n', []], ['K', 0, 'q', []]],
              [['N', 1], ['A', 0, 7], ['N', 2], ['A', 1, 7], ['A', 1, 0], ['C', 0, 1], ['C', 1, 0], ['S', 0, [7, 0]], ['S', 0, [0, 7], 'a'],
               ['S', 0, [6, 6], 't'], ['+S', 0, [6], 't'], ['S', 0, [6], 'a'], ['S', 1, [0, 1], 't'], ['+S', 1, [2], 't']],
              [['N', 0], ['A', 0, 0], ['A', 0, 1], ['P', 0, 1, 'bool'], ['P', 0, 5, 'np'], ['P', 0, 1, 'bool'], ['P', 0, 0, 'float'],
               ['P', 0, 0, 'np'], ['P', 0, None], ['P', 0, -1]]]
    # round 7: `copy()` as a call of its own — after every prefix of 0..3 adds, every ordered pair of
    # calls on the original / the copy (the copy and the original must evolve independently); quick: prefixes 0 and 2
    def _small(j):
        return [['A', j, 3], ['A', j, 4, 'i'], ['P', j, None], ['P', j, 0], ['Q', j, 0], ['+A', j, 3], ['C', j, 1 - j], ['Y', j]]
    for npre in (range(4) if ctx.thorough else (0, 2)):
        pre = [['N', 0]] + [['A', 0, o] for o in range(npre)] + [['Y', 0]]
        for n1, op1 in enumerate(_small(0) + _small(1)):
            for n2, op2 in enumerate(_small(0) + _small(1)):
                if ctx.thorough or (n1 + n2 + npre) % 3 == 0:
                    hists.append(pre + [op1, op2])
    nchain = len(chains)
    hists = chains + hists

    def after_hists(answers):
        for hn, (h, ans) in enumerate(zip(hists, answers)):
            ctx.case(key=('collr', [op_key(o) for o in h]),
                     desc={'kind': 'coll', 'ops': h} if ctx.evaluations % 997 == 0 else None)
            ctx.count('coll:continued-after-plus' if hn < nchain else 'coll:random')
            impl, _ = impl_hist(h)
            for step, (i, (m, agree)) in enumerate(zip(impl, model_tokens(ans))):
                if coll_tag(h[step]):
                    branch(ctx, 'coll', coll_tag(h[step]), i.split('#')[0])
                if agree != '1':
                    raise MachineryError('C20: world model and list specification disagree')
                if i != m:
                    suspicious.append(('coll', {'kind': 'coll', 'ops': h[:step + 1]}, 'step %d: implementation %s, model %s' % (step, i, m)))
                    break
            if hn >= nchain or hn % 4 == 0:
                res = o_coll_hist(ctx, {'ops': h})
                if res:
                    ctx.violation('coll_hist', {'ops': h}, res, signature='C20/NamedObjectCollection/' + _classify(res))
    D.add(['coll a ' + ' '.join(enc_op(o) for o in h) for h in hists], after_hists)
    # positional accessors (len, c[i] incl. negative and out of range, c[name], c.index) after the histories
    qh = hists[nchain:] + chains[::ctx.n(6, 2)] + [ops for ops, _ in (cases + cases2)[::ctx.n(40, 10)]]

    def after_collq(answers):
        for h, ans in zip(qh, answers):
            ctx.case(key=('collq', [enc_op(o) for o in h]))
            ctx.count('coll:accessor-queries')
            _, cw_ = impl_hist(h, all_steps=False)
            got = cw_.query()
            if got != ans:
                suspicious.append(('coll', {'kind': 'coll', 'ops': h}, 'accessors len / c[i] / c[name] / index: implementation %s, model %s' % (got, ans)))
        resolve()
    D.add(['collq ' + ' '.join(enc_op(o) for o in h) for h in qh], after_collq)
    if _PROBE_STATS['add-raised']:
        ctx.count('skipped:probe-add-raised', _PROBE_STATS['add-raised'])
    dsc_cases = []
    for _ in range(ctx.n(60, 800)):
        ops = []
        for _ in range(rng.randrange(1, 9)):
            r = rng.random()
            if r < 0.35:
                ops.append(['add', rng.randrange(6)])
            elif r < 0.6:
                ops.append(['iadd', rng.choice([rng.randrange(6), [rng.randrange(6) for _ in range(rng.randrange(0, 4))]])])
            else:
                ops.append(['remove', rng.randrange(4)])
        ctx.case(key=('dataset_coll', ops))
        ctx.count('coll:DatasetCollection')
        res = o_dataset_coll(ctx, {'ops': ops})
        if res:
            ctx.violation('dataset_coll', {'ops': ops}, res, signature='C20/DatasetCollection/' + _classify(res))
        # the same history (plus lookups and a non-Dataset object) against the Lean model
        mops = [list(o) for o in ops]
        for _ in range(rng.randrange(0, 4)):
            mops.insert(rng.randrange(len(mops) + 1), rng.choice([['get', rng.randrange(4)], ['add', 6], ['iadd', [rng.randrange(6), 6]],
                                                                  ['iadd', [rng.randrange(6), rng.randrange(6)], 't']]))
        dsc_cases.append(mops)
    dlines = [dsc_lines(o) for o in dsc_cases]

    def after_dsc(answers):
        for mops, (req, impl), ans in zip(dsc_cases, dlines, answers):
            ctx.case(key=('dsc', mops))
            ctx.count('coll:DatasetCollection:model')
            model = ' '.join('#'.join(t.split('#')[:2]) for t in ans.split(' '))
            for (op, i_, m_) in zip(mops, impl.split(' '), model.split(' ')):
                branch(ctx, 'dsc', op[0] + ('.seq' if isinstance(op[1], list) else ''), i_.split('#')[0])
            if model != impl:
                ctx.violation('corr', {'kind': 'dsc', 'ops': mops}, 'DatasetCollection history %r: implementation %s, model %s' % (mops, impl, model),
                              kind='correspondence', relation='exact dsc', signature='C20/corr/dsc', no_failing_input=True)
    D.add([r for r, _ in dlines], after_dsc)
    res = o_plain_plus(ctx, {'vals': [1, 2, 3, 4]})
    ctx.case(key='plain_plus')
    if res:
        ctx.violation('plain_plus', {'vals': [1, 2, 3, 4]}, res, signature='C20/ObjectCollection.__add__/' + _classify(res))

    # ---- 2. dictionary hash / PDFSet: every insertion order x lookup order, 1..4 entries; value classes
    pcases = gen_dict_cases(ctx)
    lines = [_pdfset_line(c) for c in pcases]

    def after_dict(answers):
        for c, (req, impl), ans in zip(pcases, lines, answers):
            ctx.case(key=('pdfset', c['d1'], c['d2']), desc=c if ctx.evaluations % 499 == 0 else None)
            ctx.count('dict:' + c['cls'])
            for spec in [it[1] for it in c['d1'] + c['d2']]:
                ctx.count('dict:value-class:' + _valclass(spec))
            if ans != impl:
                suspicious.append(('pdfset', c, 'add/get/add/get/get: implementation %r, model %r' % (impl, ans)))
            res = o_hash_order(ctx, c)
            if res:
                ctx.violation('hash_order', c, res, signature='C20/make_dict_hash/' + _classify_hash(c, res))
        resolve()
    D.add([r for r, _ in lines], after_dict)
    # the entry points of PDFSet with every argument form (dict / integer key / neither; PDF / no PDF; axes)
    phists = [gen_pdfset_hist(rng, rng.randrange(3, 14)) for _ in range(ctx.n(120, 1500))]
    plines = [pdfset_hist_lines(h) for h in phists]

    def after_pdfset_hist(answers):
        for h, (req, impl), ans in zip(phists, plines, answers):
            ctx.case(key=('pdfset-hist', h))
            ctx.count('dict:pdfset-entry-points')
            for op, i_ in zip(h, impl.split(' ')):
                branch(ctx, 'pdfset', op[0], i_)
            if ans != impl:
                ctx.violation('corr', {'kind': 'pdfset-hist', 'ops': h}, 'PDFSet history %r: implementation %s, model %s' % (h, impl, ans),
                              kind='correspondence', relation='exact pdfset entry points', signature='C20/corr/pdfset-hist', no_failing_input=True)

    D.add([r for r, _ in plines], after_pdfset_hist)
    # ---- 3. stage checks: 16 x 16 table, sequences, joint names
    ctx.case(key='stage_consts')
    res = o_stage_consts(ctx, {})
    if res:
        ctx.violation('stage_consts', {}, res, signature='C20/DataFieldStages/constants-overlap', theorem='c20_stage_bits_for_current_source')
    scases = []
    for s in range(16):
        for m in range(16):
            scases.append({'kind': 'stage', 'stage': s, 'masks': m, 'form': 'int'})
        for L in range(0, ctx.n(2, 3) + 1):
            for ms in itertools.product(range(16), repeat=L):
                scases.append({'kind': 'stage', 'stage': s, 'masks': list(ms), 'form': 'tuple' if (L + s) % 2 else 'list'})
                if L <= 1:      # both sequence types for the short ones
                    scases.append({'kind': 'stage', 'stage': s, 'masks': list(ms), 'form': 'list' if (L + s) % 2 else 'tuple'})
    for _ in range(ctx.n(300, 3000)):      # wider stage values / masks than the four defined flags
        form = rng.choice(['int', 'list', 'tuple'])
        masks = rng.randrange(256) if form == 'int' else [rng.randrange(256) for _ in range(rng.randrange(0, 5))]
        scases.append({'kind': 'stage', 'stage': rng.randrange(256), 'masks': masks, 'form': form})
    for _ in range(ctx.n(200, 2000)):
        fields = [['f%d' % i, rng.randrange(16)] for i in rng.sample(range(12), rng.randrange(0, 8))]
        form = rng.choice(['int', 'list', 'tuple'])
        masks = rng.randrange(16) if form == 'int' else [rng.randrange(16) for _ in range(rng.randrange(0, 4))]
        scases.append({'kind': 'stage', 'stage': rng.randrange(64), 'masks': masks, 'form': form, 'fields': fields})
    # every Python form of the `stages` argument: bool, numpy integer scalar (not an `int`), set, integer ndarray
    for _ in range(ctx.n(200, 2000)):
        form = rng.choice(['bool', 'npint', 'set', 'ndarray', 'npint', 'set', 'ndarray'])
        scalar = form in ('bool', 'npint')
        masks = (rng.randrange(2) if form == 'bool' else rng.randrange(16)) if scalar else \
            [rng.randrange(16) for _ in range(rng.randrange(0, 4))]
        c = {'kind': 'stage', 'stage': rng.randrange(32), 'masks': masks, 'form': form}
        if rng.random() < 0.5:
            c['fields'] = [['f%d' % i, rng.randrange(16)] for i in rng.sample(range(12), rng.randrange(0, 4))]
        scases.append(c)
    sreqs, impls, spans = [], [], []
    for c in scases:
        r, i = _stage_lines(c)
        spans.append((len(sreqs), len(r)))
        sreqs += r
        impls += i

    def after_stage(answers):
        for c, (a, n) in zip(scases, spans):
            ctx.case(key=('stage', c['stage'], c['masks'], c['form'], c.get('fields')), desc=c if ctx.evaluations % 9973 == 0 else None)
            ctx.count('stage:' + c['form'] + (':joint' if c.get('fields') is not None else ''))
            branch(ctx, 'stage', c['form'], impls[a])
            if c['form'] == 'npint' and c.get('fields') is not None:
                branch(ctx, 'stage', 'joint.npint' + ('' if c['fields'] else '.nofields'), impls[a + 2])
            if answers[a:a + n] != impls[a:a + n]:
                suspicious.append(('stage', c, 'implementation %r, model %r' % (impls[a:a + n], answers[a:a + n])))
            res = o_stage(ctx, c)
            if res:
                ctx.violation('stage', c, res, signature='C20/DataFieldStages/' + _classify(res))

    D.add(sreqs, after_stage)
    # ---- 4. configurations: every ordered pair of mutators x pairs of creation paths
    if not cfg_fixtures()['has_base']:
        ctx.count('skipped:private-attr')
        ctx.note('C20: skyllh.core.config has no dict named _BASECONFIG; the base configuration is observed through fresh Config() instances only')
    M = list(_mutators().keys())
    ccases = []
    creates = [(a, b) for a in CREATE_MODES for b in CREATE_MODES]
    for ci, (a, b) in enumerate(creates):
        full = ctx.thorough or (a, b) == ('new', 'new')
        for m1 in M:
            for m2 in M:
                if full or rng.random() < (0.3 if (a, b) == ('fd0', 'fd0') else 0.05):
                    ccases.append({'kind': 'cfg', 'create': [a, b], 'edits': [[0, m1], [1, m2]]})
    for _ in range(ctx.n(60, 600)):
        k = rng.randrange(1, 4)
        ccases.append({'kind': 'cfg', 'create': [rng.choice(CREATE_MODES) for _ in range(k)],
                       'edits': [[rng.randrange(k), rng.choice(M)] for _ in range(rng.randrange(1, 7))]})
    for m in M:       # round 7: `from_yaml(None)` = `Config()` (directed; not part of the creation-pair space)
        ccases.append({'kind': 'cfg', 'create': ['yamlN', rng.choice(CREATE_MODES)], 'edits': [[0, m], [1, rng.choice(M)]]})
        ccases.append({'kind': 'cfg', 'create': [rng.choice(CREATE_MODES), 'yamlN'], 'edits': [[0, rng.choice(M)], [1, m]]})
    OO = list(_oracle_only_mutators().keys())
    for m in OO:      # edits outside the Lean model: reference oracles only
        for cr in (['new', 'new'], ['fd1', 'fd1'], ['fd0', 'fd1']):
            ccases.append({'kind': 'cfg', 'create': cr, 'edits': [[0, m], [1, 'enable_tracing'], [1, m]], 'model': False})
            ccases.append({'kind': 'cfg', 'create': cr, 'edits': [[1, m], [0, 'set_ncpu_4']], 'model': False})
    # directed: the error branches of the navigation (missing section, scalar in the way) in every method
    for edits in ([[0, 'del_units'], [0, 'units_time'], [1, 'enable_tracing'], [0, 'units_bad_type']],
                  [[0, 'del_debugging'], [0, 'enable_tracing'], [1, 'disable_tracing']],
                  [[0, 'del_project'], [0, 'set_wd_abs'], [0, 'set_wd_default']],
                  [[0, 'del_multiproc'], [0, 'set_ncpu_1']],
                  [[0, 'item_top_over'], [0, 'item_project_wd'], [0, 'set_wd_default'], [1, 'set_wd_rel']],
                  [[0, 'pop_section'], [0, 'item_caching'], [0, 'pop_section']],
                  [[1, 'list_append'], [1, 'del_datafield'], [1, 'del_datafield']],
                  # sys.path: the old working directory of the same instance is removed, also when two instances use it
                  [[0, 'set_wd_abs'], [0, 'set_wd_rel'], [0, 'set_wd_default']],
                  [[0, 'set_wd_abs'], [1, 'set_wd_abs'], [0, 'set_wd_rel'], [1, 'set_wd_default']]):
        for cr in (['new', 'new'], ['fd1', 'fd0']):
            ccases.append({'kind': 'cfg', 'create': cr, 'edits': edits, 'model': False})
    # a dictionary handed to from_dict is modified afterwards (and before the next from_dict): the configurations
    # made from it earlier must not follow (model only: the reference oracle compares the user dictionaries)
    for edits in ([['u0', 'item_datafield'], [0, 'item_datafield_new'], ['u0', 'nested_update'], [1, 'enable_tracing']],
                  [['u1', 'list_append'], [0, 'list_append'], ['u1', 'item_top_new']],
                  [[0, 'set_ncpu_4'], ['u0', 'del_datafield'], ['u0', 'item_caching']]):
        for cr in (['fd0', 'fd0'], ['fd1', 'fd1'], ['fd0', 'fd1'], ['fd1', 'new']):
            ccases.append({'kind': 'cfg', 'create': cr, 'edits': edits, 'model': False, 'oracle': False})
    for _ in range(ctx.n(40, 400)):
        k = rng.randrange(2, 4)
        ccases.append({'kind': 'cfg', 'create': [rng.choice(CREATE_MODES) for _ in range(k)], 'model': False,
                       'edits': [[rng.randrange(k), rng.choice(M + OO + OO)] for _ in range(rng.randrange(2, 7))]})
    runs = []
    for c in ccases:
        if modelable(c):
            with CfgRun(c) as r:
                runs.append(r.run())
        else:
            runs.append(None)

    def after_cfg(answers):
        answers = iter(answers)
        for c, run_ in zip(ccases, runs):
            ctx.case(key=('cfg', c['create'], c['edits']), desc=c if ctx.evaluations % 1499 == 0 else None)
            if run_ is None:
                ctx.count('cfg:edits-outside-the-model')
            else:
                line, results, canon, sys1 = run_
                ctx.count('cfg:' + '+'.join(c['create']) if len(c['create']) == 2 else 'cfg:random')
                ans_ = next(answers)
                exc_names = {v: k for k, v in _CT['exc'].d.items()}
                for tok, at in zip([t for t in line.split(' ')[2:] if not t.startswith('S=')], ans_.split(' ')[1:]):
                    parts = tok.split(':')
                    kind = {'fd': 'fromDict', 'fdold': 'fromDict'}.get(parts[0], parts[0])
                    if kind == 'm':
                        kind = 'm.' + parts[2]
                        if parts[2] == 'wd' and parts[3] == 'n':
                            kind += '.default'
                        if parts[2] == 'units' and 'b' in parts[3].split(','):
                            kind += '.bad'
                    r_ = at.split('#')[0]
                    if r_.startswith('X'):
                        r_ = 'E:' + exc_names.get(int(r_[1:]), '?')
                    branch(ctx, 'cfg', kind, r_)
                d = cfg_compare(c, results, canon, ans_, sys_impl=sys1)
                if d:
                    suspicious.append(('cfg', c, d))
            if not c.get('oracle', True):
                ctx.count('cfg:user-dictionary-modified-afterwards')
                continue
            res = o_config(ctx, c)
            if res:
                ctx.violation('config', c, res, signature='C20/Config/' + _classify_cfg(c, res))
            # behavioural isolation: all cases in the thorough tier; quick: the full (Config(), Config()) pair space,
            # the edits outside the model and the random histories
            if ctx.thorough or c['create'] == ['new', 'new'] or not c.get('model', True) or len(c['edits']) != 2:
                ctx.count('oracle:config_queries')
                res = o_config_queries(ctx, c)
                if res:
                    ctx.violation('config_queries', c, res, signature='C20/Config/query-depends-on-other-instance')
            for nm_ in shared_state_changed():
                if nm_ != 'module._BASECONFIG':
                    if not ctx.counters['diag:class-level-state-changed:' + nm_]:
                        ctx.note('C20 diagnostic: class / module level container %s of skyllh.core.config changes while '
                                 'configurations are used (no verdict by itself)' % nm_)
                    ctx.count('diag:class-level-state-changed:' + nm_)
            reset_shared_state()
        try:
            os.unlink('/tmp/C20_cfg_%d.yaml' % os.getpid())
        except OSError:
            pass

    D.add([r_[0] for r_ in runs if r_ is not None], after_cfg)

    # ---- round 7: which methods find their keys on a configuration of a given shape; writes that allocate
    from harness import c20_r7_fixtures as r7
    enames = [n for n, _ in r7.shape_edits()]
    mcases = [{'kind': 'mok', 'edits': [a]} for a in enames] + [
        {'kind': 'mok', 'edits': [a, b]} for a in enames for b in enames if a != 'none' and b != 'none' and a != b]
    if not ctx.thorough:
        mcases = mcases[:len(enames)] + rng.sample(mcases[len(enames):], 24)
    mruns = [mok_impl(c) for c in mcases]

    def after_mok(answers):
        names = ('tracingW', 'ncpuW', 'unitsW', 'tracingR', 'wdR', 'timeR')
        for c, (line, impl, err), ans in zip(mcases, mruns, answers):
            ctx.case(key=('mok', tuple(c['edits'])), desc=c if len(c['edits']) == 1 and c['edits'][0] == 'del_units' else None)
            ctx.count('cfg:method-navigation-shapes')
            flags = ans.split(' ')[0]
            for n, f in zip(names, flags):
                ctx.count('br:mok:%s:%s' % (n, 'ok' if f == '1' else 'navigation-error'))
            if ans.split(' ')[1] != 'all=%d' % int(flags == '111111'):
                raise MachineryError('C20: methodPathsOk is not the conjunction of the six outcomes: ' + ans)
            if err or impl != flags:
                ctx.violation('corr', c, err or 'navigation outcomes of the Config methods (tracing setters, set_ncpu, '
                              'set_internal_units, is_tracing_enabled, working directory, to_internal_time_unit) after the '
                              'edits %r on a fresh Config(): implementation %s, model %s' % (c['edits'], impl, flags),
                              kind='correspondence', relation='exact', signature='C20/Config/method-navigation',
                              no_failing_input=True)
    D.add([m[0] for m in mruns], after_mok)
    for mname in _mutators():
        ctx.case(key=('has_config', mname))
        ctx.count('oracle:has_config')
        res = o_has_config(ctx, {'mutator': mname})
        if res:
            ctx.violation('has_config', {'mutator': mname}, res, signature='C20/HasConfig/holder-identity')

    xcases = [dict(ops=r7.XW_DIRECTED, kind='xw')] + [
        dict(r7.gen_xw_case(rng, rng.randrange(2, 9)), kind='xw') for _ in range(ctx.n(150, 1500))]
    xruns = [xw_impl(c) for c in xcases]

    def after_xw(answers):
        for c, (line, res, canon, bad), ans in zip(xcases, xruns, answers):
            ctx.case(key=('xw', repr(c['ops'])), desc=c if ctx.evaluations % 499 == 0 else None)
            ctx.count('cfg:allocating-write-histories')
            for op, r_ in zip(c['ops'], res):
                present = r_ not in ('ok',) and not r_.startswith('E:')
                ctx.count('br:xw:%s:%s' % (op[0], 'TypeError' if r_ == 'E:TypeError' else 'KeyError' if r_ == 'E:KeyError'
                                           else 'ok' if op[0] in ('nd', 'set') else ('cont' if r_ == 'cont' else 'val')))
            if bad:
                ctx.violation('config_alloc', c, bad, signature='C20/Config/' + (
                    'from_dict-shared-state' if 'share a container' in bad else _classify_cfg(c, bad)))
                continue
            d = xw_compare(res, canon, ans)
            if d:
                ctx.violation('corr', c, d, kind='correspondence', relation='exact', signature='C20/Config/allocating-write',
                              no_failing_input=True)
    D.add([x[0] for x in xruns], after_xw)
    # ---- disagreements model / implementation: failing-input search, else report the relation
    resolve()
    # the self-test of the location semantics presupposes an implementation that otherwise agrees with the model
    st_reqs, st_check = negative_model_selftest(ctx)

    def after_selftest(answers):
        if ctx.violations or ctx.known_hits or ndis[0]:
            ctx.count('skipped:selftest-implementation-differs')
        else:
            st_check(answers)
    D.add(st_reqs, after_selftest)
    # one driver process for all requests of the run (its start-up dominates the cost of a request)
    D.flush(ctx)
    resolve()
    for k_, v_ in _R7_STATS.items():
        ctx.count(k_, v_)
    _R7_STATS.clear()
    hits = set(k[3:] for k in ctx.counters if k.startswith('br:'))
    zero = [b for b in ALL_BRANCHES if b not in hits]
    ctx.extra['counts'] = {k[3:]: v for k, v in sorted(ctx.counters.items()) if k.startswith('br:')}
    ctx.extra['zero_hit_branches'] = zero
    ctx.extra['unlisted_branches_hit'] = sorted(hits - set(ALL_BRANCHES))
    if zero:
        ctx.note('C20: branches of the model without a hit in this run (untied in this run): ' + ', '.join(zero))
    ctx.extra['correspondence_disagreements'] = ndis[0]
    # the finite spaces named in the property are enumerated completely in the thorough tier only (quick samples
    # 14 of the 16 creation pairs and caps the clashing-name exploration)
    ctx.exhaustive = bool(ctx.thorough)


def _classify(res):
    import re
    m = re.search(r'raise[sd] (\w+)', res)
    if m:
        return 'raises-' + m.group(1)
    m = re.search(r'result (E:\w+)', res)
    if m:
        return 'raises-' + m.group(1)[2:]
    if 'shares' in res or 'changed' in res:
        return 'shared-state'
    return 'wrong-result'


def _classify_hash(case, res):
    classes = set(_valclass(it[1]) for it in case['d1'] + case['d2'])
    if 'raised' in res:
        return _classify(res)
    if classes & {'int', 'npint', 'bool'}:
        return 'integer-values'
    return 'wrong-result'


def _classify_cfg(case, res):
    if 'user dictionary' in res:
        return 'from_dict-shared-state'
    if 'base configuration' in res:
        return 'base-config-changed'
    if 'not the edited one' in res:
        return 'shared-state'
    if 'the edited one' in res:
        return 'wrong-write'
    return 'wrong-result'


MANIFEST = dict(
    text=('Lean theorems (75): for every sequence of constructor calls, add / += / pop / + on any number of named collections '
          '(any class hierarchy, every argument form) the name index equals the index rebuilt from the object list — lookup by '
          'name = position, name_list = names in order, c[i] / c[-i] / c.index consistent — in every world a program can build '
          '(no invariant assumed: constructors establish it); the world model with Python object identities refines independent '
          'plain lists; + in all forms is pure; no model-only error for valid targets; negative models (sharing copies) provably '
          'break this. The dictionary key of make_dict_hash is permutation invariant, identifies equal numbers, separates '
          'different grid points; PDFSet lookup by dict / integer key / `in` agree, argument checks, one set of axes. '
          'and_check / or_check are exactly bitwise all / any for every argument form. Configurations: every method of Config '
          'is modelled line by line (partial writes, sys.path, reads); any call sequence behaves as if every write changed only '
          'the configuration it was made through, and everything observed through one configuration depends on the calls made '
          'through it only (non-interference); a class-level memo provably breaks it. DatasetCollection keeps one dataset per '
          'name. The executable model is compared exactly with the real classes on every run (one driver batch), with a '
          'counter per model branch; reference oracles search for failing inputs. Round 7: the shape of _BASECONFIG and the '
          'key chains of every Config method are read from the current source (ast) and the proof obligations '
          'c20_base_paths_ / c20_method_keys_ / c20_fresh_config_*_for_current_source show that every method of a fresh '
          'Config() finds its keys; methodsOk (navigation outcome per method group), the allocating writes d[k] = {} / '
          'setdefault and copy() as a call of its own are executable, proved isolated / pure and compared on every run.'),
    note=('Python hash() (collision free on the item sets that occur), os.path.abspath / join and astropy unit conversion are '
          'parameters of the model (tabulated from the real functions per run); names of stored objects are str; writes of '
          'caller-supplied non-empty containers are outside the Lean model (reference oracle only); a HasConfig holder is the '
          'configuration it holds (identity checked by the has_config oracle). The finite spaces '
          'of the quantifier are enumerated completely in the thorough tier only.'),
    design='DESIGN.md section 4 C20',
    technique='Lean 4 proof (induction over call lists, refinement of a location-labelled world model, non-interference by simulation, negative models) + exact model/implementation correspondence with branch counters')
