"""C14 — live-time queries agree with the set of half-open up-time intervals.

Correspondence: real `skyllh.core.livetime.Livetime` and `get_data_subset` vs. Model/Livetime.lean
(Driver/C14.lean), bit-exact (only comparisons, index arithmetic, sequential sums).
Property oracles (implementation only): brute-force interval arithmetic in `fractions.Fraction`.
"""
from fractions import Fraction

import numpy as np

from harness.core import f2b, flist, parse_flist, b2f

MODEL_MODULES = ['SkyllhModel.Model.Livetime', 'SkyllhModel.Model.LivetimeR7']

# which Python callables have an executable Lean counterpart that the theorems are about and that run(ctx) compares with them
MODEL_MAP = {
    'skyllh/core/livetime.py::Livetime.assert_mjd_intervals_integrity': ['LivetimeR7.assertIntegrity', 'Livetime.integrity'],
    'skyllh/core/livetime.py::Livetime.__init__': ['LivetimeR7.construct'],
    'skyllh/core/livetime.py::Livetime.uptime_mjd_intervals_arr': ['LivetimeR7.construct', 'Livetime.objStep'],
    'skyllh/core/livetime.py::Livetime.n_uptime_mjd_intervals': ['LivetimeR7.nIntervals'],
    'skyllh/core/livetime.py::Livetime.livetime': ['Livetime.livetimeSeq'],
    'skyllh/core/livetime.py::Livetime.time_window': ['LivetimeR7.timeWindow'],
    'skyllh/core/livetime.py::Livetime.time_start': ['LivetimeR7.timeStart'],
    'skyllh/core/livetime.py::Livetime.time_stop': ['LivetimeR7.timeStop'],
    'skyllh/core/livetime.py::Livetime.get_integrated_livetime': ['LivetimeR7.integratedLivetime'],
    'skyllh/core/livetime.py::Livetime.get_uptime_intervals_between': ['Livetime.betweenIdx', 'Livetime.betweenCore', 'Livetime.betweenSpec'],
    'skyllh/core/livetime.py::Livetime.get_livetime_upto': ['Livetime.upto', 'Livetime.cumOntime', 'LivetimeR7.uptoVec', 'LivetimeR7.uptoArg'],
    'skyllh/core/livetime.py::Livetime.is_on': ['Livetime.isOn', 'LivetimeR7.isOnVec'],
    'skyllh/core/livetime.py::Livetime.draw_ontimes': ['Livetime.drawOn', 'Livetime.drawWin', 'LivetimeR7.drawMany'],
    'skyllh/core/dataset.py::get_data_subset': ['Livetime.dataSubset', 'Livetime.subsetMask', 'LivetimeR7.dataSubsetFull'],
    'skyllh/i3/livetime.py::I3Livetime.from_grl_data': ['Livetime.fromGrl'],
    'skyllh/i3/livetime.py::I3Livetime.from_grl_files': ['LivetimeR7.fromGrlFiles'],
    'skyllh/i3/livetime.py::I3Livetime.from_I3Dataset': ['LivetimeR7.fromI3Dataset'],
    'skyllh/analyses/i3/publicdata_ps/utils.py::clip_grl_start_times': ['Livetime.clipStarts', 'Livetime.clipFrom'],
    'skyllh/core/times.py::LivetimeTimeGenerationMethod.generate_times': ['Livetime.generateTime'],
    'skyllh/core/times.py::TimeGenerator.generate_times': ['Livetime.generateTime'],
}

R7_KINDS = ('assertint', 'construct', 'props', 'intlt', 'isonv', 'uptoarg', 'drawmany', 'grlfiles', 'i3ds', 'subsetfull', 'hist')


def generated(ctx):
    """Generated/C14.lean: the shape constants, `right=` flags, None defaults, comparison operators and the order of the raised
    exception classes, read from the current source (Props/C14.lean proves `..._for_current_source` lemmas about them)."""
    from harness import c14_r7_fixtures as r7
    ctx.extra['raise_order_evidence_only'] = r7.raise_orders()
    return r7.generated_text(ctx)


# ------------------------------------------------------------------------------------------
# generators

def gen_intervals(rng, n=None, scale=None):
    """Sorted, non-overlapping half-open intervals incl. touching intervals, zero-length
    intervals/gaps, tiny and huge gaps.  Returned as list of (a, b) floats."""
    if n is None:
        n = rng.choice([1, 1, 2, 2, 3, 3, 4, 5, 40]) if rng.random() < 0.5 else rng.randint(1, 40)
    if scale is None:
        scale = rng.choice([1.0, 1.0, 55000.0, 1e-3, 1e6])
    mode = rng.choice(['grid', 'grid', 'float', 'mjd'])
    t = scale * rng.choice([0.0, 1.0, -3.0, 7.25])
    ivs = []
    if mode == 'mjd':
        # realistic good-run list: MJD offset 5.4e4..6e4, run lengths 1e-3..1 d, gaps 0..1e-2 d
        t = rng.uniform(5.4e4, 6.0e4)
        for _ in range(n):
            a = t + rng.choice([0.0, rng.random() * 1e-2, rng.random() * 1e-4])
            b = a + rng.choice([rng.uniform(1e-3, 1.0), rng.uniform(1e-3, 0.35), 0.0 if rng.random() < 0.2 else 0.3])
            ivs.append((a, b))
            t = b
        return ivs
    for _ in range(n):
        if mode == 'grid':
            gap = rng.choice([0, 0, 1, 1, 2, 5]) * 0.25 * max(scale, 1e-3)
            ln = rng.choice([0, 1, 1, 2, 3, 8]) * 0.25 * max(scale, 1e-3)
        else:
            gap = rng.choice([0.0, rng.random(), rng.random() * 1e-9, rng.random() * 1e4]) * max(scale, 1e-3)
            ln = rng.choice([0.0, rng.random(), rng.random(), rng.random() * 1e-7]) * max(scale, 1e-3)
        a = t + gap
        b = a + ln
        ivs.append((a, b))
        t = b
    if rng.random() < 0.25:
        # Python-truthiness trap: make exactly 0.0 an interesting time (an edge, an interior point, a gap point)
        pts = [x for p in ivs for x in p] + [(a + b) / 2 for a, b in ivs] + [(p[1] + q[0]) / 2 for p, q in zip(ivs, ivs[1:])]
        z = rng.choice(pts)
        sh = [(a - z, b - z) for a, b in ivs]
        if all(a <= b for a, b in sh) and all(p[1] <= q[0] for p, q in zip(sh, sh[1:])):
            ivs = sh
    return ivs


def interesting_times(rng, ivs):
    edges = [x for p in ivs for x in p]
    ts = list(edges)
    for a, b in ivs:
        ts.append((a + b) / 2)
        ts.append(np.nextafter(a, -np.inf))
        ts.append(np.nextafter(b, -np.inf))
        ts.append(np.nextafter(b, np.inf))
    for (a, b), (c, d) in zip(ivs, ivs[1:]):
        ts.append((b + c) / 2)
    lo, hi = edges[0], edges[-1]
    if lo <= 0.0 <= hi:
        ts.append(0.0)
    span = max(hi - lo, 1.0)
    ts += [lo - span, lo - 1e-9 * span, hi + 1e-9 * span, hi + span]
    ts += [lo + rng.random() * span for _ in range(4)]
    # no subnormal times: u*L < L for u < 1 holds for normal doubles only (IEEE corner outside the theorems)
    ts = [float(t) for t in ts]
    return [t if (t == 0.0 or abs(t) >= 1e-300) else (1e-300 if t > 0 else -1e-300) for t in ts]


# ------------------------------------------------------------------------------------------
# exact reference (fractions) used by the property oracles

_BIG = Fraction(10) ** 400


def fr(x):
    x = float(x)
    if x == float('inf'):
        return _BIG
    if x == float('-inf'):
        return -_BIG
    return Fraction(x)


def ref_is_on(ivs, t):
    return any(a <= t < b for a, b in ivs)


def ref_intersection(ivs, t0, t1):
    """list of non-empty [a,b) pieces of on-time ∩ [t0,t1) (exact)."""
    out = []
    for a, b in ivs:
        lo, hi = max(fr(a), fr(t0)), min(fr(b), fr(t1))
        if lo < hi:
            out.append((lo, hi))
    return out


def merged(pieces):
    """normal form of a union of half-open intervals: drop empty ones, merge touching ones."""
    res = []
    for lo, hi in sorted((fr(a), fr(b)) for a, b in pieces):
        if not lo < hi:
            continue
        if res and res[-1][1] >= lo:
            res[-1] = (res[-1][0], max(res[-1][1], hi))
        else:
            res.append((lo, hi))
    return res


def _window_classes(ivs, t0, t1):
    """the window classes named in the property's quantifier (for the evidence)"""
    out = []
    first, last = ivs[0][0], ivs[-1][1]
    if t0 == float('-inf'):
        out.append('inf-lower')
    if t1 == float('inf'):
        out.append('inf-upper')
    if any(a <= t0 and t1 <= b and a < b for a, b in ivs):
        out.append('inside-one-interval')
    if any(b <= t0 and t1 <= c and b < c for (_, b), (c, _) in zip(ivs, ivs[1:])):
        out.append('entirely-in-a-gap')
    if t1 <= first:
        out.append('before-first')
    if t0 >= last:
        out.append('after-last')
    if sum(1 for lo_, hi_ in ref_intersection(ivs, t0, t1)) >= 2:
        out.append('spanning-gaps')
    if any(t1 == a for a, _ in ivs):
        out.append('ends-on-start-edge')
    if any(t0 == b for _, b in ivs):
        out.append('starts-on-stop-edge')
    # branches of the modelled index arithmetic (betweenIdx / betweenCore)
    edges = np.array([x for p in ivs for x in p], dtype=np.float64)
    if t1 <= t0:
        out.append('branch:empty-window-early-return')
    else:
        s_ = int(np.digitize(t0, edges))
        e_ = int(np.digitize(t1, edges, right=True))
        if (e_ + e_ % 2) <= (s_ - s_ % 2):
            out.append('branch:no-on-time-early-return')
        else:
            n_ = ((e_ + e_ % 2) - (s_ - s_ % 2)) // 2
            out.append('branch:s-%s,e-%s,N%s' % ('even' if s_ % 2 == 0 else 'odd', 'even' if e_ % 2 == 0 else 'odd',
                                                 '=1' if n_ == 1 else '>1'))
    return out


def _directed_windows(rng, ivs):
    first, last = ivs[0][0], ivs[-1][1]
    span = max(last - first, 1.0)
    w = [(first - 2 * span, first - span), (first - span, first), (last, last + span), (last + span, last + 2 * span),
         (float('-inf'), float('inf')), (float('-inf'), first), (last, float('inf'))]
    pos = [(a, b) for a, b in ivs if b > a]
    if pos:
        a, b = rng.choice(pos)
        w += [(a + (b - a) * 0.25, a + (b - a) * 0.75), (a, b), (a, a + (b - a) / 2)]
    gaps = [(b, c) for (_, b), (c, _) in zip(ivs, ivs[1:]) if c > b]
    if gaps:
        b, c = rng.choice(gaps)
        w += [(b + (c - b) * 0.25, b + (c - b) * 0.75), (b, c)]
    if len(pos) >= 2:
        w.append((pos[0][0] + (pos[0][1] - pos[0][0]) / 2, pos[-1][0] + (pos[-1][1] - pos[-1][0]) / 2))
    for k in range(1, len(ivs)):
        if rng.random() < 0.3:
            w.append((first - span, ivs[k][0]))       # ends exactly on a start edge
            w.append((ivs[k - 1][1], last + span))     # starts exactly on a stop edge
    return [(float(a), float(b)) for a, b in w if a < b]


def layout_of(ivs):
    """memory layout of the (N,2) array handed to Livetime: a pure function of the interval values (so a replay rebuilds the
    same array): 0 C-contiguous, 1 transposed view np.array([starts, stops]).T, 2 strided view into a wider array,
    3 Fortran-ordered copy, 4 built by I3Livetime.from_grl_data from a good-run list.  The documented input is 'an (N,2)-shaped float64 ndarray' - the layout is not part of it."""
    import zlib
    return zlib.crc32(repr(ivs).encode()) % 5


def mk_array(ivs):
    a = np.array(ivs, dtype=np.float64).reshape((-1, 2))
    lay = layout_of(ivs)
    if lay == 1:
        return np.array([a[:, 0].copy(), a[:, 1].copy()], dtype=np.float64).T
    if lay == 2:
        w = np.full((a.shape[0], 5), np.nan, dtype=np.float64)
        w[:, 1] = a[:, 0]
        w[:, 3] = a[:, 1]
        return w[:, 1:4:2]
    if lay == 3:
        return np.asfortranarray(a)
    return a


def arg_forms(t):
    """the ways a caller may hand one time to a query: python float, numpy scalar, 0-d array, 1-element list / tuple / array,
    and an int when the value is integral"""
    forms = [('float', float(t)), ('np.float64', np.float64(t)), ('0-d array', np.array(t, dtype=np.float64)),
             ('list', [float(t)]), ('tuple', (float(t),)), ('1-array', np.array([t], dtype=np.float64))]
    if np.isfinite(t) and float(t) == int(t) and abs(t) < 2**52:
        forms += [('int', int(t)), ('np.int64', np.int64(int(t)))]
    return forms


def provenance_of(ivs):
    """how the caller obtained the Livetime object it queries (round 7; a pure function of the interval values, so a replay rebuilds
    it): 0 fresh from the constructor, 1 copy.copy, 2 copy.deepcopy, 3 pickle round trip, 4 a fresh object whose intervals were
    assigned through the public setter (constructed on a placeholder first)"""
    import zlib
    return zlib.crc32(('prov' + repr(ivs)).encode()) % 5


def mk(ivs):
    lt = _mk_fresh(ivs)
    prov = provenance_of(ivs)
    if prov == 1:
        import copy
        return copy.copy(lt)
    if prov == 2:
        import copy
        return copy.deepcopy(lt)
    if prov == 3:
        import pickle
        return pickle.loads(pickle.dumps(lt))
    if prov == 4:
        from skyllh.core.livetime import Livetime
        other = Livetime(np.array([[-1.0, 1.0], [5.0, 7.5]]))
        other.uptime_mjd_intervals_arr = lt.uptime_mjd_intervals_arr
        return other
    return lt


def _mk_fresh(ivs):
    from skyllh.core.livetime import Livetime
    if layout_of(ivs) == 4 and len(ivs) > 0:
        from skyllh.i3.livetime import I3Livetime
        return I3Livetime.from_grl_data(mk_grl([a for a, b in ivs], [b for a, b in ivs], len(ivs) % 2))
    return Livetime(mk_array(ivs))



# ------------------------------------------------------------------------------------------
# good-run-list glue: clip_grl_start_times, I3Livetime.from_grl_data, TimeGenerator

def gen_runs(rng):
    """(starts, stops, class): good-run lists - valid, overlapping with sorted columns (the documented use:
    'some runs might overlap slightly'), nested runs, unsorted"""
    ivs = gen_intervals(rng)
    starts = [a for a, b in ivs]
    stops = [b for a, b in ivs]
    r = rng.random()
    if r < 0.2 or len(ivs) < 2:
        return starts, stops, 'valid'
    if r < 0.7:
        # overlap: pull some starts back into (or exactly onto an edge of) the previous run, columns stay sorted
        for i in range(1, len(starts)):
            if rng.random() < 0.5:
                lo = max(starts[i - 1], min(starts[i], stops[i - 1]) if rng.random() < 0.3 else starts[i - 1])
                cand = [starts[i - 1], stops[i - 1], lo + (stops[i - 1] - lo) * rng.random(),
                        float(np.nextafter(stops[i - 1], -np.inf)), float(np.nextafter(stops[i - 1], np.inf))]
                c = rng.choice(cand)
                if starts[i - 1] <= c <= starts[i]:
                    starts[i] = c
        return starts, stops, 'overlap-sorted-columns'
    if r < 0.85:
        # a run nested inside its predecessor (stop column not sorted)
        i = rng.randrange(1, len(starts))
        a, b = starts[i - 1], stops[i - 1]
        starts[i] = a + (b - a) * 0.25
        stops[i] = a + (b - a) * 0.5
        return starts, stops, 'nested'
    i = rng.randrange(1, len(starts))
    starts[i - 1], starts[i] = starts[i], starts[i - 1]
    stops[i - 1], stops[i] = stops[i], stops[i - 1]
    return starts, stops, 'unsorted'


def mk_grl(starts, stops, form):
    """the good-run list as the analyses hold it: form 0 numpy structured array, 1 DataFieldRecordArray (Dataset.grl)"""
    n = len(starts)
    arr = np.empty((n,), dtype=[('run', np.int64), ('start', np.float64), ('stop', np.float64), ('livetime', np.float64)])
    arr['run'] = 1000 + np.arange(n)
    arr['start'] = starts
    arr['stop'] = stops
    arr['livetime'] = np.array(stops) - np.array(starts)
    if form == 1:
        from skyllh.core.storage import DataFieldRecordArray
        return DataFieldRecordArray(arr, copy=True)
    return arr


def o_grl(ctx, case):
    from skyllh.analyses.i3.publicdata_ps.utils import clip_grl_start_times
    from skyllh.i3.livetime import I3Livetime
    starts, stops, form = case['starts'], case['stops'], case['form']
    n = len(starts)
    runs = list(zip(starts, stops))
    desc = 'good-run list starts=%r stops=%r (%s)' % (starts, stops, 'DataFieldRecordArray' if form else 'structured ndarray')
    # -- from_grl_data on the list as it is: accepted iff the rows are a valid interval list, holds exactly the rows
    flat_ = [x for p in runs for x in p]
    ok = all(a <= b for a, b in zip(flat_, flat_[1:]))
    grl = mk_grl(starts, stops, form)
    try:
        lt = I3Livetime.from_grl_data(grl)
        acc = True
    except ValueError:
        acc = False
    except Exception as e:  # noqa
        return 'I3Livetime.from_grl_data on %s raised %s: %s' % (desc, type(e).__name__, e)
    if acc != ok:
        return 'I3Livetime.from_grl_data on %s accepted=%s but rows are a valid interval list=%s' % (desc, acc, ok)
    if acc:
        if not isinstance(lt, I3Livetime):
            return 'I3Livetime.from_grl_data returned a %s' % type(lt).__name__
        if lt.uptime_mjd_intervals_arr.tolist() != [list(p) for p in runs]:
            return 'I3Livetime.from_grl_data on %s holds %r' % (desc, lt.uptime_mjd_intervals_arr.tolist())
        before = lt.uptime_mjd_intervals_arr.copy()
        grl['start'][:] = -1.0
        if not np.array_equal(lt.uptime_mjd_intervals_arr, before):
            return 'writing into the good-run list after I3Livetime.from_grl_data changed the live-time object'
    # -- clip_grl_start_times: in place, only start[1:], new start = max(start, previous stop)
    grl = mk_grl(starts, stops, form)
    try:
        ret = clip_grl_start_times(grl_data=grl)
    except Exception as e:  # noqa
        return 'clip_grl_start_times on %s raised %s: %s' % (desc, type(e).__name__, e)
    if ret is not None:
        return 'clip_grl_start_times returned %r' % (ret,)
    new_start = [float(x) for x in grl['start']]
    want = [starts[0]] + [max(starts[i], stops[i - 1]) for i in range(1, n)]
    if new_start != want:
        return 'clip_grl_start_times on %s: start column %r, expected max(start, previous stop) = %r' % (desc, new_start, want)
    if [float(x) for x in grl['stop']] != list(stops) or [int(x) for x in grl['run']] != [1000 + i for i in range(n)] \
            or len(grl) != n:
        return 'clip_grl_start_times on %s changed something else than the start column' % desc
    for i in range(1, n):
        if new_start[i] < stops[i - 1]:
            return 'after clip_grl_start_times run %d starts (%r) before run %d stops (%r)' % (i, new_start[i], i - 1, stops[i - 1])
    # -- clip, then build: sorted columns with start <= stop  =>  construction succeeds and on-time = union of the original runs
    cols_sorted = (all(a <= b for a, b in zip(starts, starts[1:])) and all(a <= b for a, b in zip(stops, stops[1:]))
                   and all(a <= b for a, b in runs))
    cflat = [x for p in zip(new_start, stops) for x in p]
    cok = all(a <= b for a, b in zip(cflat, cflat[1:]))
    try:
        lt = I3Livetime.from_grl_data(grl)
        acc = True
    except ValueError:
        acc = False
    except Exception as e:  # noqa
        return 'clip + I3Livetime.from_grl_data on %s raised %s: %s' % (desc, type(e).__name__, e)
    if cols_sorted and not acc:
        return 'clip_grl_start_times + I3Livetime.from_grl_data rejected %s (sorted columns, start <= stop)' % desc
    if acc != cok:
        return 'clip + I3Livetime.from_grl_data on %s accepted=%s but the clipped rows are valid=%s' % (desc, acc, cok)
    if acc and cols_sorted:
        ts = sorted(set(flat_ + [float(np.nextafter(x, -np.inf)) for x in flat_] + [float(np.nextafter(x, np.inf)) for x in flat_]
                        + [(a + b) / 2 for a, b in zip(flat_, flat_[1:])]))
        got = lt.is_on(np.array(ts, dtype=np.float64))
        for t, g in zip(ts, got):
            w = any(a <= t < b for a, b in runs)
            if bool(g) != w:
                return ('after clip_grl_start_times + from_grl_data on %s: is_on(%r) = %s but the time lies %s a run'
                        % (desc, t, bool(g), 'inside' if w else 'outside'))
        # live time = measure of the union of the runs
        un, cur = Fraction(0), None
        for a, b in runs:
            a, b = fr(a), fr(b)
            if cur is None or a > cur[1]:
                if cur is not None:
                    un += cur[1] - cur[0]
                cur = [a, b]
            else:
                cur[1] = max(cur[1], b)
        if cur is not None:
            un += cur[1] - cur[0]
        tot = sum(abs(b - a) for a, b in runs) + 1e-300
        if not np.isfinite(float(lt.livetime)) or abs(Fraction(float(lt.livetime)) - un) > Fraction(1e-9) * Fraction(tot):
            return 'after clip + from_grl_data on %s: live time %r, measure of the union of the runs %r' % (desc, float(lt.livetime), float(un))
    return None


# ------------------------------------------------------------------------------------------
# oracles: (ctx, case) -> None | failure text     (run on the implementation only)

def o_is_on(ctx, case):
    ivs, ts = case['ivs'], case['ts']
    lt = mk(ivs)
    got = lt.is_on(np.array(ts, dtype=np.float64))
    for t, g in zip(ts, got):
        if bool(g) != ref_is_on(ivs, t):
            return 'is_on(%r) = %s but the half-open intervals %r say %s' % (t, bool(g), ivs, not bool(g))
    # every documented / numpy-compatible argument form answers like the array call (form chosen per value, replayable)
    for t in ts[:6]:
        for name, arg in arg_forms(t):
            try:
                g0 = lt.is_on(arg)
                l0 = lt.get_livetime_upto(arg)
            except Exception as e:  # noqa
                return 'is_on / get_livetime_upto(%s %r) on %r raised %s: %s' % (name, t, ivs, type(e).__name__, e)
            if bool(np.atleast_1d(g0)[0]) != ref_is_on(ivs, t):
                return 'is_on(%s %r) = %s but the half-open intervals %r say %s' % (name, t, bool(np.atleast_1d(g0)[0]), ivs, ref_is_on(ivs, t))
            if float(np.atleast_1d(l0)[0]) != float(lt.get_livetime_upto(float(t))):
                return 'get_livetime_upto(%s %r) differs from the float call on %r' % (name, t, ivs)
            ctx.count('argform:' + name)
    e0 = lt.is_on(np.array([], dtype=np.float64))
    if np.asarray(e0).shape != (0,) or np.asarray(lt.get_livetime_upto(np.array([], dtype=np.float64))).shape != (0,):
        return 'is_on / get_livetime_upto of an empty array is not an empty array'
    return None


def o_between(ctx, case):
    ivs, t0, t1 = case['ivs'], case['t0'], case['t1']
    lt = mk(ivs)
    try:
        res = lt.get_uptime_intervals_between(t0, t1)
        # scalar forms of the bounds (python float above; numpy scalar, 0-d array, int when integral) must not matter
        sf = [(n, a) for n, a in arg_forms(t0) if n in ('np.float64', '0-d array', 'int', 'np.int64')]
        ef = [(n, a) for n, a in arg_forms(t1) if n in ('np.float64', '0-d array', 'int', 'np.int64')]
        k = layout_of([(t0, t1)])
        (n0, a0), (n1, a1) = sf[k % len(sf)], ef[(k // 2) % len(ef)]
        res2 = lt.get_uptime_intervals_between(a0, a1)
        ctx.count('argform:between:%s,%s' % (n0, n1))
        if np.asarray(res2).tolist() != np.asarray(res).tolist():
            return ('get_uptime_intervals_between(%s %r, %s %r) on %r = %r differs from the call with python floats %r'
                    % (n0, t0, n1, t1, ivs, np.asarray(res2).tolist(), np.asarray(res).tolist()))
    except Exception as e:  # noqa
        return 'get_uptime_intervals_between(%r, %r) on %r raised %s: %s' % (t0, t1, ivs, type(e).__name__, e)
    res = np.asarray(res)
    if res.ndim != 2 or res.shape[1] != 2:
        return 'result has shape %r, not (N,2)' % (res.shape,)
    want = merged(ref_intersection(ivs, t0, t1))
    got = merged([(a, b) for a, b in res.tolist()])
    if got != want:
        return 'get_uptime_intervals_between(%r, %r) on %r = %r, but on-time ∩ window = %r' % (
            t0, t1, ivs, res.tolist(), [(float(a), float(b)) for a, b in want])
    rows = res.tolist()
    for a, b in rows:
        if a > b:
            return 'returned interval (%r, %r) is reversed' % (a, b)
    # array level: rows sorted and non-overlapping; a degenerate row only where the input has a zero-length interval
    flat_ = [x for r in rows for x in r]
    if any(x > y for x, y in zip(flat_, flat_[1:])):
        return 'get_uptime_intervals_between(%r, %r) on %r = %r is not a sorted, non-overlapping interval array' % (t0, t1, ivs, rows)
    zero_in = set(a for a, b in ivs if a == b)
    for a, b in rows:
        if a == b and a not in zero_in:
            return ('get_uptime_intervals_between(%r, %r) on %r returns the zero-length row [%r, %r) although no up-time interval of '
                    'zero length lies there (expected: %s)' % (t0, t1, ivs, a, b, 'an empty array' if not want else 'only the on-time pieces'))
    if len(rows) != len(set(map(tuple, rows))) and len(set(map(tuple, ivs))) == len(ivs):
        return 'get_uptime_intervals_between(%r, %r) on %r = %r lists a row twice' % (t0, t1, ivs, rows)
    return None


def o_upto(ctx, case):
    ivs, ts = case['ivs'], case['ts']
    lt = mk(ivs)
    if case.get('via') == 'subset':
        # the Livetime that get_data_subset hands back for a window (round 7: windows without on-time give a Livetime without intervals)
        from skyllh.core.dataset import DatasetData, get_data_subset
        from skyllh.core.storage import DataFieldRecordArray
        exp = DataFieldRecordArray({'time': np.array(ts, dtype=np.float64)}, copy=True)
        (t0, t1) = case['win']
        try:
            (_, lt) = get_data_subset(DatasetData(data_exp=exp, data_mc=exp.copy(), livetime=lt.livetime), lt, t0, t1)
        except Exception as e:  # noqa
            return 'get_data_subset(%r, %r) on %r raised %s: %s' % (t0, t1, ivs, type(e).__name__, e)
        ivs = [(float(lo), float(hi)) for lo, hi in ref_intersection(ivs, t0, t1)] if all(np.isfinite([t0, t1])) else \
            [(float(a), float(b)) for a, b in np.asarray(lt.uptime_mjd_intervals_arr)]
    tot = sum(abs(b - a) for a, b in ivs) + 1e-300
    for t in ts:
        try:
            got = lt.get_livetime_upto(t)
            got_arr = lt.get_livetime_upto(np.array([t, t]))
        except Exception as e:  # noqa
            return 'get_livetime_upto(%r) on %r raised %s: %s' % (t, ivs, type(e).__name__, e)
        want = sum((min(fr(b), fr(t)) - min(fr(a), fr(t)) for a, b in ivs), Fraction(0))
        if not np.isfinite(float(got)):
            return 'get_livetime_upto(%r) on %r = %r, on-time before t = %r' % (t, ivs, float(got), float(want))
        if abs(Fraction(float(got)) - want) > Fraction(1e-9) * Fraction(tot) + abs(fr(t)) * Fraction(2e-16):
            return 'get_livetime_upto(%r) on %r = %r, on-time before t = %r' % (t, ivs, float(got), float(want))
        if float(got_arr[0]) != float(got):
            return 'array and scalar form of get_livetime_upto(%r) differ' % t
    # one heterogeneous array call must equal the scalar calls element-wise (list, tuple and ndarray input)
    try:
        scal = [float(lt.get_livetime_upto(t)) for t in ts]
        for form in (np.array(ts, dtype=np.float64), list(ts), tuple(ts)):
            arr = np.asarray(lt.get_livetime_upto(form), dtype=np.float64)
            if arr.shape != (len(ts),) or [float(x) for x in arr] != scal:
                return 'get_livetime_upto(%s of %r) = %r differs from the scalar calls %r' % (type(form).__name__, ts, arr.tolist(), scal)
    except Exception as e:  # noqa
        return 'get_livetime_upto(array %r) on %r raised %s: %s' % (ts, ivs, type(e).__name__, e)
    return None


class _StubRandom:
    """hands out the prescribed uniform deviates for any of numpy's call forms of a U[0,1) draw"""
    def __init__(self, us):
        self.us = np.array(us, dtype=np.float64)

    def _u(self, *args, **kw):
        return self.us.copy()

    def uniform(self, low=0.0, high=1.0, size=None):
        return low + (high - low) * self.us.copy()

    random_sample = random = rand = _u


class _StubRSS:
    def __init__(self, us):
        self.random = _StubRandom(us)


def o_draw(ctx, case):
    ivs, us, t0, t1 = case['ivs'], case['us'], case.get('t0'), case.get('t1')
    lt = mk(ivs)
    what = 'draw_ontimes'
    try:
        if case.get('via') == 'generator':
            from skyllh.core.times import LivetimeTimeGenerationMethod, TimeGenerator
            what = 'TimeGenerator(LivetimeTimeGenerationMethod).generate_times'
            xs = TimeGenerator(LivetimeTimeGenerationMethod(lt)).generate_times(_StubRSS(us), len(us), t_min=t0, t_max=t1)
        else:
            xs = lt.draw_ontimes(_StubRSS(us), len(us), t_min=t0, t_max=t1)
    except Exception as e:  # noqa
        return '%s on %r window (%r,%r) raised %s: %s' % (what, ivs, t0, t1, type(e).__name__, e)
    if len(xs) != len(us):
        return '%s returned %d values for size=%d' % (what, len(xs), len(us))
    try:
        x0 = lt.draw_ontimes(_StubRSS([]), 0, t_min=t0, t_max=t1)
        if np.asarray(x0).shape != (0,):
            return 'draw_ontimes(size=0) returned shape %r' % (np.asarray(x0).shape,)
        xs_np = lt.draw_ontimes(_StubRSS(us), np.int64(len(us)), t_min=t0, t_max=t1)
        if [float(v) for v in xs_np] != [float(v) for v in (xs if case.get('via') != 'generator' else xs_np)]:
            return 'draw_ontimes(size=np.int64(%d)) differs from size=%d' % (len(us), len(us))
    except Exception as e:  # noqa
        return 'draw_ontimes(size=0 / numpy int) on %r window (%r,%r) raised %s: %s' % (ivs, t0, t1, type(e).__name__, e)
    lo = ivs[0][0] if t0 is None else t0
    hi = ivs[-1][1] if t1 is None else t1
    # IEEE rounding is outside the theorems: a drawn time may sit within a few units of rounding (relative to the magnitudes that
    # enter the inverse CDF: edges and cumulative live time) of an edge of an interval of positive length; counted, not a violation.
    # (Rewrites that re-associate `lower + (w - cum)` move draws by such amounts.)  Anything beyond that is a violation.
    scale = max([abs(v) for p_ in ivs for v in p_] + [sum(b_ - a_ for a_, b_ in ivs)])
    tol = 16 * 2.220446049250313e-16 * scale
    for u, x in zip(us, xs):
        exact = any(a <= x < b for a, b in ivs) and lo <= x <= hi
        ok = exact or (any(b > a and a - tol <= x <= b + tol for a, b in ivs) and lo - tol <= x <= hi + tol)
        if ok and not exact:
            ctx.count('draw:within-rounding-of-an-edge')
        if not ok:
            return '%s: u=%r gives t=%r which is not on-time inside the window (%r,%r) of %r' % (what, u, x, t0, t1, ivs)
    return None


def o_subset(ctx, case):
    from skyllh.core.dataset import DatasetData, get_data_subset
    from skyllh.core.storage import DataFieldRecordArray
    ivs, times, t0, t1 = case['ivs'], case['times'], case['t0'], case['t1']
    n = len(times)
    exp = DataFieldRecordArray({'time': np.array(times, dtype=np.float64), 'tag': np.arange(n)}, copy=True)
    mc = DataFieldRecordArray({'time': np.array(times[::-1], dtype=np.float64), 'tag': np.arange(n)[::-1].copy()}, copy=True)
    lt = mk(ivs)
    data = DatasetData(data_exp=exp, data_mc=mc, livetime=lt.livetime)
    try:
        (sub, ltsub) = get_data_subset(data, lt, t0, t1)
    except Exception as e:  # noqa
        return 'get_data_subset window (%r,%r) on %r raised %s: %s' % (t0, t1, ivs, type(e).__name__, e)
    want = [i for i, t in enumerate(times) if t0 <= t < t1]
    if list(sub.exp['tag']) != want:
        return 'get_data_subset kept exp rows %r, expected %r (window %r,%r)' % (list(sub.exp['tag']), want, t0, t1)
    if sorted(sub.mc['tag']) != want:
        return 'get_data_subset kept mc rows %r, expected %r' % (sorted(sub.mc['tag']), want)
    wantlt = sum((hi - lo for lo, hi in ref_intersection(ivs, t0, t1)), Fraction(0))
    tot = sum(abs(b - a) for a, b in ivs) + 1e-300
    if not np.isfinite(float(ltsub.livetime)) or abs(Fraction(float(ltsub.livetime)) - wantlt) > Fraction(1e-9) * Fraction(tot):
        return 'get_data_subset live time %r, on-time inside the window is %r' % (float(ltsub.livetime), float(wantlt))
    if abs(float(sub.livetime) - float(ltsub.livetime)) > 1e-9 * tot:
        return 'DatasetData.livetime of the subset differs from the Livetime of the subset'
    # the Livetime of the subset holds exactly on-time ∩ window (as a set), without rows of zero length the input does not have
    rows = [tuple(r) for r in np.asarray(ltsub.uptime_mjd_intervals_arr).tolist()]
    if merged(rows) != merged(ref_intersection(ivs, t0, t1)):
        return 'get_data_subset window (%r,%r) on %r: the Livetime of the subset holds %r, on-time ∩ window is %r' % (
            t0, t1, ivs, rows, [(float(a), float(b)) for a, b in merged(ref_intersection(ivs, t0, t1))])
    zero_in = set(a for a, b in ivs if a == b)
    for a, b in rows:
        if a == b and a not in zero_in:
            return 'get_data_subset window (%r,%r) on %r: the Livetime of the subset has the zero-length row [%r, %r)' % (t0, t1, ivs, a, b)
    return None


def o_integrity(ctx, case):
    from skyllh.core.livetime import Livetime
    edges = case['edges']
    ok = all(a <= b for a, b in zip(edges, edges[1:]))
    try:
        Livetime(mk_array([(edges[i], edges[i + 1]) for i in range(0, len(edges), 2)]))
        acc = True
    except ValueError:
        acc = False
    if acc != ok:
        return 'Livetime(%r) accepted=%s but edges non-decreasing=%s' % (edges, acc, ok)
    return None


def _answers(lt, ts, wins, us):
    """every query of the property on one object, canonicalised (exceptions by class name)"""
    out = []

    def call(f):
        try:
            r = f()
            return np.asarray(r, dtype=np.float64).ravel().tolist() if not isinstance(r, (bool, np.bool_)) else bool(r)
        except Exception as e:  # noqa
            return 'EXC:' + type(e).__name__
    out.append(call(lambda: lt.is_on(np.array(ts))))
    out.append([call(lambda t=t: lt.get_livetime_upto(t)) for t in ts])
    out.append([call(lambda w=w: lt.get_uptime_intervals_between(*w)) for w in wins])
    out.append(call(lambda: lt.livetime))
    out.append(call(lambda: lt.time_window))
    for w in [(None, None)] + list(wins):
        out.append(call(lambda w=w: lt.draw_ontimes(_StubRSS(us), len(us), t_min=w[0], t_max=w[1])))
    return out


def o_history(ctx, case):
    """One Livetime object through a history of [queries, assign new intervals (public setter), queries, …]:
    every answer must be the answer of a freshly constructed object holding the current intervals."""
    sets, ts, wins, us = case['sets'], case['ts'], case['wins'], case['us']
    lt = mk(sets[0])
    for k, ivs in enumerate(sets):
        if k > 0:
            lt.uptime_mjd_intervals_arr = mk_array(ivs)
            # a rejected assignment (unsorted edges) must raise and keep the intervals just assigned
            if len(ivs) >= 1 and ivs[0][0] < ivs[-1][1]:
                bad = np.array(ivs, dtype=np.float64).reshape((-1, 2))[::-1, ::-1].copy()
                try:
                    lt.uptime_mjd_intervals_arr = bad
                    return 'the setter accepted the unsorted interval array %r' % bad.tolist()
                except ValueError:
                    pass
        for rep in range(2):
            used = _answers(lt, ts, wins, us)
            fresh = _answers(mk(ivs), ts, wins, us)
            if repr(used) != repr(fresh):
                for a, b, name in zip(used, fresh, ['is_on', 'get_livetime_upto', 'get_uptime_intervals_between', 'livetime', 'time_window'] + ['draw_ontimes'] * 99):
                    if repr(a) != repr(b):
                        return ('after %d assignment(s) of new up-time intervals (now %r, before %r) %s answers %r, a fresh Livetime '
                                'on the same intervals answers %r' % (k, ivs, sets[k - 1] if k else None, name, a, b))
    return None


def o_alias(ctx, case):
    """Arrays handed out by the window query / the data subset are the caller's: writing into them must not change the
    Livetime they came from (no view of the internal interval array is returned)."""
    from skyllh.core.dataset import DatasetData, get_data_subset
    from skyllh.core.storage import DataFieldRecordArray
    ivs, wins, ts = case['ivs'], case['wins'], case['ts']
    for w in wins:
        lt = mk(ivs)
        before = _answers(lt, ts, [], [0.25])
        try:
            res = lt.get_uptime_intervals_between(*w)
        except Exception:  # noqa
            continue
        if isinstance(res, np.ndarray) and res.size:
            try:
                res[...] = res + 1e3
            except ValueError:
                pass
        after = _answers(lt, ts, [], [0.25])
        if repr(before) != repr(after):
            return 'writing into the array returned by get_uptime_intervals_between%r changed the answers of the Livetime on %r' % (tuple(w), ivs)
        lt = mk(ivs)
        exp = DataFieldRecordArray({'time': np.array(ts, dtype=np.float64)}, copy=True)
        data = DatasetData(data_exp=exp, data_mc=exp.copy(), livetime=lt.livetime)
        try:
            (sub, ltsub) = get_data_subset(data, lt, *w)
        except Exception:  # noqa
            continue
        arr = ltsub.uptime_mjd_intervals_arr
        if arr.size:
            try:
                arr[...] = arr + 1e3
            except ValueError:
                pass
        after = _answers(lt, ts, [], [0.25])
        if repr(before) != repr(after):
            return 'editing the Livetime of the data subset for window %r changed the original Livetime on %r' % (tuple(w), ivs)
    # the array handed IN stays the caller's: overwriting it after construction / after the setter must not change the answers
    # (any memory layout; a read-only input cannot be overwritten and is skipped)
    from skyllh.core.livetime import Livetime
    for via_setter in (False, True):
        arr = mk_array(ivs)
        if not arr.flags.writeable:
            continue
        if via_setter:
            lt = Livetime(np.array([[-1e9, -1e9 + 1.0]], dtype=np.float64))
            lt.uptime_mjd_intervals_arr = arr
        else:
            lt = Livetime(arr)
        before = _answers(lt, ts, wins, [0.25])
        base = arr.base if arr.base is not None else arr
        try:
            arr[...] = arr * 3.0 + 7.0
            if isinstance(base, np.ndarray) and base is not arr and base.flags.writeable:
                base[...] = np.where(np.isnan(base), base, base * 3.0 + 7.0)
        except ValueError:
            continue
        after = _answers(lt, ts, wins, [0.25])
        if repr(before) != repr(after):
            return ('overwriting the interval array in place after it was handed to %s changed the answers of the Livetime on %r '
                    '(layout %d)' % ('the uptime_mjd_intervals_arr setter' if via_setter else 'the constructor', ivs, layout_of(ivs)))
        ctx.count('alias:input-overwritten')
    return None


# ---- correspondence relations (model vs implementation), usable for replay as well

def _impl_between(ivs, t0, t1):
    try:
        return flist(np.asarray(mk(ivs).get_uptime_intervals_between(t0, t1)).ravel())
    except Exception:  # noqa  -- every exception is the one error token of the model
        return 'ERR'


def o_corr(ctx, case):
    """bit-exact agreement of model and implementation on one case (kind, args)."""
    req, impl = _corr_lines(case)
    model = ctx.driver('C14', [req])[0]
    return _corr_compare(case, impl, model)


def _corr_lines(case):
    k = case['kind']
    if k in R7_KINDS:
        from harness import c14_r7_fixtures as r7
        return r7.lines(case)
    ivs = case['ivs']
    es = flist([x for p in ivs for x in p])
    if k == 'ison':
        t = case['t']
        return 'ison %s %s' % (es, f2b(t)), '1' if bool(mk(ivs).is_on(t)[0]) else '0'
    if k == 'between':
        return 'between %s %s %s' % (es, f2b(case['t0']), f2b(case['t1'])), _impl_between(ivs, case['t0'], case['t1'])
    if k == 'upto':
        try:
            v = f2b(mk(ivs).get_livetime_upto(case['t']))
        except Exception as e:  # noqa
            v = 'ERR'
        return 'upto %s %s' % (es, f2b(case['t'])), v
    if k == 'draw':
        try:
            v = f2b(mk(ivs).draw_ontimes(_StubRSS([case['u']]), 1)[0])
        except Exception as e:  # noqa
            v = 'ERR'
        return 'draw %s %s' % (es, f2b(case['u'])), v
    if k == 'drawwin':
        try:
            v = f2b(mk(ivs).draw_ontimes(_StubRSS([case['u']]), 1, t_min=case['a0'], t_max=case['a1'])[0])
        except Exception as e:  # noqa
            v = 'ERR'
        opt = lambda x: 'N' if x is None else f2b(x)  # noqa
        return 'drawwin %s %s %s %s' % (es, opt(case['a0']), opt(case['a1']), f2b(case['u'])), v
    if k == 'gentime':
        from skyllh.core.times import LivetimeTimeGenerationMethod, TimeGenerator
        kw = {}
        if case['a0'] is not None or case['form']:
            kw['t_min'] = case['a0']
        if case['a1'] is not None or case['form']:
            kw['t_max'] = case['a1']
        try:
            v = f2b(TimeGenerator(LivetimeTimeGenerationMethod(mk(ivs))).generate_times(_StubRSS([case['u']]), 1, **kw)[0])
        except Exception as e:  # noqa
            v = 'ERR'
        opt = lambda x: 'N' if x is None else f2b(x)  # noqa
        return 'gentime %s %s %s %s' % (es, opt(case['a0']), opt(case['a1']), f2b(case['u'])), v
    if k in ('clip', 'grl', 'grlclip'):
        from skyllh.analyses.i3.publicdata_ps.utils import clip_grl_start_times
        from skyllh.i3.livetime import I3Livetime
        grl = mk_grl(case['starts'], case['stops'], case['form'])
        try:
            if k != 'grl':
                clip_grl_start_times(grl_data=grl)
            if k == 'clip':
                v = flist([float(x) for x in grl['start']])
            else:
                v = flist([float(x) for x in I3Livetime.from_grl_data(grl).uptime_mjd_intervals_arr.reshape((-1,))])
        except ValueError:
            v = 'ERR'
        return '%s %s %s' % (k, flist(case['starts']), flist(case['stops'])), v
    if k == 'subset':
        from skyllh.core.dataset import DatasetData, get_data_subset
        from skyllh.core.storage import DataFieldRecordArray
        times = case['times']
        try:
            lt = mk(ivs)
            exp = DataFieldRecordArray({'time': np.array(times, dtype=np.float64), 'tag': np.arange(len(times))}, copy=True)
            data = DatasetData(data_exp=exp, data_mc=exp.copy(), livetime=lt.livetime)
            (sub, ltsub) = get_data_subset(data, lt, case['t0'], case['t1'])
            kept = set(int(x) for x in sub.exp['tag'])
            mask = ','.join('1' if i in kept else '0' for i in range(len(times))) or '-'
            v = '%s %s %s' % (mask, flist(np.asarray(ltsub.uptime_mjd_intervals_arr).ravel()), f2b(ltsub.livetime))
        except Exception as e:  # noqa
            v = 'ERR'
        return 'subset %s %s %s %s' % (es, flist(times), f2b(case['t0']), f2b(case['t1'])), v
    if k == 'integ':
        from skyllh.core.livetime import Livetime
        edges = case['edges']
        try:
            Livetime(mk_array([(edges[i], edges[i + 1]) for i in range(0, len(edges), 2)]))
            v = '1'
        except ValueError:
            v = '0'
        return 'integ %s' % flist(edges), v
    raise ValueError(k)


def _corr_compare(case, impl, model):
    k = case['kind']
    if k in R7_KINDS:
        from harness import c14_r7_fixtures as r7
        return r7.compare(case, impl, model)
    if k == 'between':
        idx, spec = [x.split(':', 1)[1] for x in model.split(' ')]
        if impl != idx:
            return 'between: implementation %s, index model %s' % (impl, idx)
        if idx != 'ERR' and not (case['t1'] <= case['t0']) and idx != spec:
            return 'between: index model %s differs from specification model %s' % (idx, spec)
        return None
    if k == 'subset' and impl != model and impl != 'ERR' and model != 'ERR':
        (mi, ri, li), (mm, rm, lm) = impl.split(' '), model.split(' ')
        scale = sum(abs(x) for p in case['ivs'] for x in p) * 2.3e-16 * (len(case['ivs']) + 2) + 1e-300
        if mi == mm and ri == rm and abs(b2f(li) - b2f(lm)) <= scale + 1e-9 * sum(abs(b - a) for a, b in case['ivs']):
            return None     # np.sum is pairwise, the model sums sequentially
    if impl != model:
        if k in ('upto', 'draw', 'drawwin', 'gentime') and impl.isdigit() and model.isdigit():
            # computed floats: bit-exactness is diagnostic only; the verdict relation is a tolerance
            a, b = b2f(impl), b2f(model)
            scale = sum(abs(x) for p in case['ivs'] for x in p) + abs(case.get('t', 0.0))
            if abs(a - b) <= 1e-9 * scale:
                return None
        return '%s: implementation %s, model %s' % (k, impl, model)
    return None


ORACLES = {
    'is_on': o_is_on, 'between': o_between, 'upto': o_upto, 'draw': o_draw, 'subset': o_subset,
    'integrity': o_integrity, 'corr': o_corr, 'history': o_history, 'alias': o_alias, 'grl': o_grl,
    'loader': lambda ctx, case: __import__('harness.c14_r7_fixtures', fromlist=['o_loader']).o_loader(ctx, case),
    'props': lambda ctx, case: __import__('harness.c14_r7_fixtures', fromlist=['o_props']).o_props(ctx, case),
    'guard': lambda ctx, case: __import__('harness.c14_r7_fixtures', fromlist=['o_guard']).o_guard(ctx, case),
}

# which property oracle looks at the same behaviour as a correspondence kind
_ORACLE_OF_KIND = {'ison': 'is_on', 'between': 'between', 'upto': 'upto', 'draw': 'draw', 'drawwin': 'draw', 'gentime': 'draw', 'subset': 'subset', 'integ': 'integrity',
                   'clip': 'grl', 'grl': 'grl', 'grlclip': 'grl',
                   'assertint': 'guard', 'construct': 'guard', 'props': 'props', 'intlt': 'props', 'isonv': 'props', 'uptoarg': 'upto',
                   'drawmany': 'draw', 'hist': 'history', 'grlfiles': 'loader', 'i3ds': 'loader', 'subsetfull': 'subset'}


def _oracle_case_for(case):
    k = case['kind']
    if k == 'hist':
        sets = [case['ivs']] + [[(o['data'][i], o['data'][i + 1]) for i in range(0, len(o['data']) - 1, 2)] for o in case['ops']
                                if o['op'] == 'set' and o['data']]
        hts = [o['t'] for o in case['ops'] if 't' in o] or [0.0]
        return {'sets': sets, 'ts': hts, 'wins': [(o['a'], o['b']) for o in case['ops'] if o['op'] == 'btw'] or [(float('-inf'), float('inf'))],
                'us': [0.0, 0.3, 0.77]}
    if k in ('grlfiles', 'i3ds'):
        return {'files': case['files'] or [[list(p) for p in case['ivs']]]}
    if k in ('assertint', 'construct'):
        return {'nd': case['nd'], 'dt': case['dt'], 'shape': case['shape'], 'data': case['data']}
    if k in ('props', 'intlt', 'isonv'):
        return {'ivs': case['ivs'] or [(0.0, 1.0)], 'ts': case.get('ts') or [x for p in case['ivs'] for x in p]}
    if k == 'uptoarg':
        return {'ivs': case['ivs'], 'ts': case['ts']}
    if k == 'drawmany':
        return {'ivs': case['ivs'], 'us': case['us'] or [0.5], 't0': case['a0'], 't1': case['a1']}
    if k == 'subsetfull':
        return {'ivs': case['ivs'], 'times': case['exp'] + case['mc'], 't0': case['t0'], 't1': case['t1']}
    if k == 'ison':
        return {'ivs': case['ivs'], 'ts': [case['t']]}
    if k == 'between':
        return {'ivs': case['ivs'], 't0': case['t0'], 't1': case['t1']}
    if k == 'upto':
        return {'ivs': case['ivs'], 'ts': [case['t']]}
    if k == 'draw':
        return {'ivs': case['ivs'], 'us': [case['u']]}
    if k == 'drawwin':
        return {'ivs': case['ivs'], 'us': [case['u']], 't0': case['a0'], 't1': case['a1']}
    if k == 'gentime':
        return {'ivs': case['ivs'], 'us': [case['u']], 't0': case['a0'], 't1': case['a1'], 'via': 'generator'}
    if k in ('clip', 'grl', 'grlclip'):
        return {'starts': case['starts'], 'stops': case['stops'], 'form': case['form']}
    if k == 'subset':
        return {'ivs': case['ivs'], 'times': case['times'], 't0': case['t0'], 't1': case['t1']}
    if k == 'integ':
        return {'edges': case['edges']}


def run(ctx):
    rng = ctx.rng
    ctx.rule = ('interval sets: 1..40 sorted non-overlapping intervals (grid-aligned or random floats; touching, '
                'zero-length intervals and gaps, MJD-sized and tiny scales); queries at every edge, its float '
                'neighbours, midpoints of intervals and gaps, outside; windows over all pairs of such times; '
                'a case is non-trivial when distinct by (kind, intervals, arguments)')
    ctx.trusted_base += ['correspondence harness harness/props/c14.py (bit-exact comparison)',
                         'numpy.digitize / cumsum semantics re-implemented in Model/Livetime.lean',
                         'IEEE rounding is outside the theorems (ordered-field statements)']
    ctx.assumptions += ['array descriptions handed to the modelled integrity check have as many elements as the product of their shape (numpy invariant; C14R7.WfDesc)',
                        'interval arrays satisfy assert_mjd_intervals_integrity (non-decreasing edges)',
                        'windows have t_start <= t_end']
    n_sets = ctx.n(60, 1500)
    cases = []
    oracle_cases = []
    for _ in range(n_sets):
        ivs = gen_intervals(rng)
        ts = interesting_times(rng, ivs)
        ctx.count('n_intervals=%s' % (len(ivs) if len(ivs) < 6 else '6+'))
        ctx.count('provenance:%s' % ['fresh', 'copy', 'deepcopy', 'pickle', 'setter-on-other'][provenance_of(ivs)])
        ctx.count('layout:%d' % layout_of(ivs))
        oracle_cases.append(('is_on', {'ivs': ivs, 'ts': ts}))
        oracle_cases.append(('upto', {'ivs': ivs, 'ts': rng.sample(ts, min(len(ts), 8))}))
        for t in rng.sample(ts, min(len(ts), 10)):
            cases.append({'kind': 'ison', 'ivs': ivs, 't': t})
            cases.append({'kind': 'upto', 'ivs': ivs, 't': t})
        sts = sorted(ts)
        for _ in range(ctx.n(12, 30)):
            i = rng.randrange(len(sts))
            j = rng.randrange(i, len(sts))
            t0, t1 = sts[i], sts[j]
            if rng.random() < 0.08:
                t0 = float('-inf')
            if rng.random() < 0.08:
                t1 = float('inf')
            cases.append({'kind': 'between', 'ivs': ivs, 't0': t0, 't1': t1})
            oracle_cases.append(('between', {'ivs': ivs, 't0': t0, 't1': t1}))
            cls = 'window:' + ('empty' if not ref_intersection(ivs, t0, t1) else 'nonempty')
            ctx.count(cls)
            for c_ in _window_classes(ivs, t0, t1):
                ctx.count('window-class:' + c_)
        # directed windows: one of each class named in the quantifier (where the interval set allows it)
        for (t0, t1) in _directed_windows(rng, ivs):
            cases.append({'kind': 'between', 'ivs': ivs, 't0': t0, 't1': t1})
            oracle_cases.append(('between', {'ivs': ivs, 't0': t0, 't1': t1}))
            for c_ in _window_classes(ivs, t0, t1):
                ctx.count('window-class:' + c_)
        # reversed / empty windows (t1 <= t0): the model says empty array; compared, no oracle beyond emptiness
        for _ in range(2):
            i = rng.randrange(len(sts))
            j = rng.randrange(0, i + 1)
            cases.append({'kind': 'between', 'ivs': ivs, 't0': sts[i], 't1': sts[j]})
            ctx.count('window-class:reversed-or-empty')
            ctx.count('window-class:branch:empty-window-early-return')
        # +-inf as query time
        for t in (float('inf'), float('-inf')):
            cases.append({'kind': 'ison', 'ivs': ivs, 't': t})
            cases.append({'kind': 'upto', 'ivs': ivs, 't': t})
        if sum(b - a for a, b in ivs) > 0:
            us = [0.0, np.nextafter(1.0, 0.0), 0.5] + [rng.random() for _ in range(5)]
            oracle_cases.append(('draw', {'ivs': ivs, 'us': us}))
            for u in us:
                cases.append({'kind': 'draw', 'ivs': ivs, 'u': float(u)})
            # windowed draws (bounds among the interesting times, exactly 0.0 preferred when available, or None)
            for _ in range(ctx.n(4, 8)):
                i = rng.randrange(len(sts))
                j = rng.randrange(i, len(sts))
                t0, t1 = sts[i], sts[j]
                if 0.0 in sts and rng.random() < 0.5:
                    if rng.random() < 0.5:
                        t0 = 0.0
                        t1 = rng.choice([t for t in sts if t >= 0.0])
                    else:
                        t1 = 0.0
                        t0 = rng.choice([t for t in sts if t <= 0.0])
                r = rng.random()
                if r < 0.15:
                    t0 = None
                elif r < 0.3:
                    t1 = None
                lo_ = ivs[0][0] if t0 is None else t0
                hi_ = ivs[-1][1] if t1 is None else t1
                if ref_intersection(ivs, lo_, hi_):
                    oracle_cases.append(('draw', {'ivs': ivs, 'us': us, 't0': t0, 't1': t1}))
                    ctx.count('draw:window' + (':zero-bound' if (t0 == 0.0 and t0 is not None) or (t1 == 0.0 and t1 is not None) else ''))
                    cases.append({'kind': 'drawwin', 'ivs': ivs, 'u': float(rng.choice(us)), 't0': lo_, 't1': hi_,
                                  'a0': t0, 'a1': t1})
                    ctx.count('draw:bounds=' + ('both' if t0 is not None and t1 is not None else 'one-None'))
                    cases.append({'kind': 'gentime', 'ivs': ivs, 'u': float(rng.choice(us)), 'a0': t0, 'a1': t1,
                                  'form': rng.randrange(2)})
                    oracle_cases.append(('draw', {'ivs': ivs, 'us': us, 't0': t0, 't1': t1, 'via': 'generator'}))
        times = [rng.choice(ts) for _ in range(rng.randrange(0, 12))]
        i = rng.randrange(len(sts))
        j = rng.randrange(i, len(sts))
        if ref_intersection(ivs, sts[i], sts[j]) or rng.random() < 0.5:
            oracle_cases.append(('subset', {'ivs': ivs, 'times': times, 't0': sts[i], 't1': sts[j]}))
        cases.append({'kind': 'subset', 'ivs': ivs, 'times': times, 't0': sts[i], 't1': sts[j]})
        # error paths: windowed draws without on-time (both sides must fail), draws on zero live time
        empties = [(a_, b_) for a_, b_ in _directed_windows(rng, ivs) if not ref_intersection(ivs, a_, b_)]
        for (a_, b_) in empties[:2]:
            cases.append({'kind': 'drawwin', 'ivs': ivs, 'u': 0.5, 't0': a_, 't1': b_, 'a0': a_, 'a1': b_})
            ctx.count('draw:window-without-on-time')
        if sum(b - a for a, b in ivs) == 0:
            cases.append({'kind': 'draw', 'ivs': ivs, 'u': 0.5})
            ctx.count('draw:zero-live-time')
        # good-run-list glue
        for _ in range(2):
            starts_, stops_, cls = gen_runs(rng)
            form = rng.randrange(2)
            ctx.count('grl:' + cls)
            oracle_cases.append(('grl', {'starts': starts_, 'stops': stops_, 'form': form}))
            for kk in ('clip', 'grl', 'grlclip'):
                cases.append({'kind': kk, 'ivs': [], 'starts': starts_, 'stops': stops_, 'form': form})
        cases.append({'kind': 'gentime', 'ivs': ivs, 'u': 0.25, 'a0': None, 'a1': None, 'form': 0})
        edges = [x for p in ivs for x in p]
        if rng.random() < 0.5 and len(edges) >= 2:
            k = rng.randrange(len(edges) - 1)
            edges[k], edges[k + 1] = edges[k + 1], edges[k]
        oracle_cases.append(('integrity', {'edges': edges}))
        cases.append({'kind': 'integ', 'ivs': ivs, 'edges': edges})
        # round 7: the widened model (all raising branches of the integrity check, read-only properties, vector forms, good-run-list
        # files and datasets, get_data_subset with guards) + the loader oracle
        from harness import c14_r7_fixtures as r7
        r7cases = r7.gen_cases(ctx, rng, ivs, ts, sts, [0.0, float(np.nextafter(1.0, 0.0)), 0.5] + [rng.random() for _ in range(4)])
        cases += r7cases
        oracle_cases.append(('props', {'ivs': ivs, 'ts': rng.sample(ts, min(len(ts), 5))}))
        # cumulative live time on the Livetime get_data_subset returns (windows with and without on-time)
        wsel = [w_ for w_ in _directed_windows(rng, ivs) if all(np.isfinite(w_))]
        if wsel:
            oracle_cases.append(('upto', {'ivs': ivs, 'ts': rng.sample(ts, min(len(ts), 4)), 'via': 'subset', 'win': list(rng.choice(wsel))}))
        for c_ in r7cases:
            if c_['kind'] in ('assertint', 'construct') and rng.random() < 0.5:
                oracle_cases.append(('guard', {'nd': c_['nd'], 'dt': c_['dt'], 'shape': c_['shape'], 'data': c_['data']}))
        if rng.random() < ctx.n(0.35, 0.5):
            oracle_cases.append(('loader', {'files': [c_ for c_ in r7cases if c_['kind'] == 'grlfiles'][0]['files']}))
        # histories on one object (public setter between query rounds) and aliasing of handed-out arrays
        if rng.random() < ctx.n(0.5, 0.5):
            sets = [ivs] + [gen_intervals(rng, n=rng.choice([1, 2, 3, len(ivs)])) for _ in range(rng.choice([1, 2]))]
            if rng.random() < 0.3:
                sets.append(ivs)
            hts = rng.sample(ts, min(len(ts), 6))
            for other in sets[1:]:
                hts += [x for p in other for x in p][:4]
            lo_all = min(x for ss in sets for p in ss for x in p)
            hi_all = max(x for ss in sets for p in ss for x in p)
            hw = [(float('-inf'), float('inf')), (lo_all, hi_all)]
            for _ in range(2):
                a_, b_ = sorted([rng.choice(hts), rng.choice(hts)])
                hw.append((a_, b_))
            oracle_cases.append(('history', {'sets': sets, 'ts': hts, 'wins': hw, 'us': [0.0, 0.3, 0.77]}))
            oracle_cases.append(('alias', {'ivs': ivs, 'wins': hw, 'ts': hts}))

    # ---- correspondence (batched through one driver process)
    reqs, impls = [], []
    for c in cases:
        r, i = _corr_lines(c)
        reqs.append(r)
        impls.append(i)
    models = ctx.driver('C14', reqs)
    suspicious = []
    for c, i, m in zip(cases, impls, models):
        ctx.case(nontrivial=True, key=(c['kind'], c['ivs'], c.get('t'), c.get('t0'), c.get('t1'), c.get('u'), c.get('a0'), c.get('a1'),
                                       c.get('starts'), c.get('stops'),
                                       repr(sorted((k_, v_) for k_, v_ in c.items() if k_ not in ('kind', 'ivs'))) if c['kind'] in R7_KINDS else None),
                 desc=c if ctx.evaluations % 997 == 0 else None)
        ctx.count('corr:' + c['kind'])
        if c['kind'] in R7_KINDS:
            br = r7.branch_of(c, m)
            for b_ in (br if isinstance(br, list) else [br]):
                ctx.count('r7-branch:' + b_)
        d = _corr_compare(c, i, m)
        if d:
            suspicious.append((c, i, m, d))
    # ---- property oracles on the implementation
    for name, oc in oracle_cases:
        ctx.case(nontrivial=True, key=(name, oc), desc={'oracle': name, 'case': oc} if ctx.evaluations % 499 == 0 else None)
        ctx.count('oracle:' + name)
        res = ORACLES[name](ctx, oc)
        if res:
            ctx.violation(name, oc, res, signature='C14/%s/%s' % (name, _classify(name, oc, res)))
    # ---- disagreements model/implementation: search for a failing input, else report the relation
    seen = set()
    for c, i, m, d in sorted(suspicious, key=lambda x: len(x[0]['ivs'])):
        k = c['kind']
        if k in seen:
            continue
        seen.add(k)
        name = _ORACLE_OF_KIND[k]
        if k == 'hist' and any(o['op'] == 'set' and o['variant'] == 'empty' for o in c['ops']):
            # a history that went through a Livetime without intervals: look at that state first
            oc0 = {'ivs': [], 'ts': [o['t'] for o in c['ops'] if 't' in o] or [0.0]}
            res0 = o_upto(ctx, oc0)
            if res0:
                ctx.violation('upto', oc0, res0, impl_output=i, model_output=m, signature='C14/upto/%s' % _classify('upto', oc0, res0))
                continue
        res = ORACLES[name](ctx, _oracle_case_for(c))
        if res:
            ctx.violation(name, _oracle_case_for(c), res, impl_output=i, model_output=m,
                          signature='C14/%s/%s' % (name, _classify(name, _oracle_case_for(c), res)))
        else:
            ctx.violation('corr', c, 'model and implementation disagree (%s) but no property oracle fails on this input' % d,
                          kind='correspondence', relation='bit-exact ' + k, impl_output=i, model_output=m,
                          signature='C14/corr/' + k, no_failing_input=True)
    ctx.extra['correspondence_disagreements'] = len(suspicious)


def _classify(name, case, res):
    if name == 'upto' and 'raised' in res and (not case['ivs'] or (case.get('via') == 'subset' and not ref_intersection(case['ivs'], *case['win']))):
        import re
        return 'livetime-without-intervals/raises-' + re.search(r'raised (\w+)', res).group(1)
    if name == 'loader':
        import re
        m = re.match(r'(\w+)\(([\w+]*)', res)
        site = (m.group(1) + ('-' + m.group(2) if m.group(2) else '')) if m else 'loader'
        r = re.search(r'raised (\w+)', res)
        return site + '/' + ('raises-' + r.group(1) if r else 'wrong-result')
    if 'raised' in res:
        import re
        m = re.search(r'raised (\w+)', res)
        return 'raises-' + m.group(1)
    return 'wrong-result'

MANIFEST = dict(
    text=('Lean theorems over any linear order / ordered field, all by induction over the interval list: is_on <-> membership in a '
          'half-open interval (touching and zero-length intervals included); the index arithmetic of get_uptime_intervals_between as '
          'coded (early return for an empty window, digitize for the lower and digitize(right=True) for the excluded upper bound, parity '
          'adjustment, flat-array slice) never raises and equals a filter/clip specification, hence on-time ∩ window as a point set, '
          'returns the empty array when there is no on-time (intervals of positive length), no degenerate rows, and again a valid '
          '(sorted) interval array; get_livetime_upto = Σ(min stop t − min start t); draw_ontimes with its None defaults lands in on-time '
          'inside the effective window; get_data_subset composed (mask, intervals, live time = on-time inside the window); the setter '
          'validates first, so after any history the object holds the last accepted sorted list and answers like a fresh object; the good-run-list '
          'glue: clip_grl_start_times leaves no run starting before its predecessor stops and, for sorted start/stop columns, clip + '
          'I3Livetime.from_grl_data yields a valid live time whose on-time is exactly the union of the original runs (nested runs are rejected '
          'by the constructor, proved as the boundary); TimeGenerator / LivetimeTimeGenerationMethod hand through to draw_ontimes. The '
          'executable model is compared (bit-exactly where it only passes values through) with Livetime.is_on / '
          'get_uptime_intervals_between / get_livetime_upto / draw_ontimes / get_data_subset / the integrity check on every run, incl. '
          'error paths; exact-fraction, fresh-vs-used (histories through the setter) and aliasing oracles search the implementation. '
          'Round 7 (Model/LivetimeR7.lean, 23 more theorems): all five raising guards of assert_mjd_intervals_integrity in their order '
          '(accepts exactly float64 (N,2) ndarrays with non-decreasing elements; which exception when), the constructor at the shape '
          'constants regenerated from the source holds exactly the rows and they are a valid list, n_uptime_mjd_intervals / time_start / '
          'time_stop / time_window (contains all on-time; IndexError without rows) / get_integrated_livetime, the sequence forms of is_on '
          'and get_livetime_upto (scalar in - scalar out), whole-vector draw_ontimes (size 0 never fails), I3Livetime.from_grl_files '
          '(rows of all files in file order; on-time = union of the runs of all files) and from_I3Dataset (guards in order), get_data_subset '
          'with both type guards and separate exp / mc masks (empty window: nothing kept, no error), and histories on one object through the '
          'full setter interleaved with the read-only views (rejected assignment of any class keeps the state; the object always holds a valid '
          'list; a view at any point answers like a fresh object). Generated/C14.lean carries semantic facts only (shape constants, right= flags, None defaults, '
          'comparison operators normalised over syntax; unrecognised source shapes fall back to recorded values with a note; the order of '
          'raised exception classes is evidence only) of the current source (c14_structure_for_current_source, '
          'c14_construct_for_current_source, c14_history_r7_sorted_for_current_source). The harness also varies how the Livetime object was '
          'obtained (fresh / copy / deepcopy / pickle / setter on another object) and loads good-run lists from real .npy files through '
          'datasets with absolute and root-dir-relative file names.'),
    note=('IEEE rounding is outside the theorems (e.g. lower + y rounding up to the closed upper edge in draw_ontimes); NaN times and '
          'subnormal times are outside the generated domain; numpy.digitize/cumsum are re-implemented in the model and compared on every '
          'run; np.sum pairwise summation of the total live time is compared with a tolerance; the memory layout of the interval array '
          '(C / Fortran order, strided views, built by from_grl_data) is varied by the harness, the model sees the logical array. The '
          'file loader (create_FileLoader: reading and concatenating the files) and path resolution of Dataset are exercised, not modelled; '
          'exceptions are compared by class, never by message. Two defects found in round 7 are listed as open findings until their fix '
          'commits (0768874, c3f6967 on branch agent-C14-r7) are in /repo.'),
    design='DESIGN.md section 4 C14, review.d/C14.md',
    technique='Lean 4 proof (induction over interval lists, refinement of index arithmetic to a specification) + model/implementation correspondence')
