"""C05 — event selection keeps exactly the qualifying pairs with a valid index map.

Correspondence: the real `EventSelectionMethod.select_events` (all six methods and `&` chains, with and
without incoming pair table) and `TrialDataManager.initialize_trial` (with / without event selection,
with / without index field) against the executable Lean model (criterion layer on Float feeding the
index layer; Driver/C05.lean).  Relation: exact equality of returned events (by tag), pair table and
original indices; near-ties (0 < |margin| < 1e-9) of transcendental bounds are kept out of the generated
cases, exact ties are used only where every implementation performs exact arithmetic.
Property oracle (implementation only): brute-force double loop over (source, event) with the documented
criterion, sequentially for chains; structural checks of the table.
"""
import math
from fractions import Fraction

import numpy as np

from harness.core import MachineryError, f2b, flist, ilist, parse_ilist, unjson_float
from harness import c05_r7_fixtures as r7

MODEL_MODULES = ['SkyllhModel.Model.EvSel', 'SkyllhModel.Model.EvSelR7', 'SkyllhModel.Model.EvSelCrit', 'SkyllhModel.Generated.C05']

# which Python callables have an executable Lean counterpart that the theorems are about AND that run(ctx) compares with the
# real callable on every run
_ES = 'skyllh/core/event_selection.py::'
_TD = 'skyllh/core/trialdata.py::'
MODEL_MAP = {
    _ES + 'AllEventSelectionMethod.select_events': ['EvSel.allMethod', 'EvSel.incTable'],
    _ES + 'DecBandEventSectionMethod.select_events': ['EvSel.maskMethod', 'EvSel.selectByMask', 'EvSel.restrictMask', 'EvSelCrit.inDecBand'],
    _ES + 'RABandEventSectionMethod.select_events': ['EvSel.maskMethod', 'EvSelCrit.inRABandCap'],
    _ES + 'SpatialBoxEventSelectionMethod.select_events': ['EvSel.boxMethod', 'EvSel.batchedMask', 'EvSelCrit.inBoxRaCap',
                                                           'EvSelCrit.inDecBand'],
    _ES + 'PsiFuncEventSelectionMethod.select_events': ['EvSel.psiFuncMethod', 'EvSelCrit.psiFunc'],
    _ES + 'AngErrOfPsiEventSelectionMethod.select_events': ['EvSel.pairMethod', 'EvSel.scatter', 'EvSelCrit.angErrCrit'],
    _ES + 'IntersectionEventSelectionMethod.select_events': ['EvSel.chain'],
    _ES + 'EventSelectionMethod.change_shg_mgr': ['EvSel.EsmObj.changeShgMgr'],
    _ES + 'EventSelectionMethod.create_src_evt_mask': ['EvSel.incMask', 'EvSel.scatter'],
    _ES + 'IntersectionEventSelectionMethod.change_shg_mgr': ['EvSel.chainChangeChecked'],
    _TD + 'TrialDataManager.initialize_trial': ['EvSel.initTrialObj', 'EvSel.TdmObj.initialize', 'EvSel.reindex', 'EvSel.scatterInv',
                                                'EvSel.statedN'],
    _TD + 'TrialDataManager.index_field_name': ['EvSel.TdmObj.setIndexField'],
    _TD + 'TrialDataManager.get_n_values': ['EvSel.TdmObj.nValues'],
    _TD + 'TrialDataManager.n_pure_bkg_events': ['EvSel.TdmObj.nPureBkg'],
    _TD + 'TrialDataManager.broadcast_sources_array_to_values_array': ['EvSel.bcastSources', 'EvSel.bcastLoop', 'EvSel.TdmObj.readSources'],
    _TD + 'TrialDataManager.broadcast_sources_arrays_to_values_arrays': ['EvSel.bcastSourcesMany', 'EvSel.TdmObj.readSourcesMany'],
    _TD + 'TrialDataManager.broadcast_selected_events_arrays_to_values_arrays': ['EvSel.bcastSelected', 'EvSel.bcastSelected1',
                                                                                'EvSel.TdmObj.readSelected'],
    _TD + 'TrialDataManager.get_values_mask_for_source_mask': ['EvSel.valuesMask', 'EvSel.TdmObj.readValuesMask'],
}

PI = math.pi
TWO_PI = 2 * math.pi
HALF_PI = math.pi / 2
NEAR = 1e-9
ES_FILE = 'skyllh/core/event_selection.py'


# ------------------------------------------------------------------------------------------------
# translator part: constants read from the current source

def generated(ctx):
    from harness import extract
    bs = 128
    try:
        v = extract.class_attr(ES_FILE, 'SpatialBoxEventSelectionMethod', 'batch_size')
        if isinstance(v, int) and not isinstance(v, bool):
            bs = v
        else:
            raise LookupError('batch_size is not an int literal: %r' % (v,))
    except Exception as e:  # noqa
        ctx.note('C05: could not extract batch_size (%s); using recorded value 128' % e)
        ctx.proof['generated_fallbacks'].append('batch_size')
    caps = {}
    for cls in ('RABandEventSectionMethod', 'SpatialBoxEventSelectionMethod'):
        caps[cls] = 2 * math.pi
        try:
            caps[cls] = _extract_ra_cap(cls)
        except Exception as e:  # noqa
            ctx.note('C05: could not extract the cap of dRA_half in %s (%s); using recorded value 2*pi' % (cls, e))
            ctx.proof['generated_fallbacks'].append('dRA_half cap ' + cls)
    # defaults of the optional arguments the manager model relies on: initialize_trial(n_events=None, evt_sel_method=None),
    # TrialDataManager(index_field_name=None)
    TD_FILE = 'skyllh/core/trialdata.py'
    dflt = {'n_events': None, 'evt_sel_method': None, 'index_field_name': None}
    for (fn, arg) in (('initialize_trial', 'n_events'), ('initialize_trial', 'evt_sel_method'), ('__init__', 'index_field_name')):
        try:
            dflt[arg] = extract.arg_default(TD_FILE, 'TrialDataManager', fn, arg)
        except Exception as e:  # noqa
            ctx.note('C05: could not extract the default of TrialDataManager.%s(%s) (%s); using recorded value None' % (fn, arg, e))
            ctx.proof['generated_fallbacks'].append('default ' + arg)
    nd = dflt['n_events']
    if nd is None:
        n_events_default = 'none'
    elif isinstance(nd, int) and not isinstance(nd, bool) and nd >= 0:
        n_events_default = 'some %d' % nd
    else:
        n_events_default = 'some 0'
        ctx.note('C05: default of initialize_trial(n_events) is %r, neither None nor a natural number; generated as `some 0`' % (nd,))
    defaults_txt = ('/-- default of `n_events` in TrialDataManager.initialize_trial (`none` = Python None) -/\n'
                    'def nEventsDefault : Option Nat := %s\n'
                    '/-- the default of `evt_sel_method` in TrialDataManager.initialize_trial is None -/\n'
                    'def evtSelDefaultIsNone : Bool := %s\n'
                    '/-- the default of `index_field_name` in TrialDataManager.__init__ is None -/\n'
                    'def indexFieldDefaultIsNone : Bool := %s\n'
                    % (n_events_default, 'true' if dflt['evt_sel_method'] is None else 'false',
                       'true' if dflt['index_field_name'] is None else 'false'))
    return ('-- generated by harness/props/c05.py from the current skyllh source; do not edit\n'
            'namespace Gen.C05\n' + defaults_txt +
            '/-- `batch_size` in SpatialBoxEventSelectionMethod.select_events -/\n'
            'def batchSize : Nat := %d\n'
            '/-- the cap of `dRA_half` in RABandEventSectionMethod.select_events (`np.repeat(<cap>, K)`) -/\n'
            'def raBandCap {F : Type} [OfScientific F] : F := %s\n'
            '/-- the cap of `dRA_half` in SpatialBoxEventSelectionMethod.select_events -/\n'
            'def boxCap {F : Type} [OfScientific F] : F := %s\n'
            'end Gen.C05\n' % (bs, extract.lean_float(caps['RABandEventSectionMethod']),
                               extract.lean_float(caps['SpatialBoxEventSelectionMethod'])))


def _extract_ra_cap(cls):
    """the literal cap in `dRA_half = np.amin([np.repeat(<cap>, K), np.fabs(delta_angle / cosfact)], axis=0)`"""
    import ast
    from harness import extract
    c = extract.find_class(extract.parse(ES_FILE), cls)
    f = extract.find_func(c, 'select_events') if c is not None else None
    if f is None:
        raise LookupError('%s.select_events not found' % cls)
    for node in ast.walk(f):
        if isinstance(node, ast.Assign) and any(isinstance(t, ast.Name) and t.id == 'dRA_half' for t in node.targets):
            v = node.value
            if (isinstance(v, ast.Call) and isinstance(v.func, ast.Attribute) and v.func.attr in ('amin', 'min', 'minimum') and v.args):
                first = v.args[0].elts[0] if isinstance(v.args[0], (ast.List, ast.Tuple)) and v.args[0].elts else v.args[0]
                if isinstance(first, ast.Call) and isinstance(first.func, ast.Attribute) and first.func.attr in ('repeat', 'full') and first.args:
                    arg = first.args[0] if first.func.attr == 'repeat' else first.args[-1]
                    return float(extract.literal(arg))
                return float(extract.literal(first))
    raise LookupError('assignment of dRA_half not recognised in %s' % cls)


# ------------------------------------------------------------------------------------------------
# fixtures: real skyllh objects

_SHG_CLS = None


def _shg(srcs):
    """A SourceHypoGroupManager exposing exactly the given point sources (the two members the event
    selection methods and the trial data manager read: source_list, n_sources)."""
    global _SHG_CLS
    from skyllh.core.source_hypo_grouping import SourceHypoGroupManager
    from skyllh.core.source_model import PointLikeSource
    if _SHG_CLS is None:
        class _Shg(SourceHypoGroupManager):
            def __init__(self, sources):
                super().__init__()
                self._verif_sources = list(sources)

            @property
            def source_list(self):
                return self._verif_sources

            @property
            def n_sources(self):
                return len(self._verif_sources)
        _SHG_CLS = _Shg
    return _SHG_CLS([PointLikeSource(ra, dec) for ra, dec in srcs])


EV_FIELDS = ('ra', 'dec', 'ang_err', 'psi', 'fval', 'key')


LAYOUTS = ('copy', 'strided', 'readonly', 'reversed', 'fortran2d')
KEY_DTYPES = ('float64', 'int64', 'int32', 'float32')
INC_FORMS = ('tuple-int64', 'list-of-lists', 'tuple-int32-uint16', 'list-int64', 'array2d')
NUM_FORMS = ('python', 'numpy', 'int-if-integral', 'str')


def _lay(a, layout):
    """the same values in another memory layout (what a caller may legally hand in)"""
    a = np.ascontiguousarray(a)
    if layout == 'strided':
        return np.repeat(a, 3)[::3]                      # non-contiguous view, stride 3
    if layout == 'readonly':
        b = a.copy()
        b.flags.writeable = False
        return b
    if layout == 'reversed':
        return a[::-1].copy()[::-1]                      # negative stride
    if layout == 'fortran2d':
        m = np.asfortranarray(np.stack([a, a], axis=0))  # a row of a Fortran-ordered 2d array
        return m[1]
    return a.copy()


def _events(evs, glue=None):
    """the events as a DataFieldRecordArray; `glue` picks the memory layout of the field arrays handed in (with
    copy=False for the non-default layouts, so that the record array really holds them) and the dtype of the index field"""
    from skyllh.core.storage import DataFieldRecordArray
    glue = glue or {}
    n = len(evs['ra'])
    d = {k: np.array([unjson_float(x) for x in evs[k]], dtype=np.float64) for k in EV_FIELDS}
    kd = glue.get('key_dtype', 'float64')
    if kd != 'float64':
        d['key'] = d['key'].astype(kd)
    d['tag'] = np.arange(n, dtype=np.int64)
    layout = glue.get('layout', 'copy')
    if layout == 'copy':
        return DataFieldRecordArray(d, copy=True)
    return DataFieldRecordArray({k: _lay(v, layout) for k, v in d.items()}, copy=False)


def _num(x, form):
    """a number in one of the argument forms the cast functions of the package accept"""
    x = unjson_float(x)
    if form == 'numpy':
        return np.float64(x)
    if form == 'int-if-integral' and float(x).is_integer():
        return int(x)
    if form == 'str':
        return repr(float(x))
    return float(x)


def _inc(inc, form):
    """the incoming src_evt_idxs in one of the container / dtype forms"""
    if inc is None:
        return None
    a, b = list(inc[0]), list(inc[1])
    if form == 'list-of-lists':
        return [a, b]
    if form == 'tuple-int32-uint16':
        return (np.array(a, dtype=np.int32), np.array(b, dtype=np.uint16))
    if form == 'list-int64':
        return [np.array(a, dtype=np.int64), np.array(b, dtype=np.int64)]
    if form == 'array2d':
        return np.array([a, b], dtype=np.int64).reshape(2, len(a))
    return (np.array(a, dtype=np.int64), np.array(b, dtype=np.int64))


def gen_glue(rng, default_share=0.5):
    """argument forms and memory layouts as a generated dimension (half of the cases keep the plain forms)"""
    if rng.random() < default_share:
        return {}
    return {'layout': rng.choice(LAYOUTS), 'key_dtype': rng.choice(KEY_DTYPES), 'inc_form': rng.choice(INC_FORMS),
            'num_form': rng.choice(NUM_FORMS), 'nev_form': rng.choice(('int', 'np.int64', 'float'))}


def _linfunc(a, b):
    def func(psi):
        return a + b * psi
    return func


def _fval_func(fval):
    return fval


def _method(shg, m, glue=None):
    from skyllh.core import event_selection as es
    kind = m[0]
    nf = (glue or {}).get('num_form', 'python')
    if kind == 'dec':
        return es.DecBandEventSectionMethod(shg, _num(m[1], nf))
    if kind == 'ra':
        return es.RABandEventSectionMethod(shg, _num(m[1], nf))
    if kind == 'box':
        return es.SpatialBoxEventSelectionMethod(shg, _num(m[1], nf))
    if kind == 'all':
        return es.AllEventSelectionMethod(shg)
    if kind == 'psifunc':
        if len(m) > 1 and m[1] == 'swapped':       # the roles of the two data fields exchanged
            return es.PsiFuncEventSelectionMethod(shg, 'fval', _fval_func, ['psi'])
        return es.PsiFuncEventSelectionMethod(shg, 'psi', _fval_func, ['fval'])
    if kind == 'angerr':
        return es.AngErrOfPsiEventSelectionMethod(
            shg, _linfunc(unjson_float(m[1]), unjson_float(m[2])), psi_floor=_num(m[3], nf))
    raise ValueError(kind)


def _chain(shg, methods, nest, leaves=None, glue=None):
    ms = [_method(shg, m, glue) for m in methods]
    if leaves is not None:
        leaves.extend(ms)
    if not ms:
        return None
    if nest == 'right':
        acc = ms[-1]
        for m in reversed(ms[:-1]):
            acc = m & acc
        return acc
    acc = ms[0]
    for m in ms[1:]:
        acc = acc & m
    return acc


def _tdm_kwargs(st):
    """optional arguments of initialize_trial the case asks for: the stated data-set size `n_events` (None = not
    given) and a TimeLord"""
    kw = {}
    if st.get('n_events') is not None:
        f = (st.get('glue') or {}).get('nev_form', 'int')
        kw['n_events'] = np.int64(st['n_events']) if f == 'np.int64' else float(st['n_events']) if f == 'float' else int(st['n_events'])
    if st.get('tl'):
        from skyllh.core.timing import TimeLord
        kw['tl'] = TimeLord()
    return kw


def _tdm_out(tdm):
    (src, evt) = tdm.src_evt_idxs
    return {'ev': [int(t) for t in tdm.events['tag']], 'src': [int(x) for x in src], 'evt': [int(x) for x in evt],
            'key': [float(x) for x in tdm.events['key']], 'n_selected': int(tdm.n_selected_events),
            'n_values': int(tdm.get_n_values()), 'n_sources': int(tdm.n_sources), 'n_events': int(tdm.n_events),
            'n_pure_bkg': int(tdm.n_pure_bkg_events)}


def run_impl(case):
    """Run the real code.  Returns dict(ev, src, evt[, org]) with plain int lists, or dict(exc=...)."""
    try:
        shg = _shg(case['srcs'])
        events = _events(case['evs'], case.get('glue'))
        events2 = _events(case['evs'], case.get('glue'))
    except Exception as e:  # noqa
        raise MachineryError('C05 fixture construction failed: %s: %s' % (type(e).__name__, e))
    try:
        sel = _chain(shg, case['methods'], case.get('nest', 'left'), glue=case.get('glue'))
        if case['mode'] == 'S':
            inc = case.get('inc')
            sei = None
            if inc is not None:
                sei = _inc(inc, (case.get('glue') or {}).get('inc_form', 'tuple-int64'))
            tlkw = {}
            if case.get('tl'):
                from skyllh.core.timing import TimeLord
                tlkw['tl'] = TimeLord()
            (sel_ev, (src, evt), org) = sel.select_events(events, src_evt_idxs=sei, ret_original_evt_idxs=True, **tlkw)
            # the two-value form must agree with the three-value form
            (sel_ev2, (src2, evt2)) = sel.select_events(events2, src_evt_idxs=_inc(inc, (case.get('glue') or {}).get('inc_form', 'tuple-int64')))
            out = {'ev': [int(t) for t in sel_ev['tag']], 'src': [int(x) for x in src],
                   'evt': [int(x) for x in evt], 'org': [int(x) for x in org]}
            if ([int(t) for t in sel_ev2['tag']] != out['ev'] or [int(x) for x in src2] != out['src']
                    or [int(x) for x in evt2] != out['evt']):
                out['two_value_form_differs'] = True
            return out
        from skyllh.core.trialdata import TrialDataManager
        tdm = TrialDataManager(index_field_name='key' if case.get('index_field') else None)
        tdm.initialize_trial(shg, None, events, evt_sel_method=sel, **_tdm_kwargs(case))
        return _tdm_out(tdm)
    except Exception as e:  # noqa
        return {'exc': '%s: %s' % (type(e).__name__, e)}


# ------------------------------------------------------------------------------------------------
# reference: the documented criterion per (source, event), brute force

def _arr(xs):
    return np.array([unjson_float(x) for x in xs], dtype=np.float64)


def _band(sdec, delta):
    lo = np.maximum(-np.pi / 2, sdec - delta)
    hi = np.minimum(sdec + delta, np.pi / 2)
    return lo, hi


def _dra_half(sdec, delta):
    lo, hi = _band(sdec, delta)
    cosfact = np.minimum(np.cos(lo), np.cos(hi))
    with np.errstate(divide='ignore', invalid='ignore'):
        return np.minimum(2 * np.pi, np.fabs(delta / cosfact))


def _edge_exact(sdec, signed_delta, edge):
    """the band edge is the clipping constant ±π/2, or sdec + signed_delta without rounding"""
    if edge in (HALF_PI, -HALF_PI) and edge != sdec + signed_delta:
        return True
    return Fraction(sdec) + Fraction(signed_delta) == Fraction(edge)


def _dra_half_libm(sdec, delta):
    lo = max(-math.pi / 2, sdec - delta)
    hi = min(sdec + delta, math.pi / 2)
    c = min(math.cos(lo), math.cos(hi))
    if c == 0.0:
        return float('nan')
    return min(2 * math.pi, abs(delta / c))


def _haversine(ra1, dec1, ra2, dec2):
    dra = np.abs(ra1 - ra2)
    ddec = np.abs(dec1 - dec2)
    x = np.sin(ddec / 2.) ** 2. + np.cos(dec1) * np.cos(dec2) * np.sin(dra / 2.) ** 2.
    x = np.clip(x, 0., 1.)
    return 2. * np.arcsin(np.sqrt(x))


def crit_matrix(m, srcs, evs, idx):
    """(decision, margin) matrices of shape (K, len(idx)) for method m on the events evs[idx].
    margin = distance of the closest comparison to its threshold (0 = exact tie).
    Decisions away from a threshold (margin > NEAR) come from `_crit_geometric` — the documented geometry computed
    with formulas that do not occur in the implementation (vector angles, |Δdec| < δ, cos(|dec|+δ)); the
    transcription of the code's float operations (`_crit_transcribed`) only decides exact ties."""
    Dt, Mt = _crit_transcribed(m, srcs, evs, idx)
    g = _crit_geometric(m, srcs, evs, idx)
    if g is None:
        return Dt, Mt
    Dg, Mg = g
    robust = Mg > NEAR
    return np.where(robust, Dg, Dt), np.where(robust, Mg, Mt)


def _vec(ra, dec):
    return np.cos(dec) * np.cos(ra), np.cos(dec) * np.sin(ra), np.sin(dec)


def _crit_geometric(m, srcs, evs, idx):
    kind = m[0]
    if kind not in ('dec', 'ra', 'box', 'angerr'):
        return None
    sra = np.array([s[0] for s in srcs], dtype=np.float64)[:, None]
    sdec = np.array([s[1] for s in srcs], dtype=np.float64)[:, None]
    idx = np.asarray(idx, dtype=np.int64)
    era = _arr(evs['ra'])[idx][None, :]
    edec = _arr(evs['dec'])[idx][None, :]
    if kind == 'angerr':
        a, b, fl = unjson_float(m[1]), unjson_float(m[2]), unjson_float(m[3])
        x1, y1, z1 = _vec(sra + 0 * era, sdec + 0 * edec)
        x2, y2, z2 = _vec(era + 0 * sra, edec + 0 * sdec)
        cx, cy, cz = y1 * z2 - z1 * y2, z1 * x2 - x1 * z2, x1 * y2 - y1 * x2
        psi = np.arctan2(np.sqrt(cx * cx + cy * cy + cz * cz), x1 * x2 + y1 * y2 + z1 * z2)
        ae = _arr(evs['ang_err'])[idx][None, :]
        f = a + b * psi
        return (ae >= f) | (psi < fl), np.minimum(np.abs(ae - f), np.abs(psi - fl))
    delta = unjson_float(m[1])
    # clipped declination band: |Δdec| < δ and strictly inside the sphere's declination range
    d_dec = (np.abs(edec - sdec) < delta) & (np.abs(edec) < np.pi / 2)
    m_dec = np.minimum(np.abs(delta - np.abs(edec - sdec)), np.pi / 2 - np.abs(edec)) + 0 * sra
    if kind == 'dec':
        return d_dec, m_dec
    # RA half width: the whole ring if the band touches a pole, else δ / cos(|dec| + δ)
    reach = np.abs(sdec) + delta
    with np.errstate(divide='ignore', invalid='ignore', over='ignore'):
        half = np.where(reach >= np.pi / 2, 2 * np.pi, np.minimum(2 * np.pi, delta / np.cos(np.minimum(reach, np.pi / 2))))
    dphi = era - sra
    dist = np.abs(np.arctan2(np.sin(dphi), np.cos(dphi)))          # angle between the two meridian planes
    # near reach = π/2 the half width is capped at 2π > π ≥ dist either way: no discontinuity in the decision
    m_ra = np.abs(dist - half)
    if kind == 'ra':
        return dist < half, m_ra + 0 * edec
    return (dist < half) & d_dec, np.minimum(m_ra, m_dec)


def _crit_transcribed(m, srcs, evs, idx):
    """the implementation's own float operations (needed to decide exact ties bit for bit)"""
    kind = m[0]
    sra = np.array([s[0] for s in srcs], dtype=np.float64)[:, None]
    sdec = np.array([s[1] for s in srcs], dtype=np.float64)[:, None]
    idx = np.asarray(idx, dtype=np.int64)
    era = _arr(evs['ra'])[idx][None, :]
    edec = _arr(evs['dec'])[idx][None, :]
    K, n = sra.shape[0], era.shape[1]
    inf = np.full((K, n), np.inf)
    if kind in ('dec', 'ra', 'box'):
        delta = unjson_float(m[1])
        lo, hi = _band(sdec, delta)
        d_dec = (edec > lo) & (edec < hi)
        # an exact tie with a band edge is decidable at the property level only if the edge is the clipping
        # constant or `src_dec -/+ delta` is exact (then every algebraically equivalent formula gives the same bits)
        ex_lo = np.array([[_edge_exact(float(d), -delta, float(e))] for d, e in zip(sdec[:, 0], lo[:, 0])])
        ex_hi = np.array([[_edge_exact(float(d), delta, float(e))] for d, e in zip(sdec[:, 0], hi[:, 0])])
        m_lo = np.abs(edec - lo) + np.zeros((K, n))
        m_hi = np.abs(edec - hi) + np.zeros((K, n))
        m_lo = np.where((m_lo == 0.0) & ~ex_lo, 1e-300, m_lo)
        m_hi = np.where((m_hi == 0.0) & ~ex_hi, 1e-300, m_hi)
        m_dec = np.minimum(m_lo, m_hi)
        if kind == 'dec':
            return d_dec, m_dec
        half = _dra_half(sdec, delta)
        # an exact RA tie is only meaningful when numpy's cos and libm's cos (used by the Lean driver and by any
        # scalar rewrite of the code) agree on this source; otherwise it is treated as a near-tie
        # ... and the source sits at ra = 0 (then `ev_ra - src_ra` is exact in every order of the operations)
        libm_ok = np.array([[_dra_half_libm(float(d), delta) == float(h) and float(r) == 0.0]
                            for d, h, r in zip(sdec[:, 0], half[:, 0], sra[:, 0])])
        if kind == 'ra':
            dist = np.fabs(np.mod(era - sra + np.pi, 2 * np.pi) - np.pi)
        else:
            diff = np.fabs(era - sra)
            dist = np.where(diff >= np.pi, 2 * np.pi - diff, diff)
        m_ra = np.abs(dist - half)
        m_ra = np.where((m_ra == 0.0) & ~libm_ok, 1e-300, m_ra)
        if kind == 'ra':
            return dist < half, m_ra
        return (dist < half) & d_dec, np.minimum(m_ra, m_dec)
    if kind == 'psifunc':
        psi = _arr(evs['psi'])[idx][None, :] + np.zeros((K, 1))
        fv = _arr(evs['fval'])[idx][None, :] + np.zeros((K, 1))
        if len(m) > 1 and m[1] == 'swapped':
            psi, fv = fv, psi
        return psi < fv, np.where(psi == fv, 0.0, np.inf)   # passed-through values: always exact
    if kind == 'angerr':
        a, b, fl = unjson_float(m[1]), unjson_float(m[2]), unjson_float(m[3])
        psi = _haversine(sra + 0 * era, sdec + 0 * edec, era + 0 * sra, edec + 0 * sdec)
        ae = _arr(evs['ang_err'])[idx][None, :]
        f = a + b * psi
        m1 = np.abs(ae - f)
        if b == 0.0:
            m1 = np.where(m1 == 0.0, 0.0, np.maximum(m1, NEAR))   # constant threshold: exact
        m2 = np.abs(psi - fl)
        m2 = np.where(psi == 0.0, np.where(fl == 0.0, 0.0, np.maximum(m2, NEAR)), m2)  # psi = 0 is exact
        return (ae >= f) | (psi < fl), np.minimum(m1, m2)
    if kind == 'all':
        return np.ones((K, n), dtype=bool), inf
    raise ValueError(kind)


def near_tie_events(case):
    """indices of events with a non-exact near-tie (0 < margin < NEAR) for some method of the case"""
    n = len(case['evs']['ra'])
    bad = np.zeros(n, dtype=bool)
    if n == 0:
        return []
    for m in case['methods']:
        _, mg = crit_matrix(m, case['srcs'], case['evs'], np.arange(n))
        bad |= np.any((mg > 0) & (mg < NEAR), axis=0)
    return [int(i) for i in np.nonzero(bad)[0]]


def ref_run(case):
    """Expected result by the documented semantics: every method keeps the events meeting its criterion
    for at least one source among the given (source, event) pairs, in their original order; a chain is the
    intersection: a pair survives iff it meets the criteria of all members.  Brute force over (source, event)."""
    srcs, evs = case['srcs'], case['evs']
    K, N = len(srcs), len(evs['ra'])
    alive = list(range(N))                    # original index of each current event
    inc = case.get('inc') if case['mode'] == 'S' else None
    pairs = None if inc is None else list(zip(inc[0], inc[1]))
    for m in case['methods']:
        n = len(alive)
        D, _ = crit_matrix(m, srcs, evs, alive) if n else (np.zeros((K, 0), dtype=bool), None)
        if m[0] == 'all':
            if pairs is None:
                pairs = [(k, i) for k in range(K) for i in range(n)]
            continue
        # every method keeps a (source, event) pair only if it is one of the given pairs (intersection semantics)
        P = pairs if pairs is not None else [(k, i) for k in range(K) for i in range(n)]
        qual = set((k, i) for (k, i) in P if D[k][i])
        keep = [i for i in range(n) if any((k, i) in qual for k in range(K))]
        pos = {i: j for j, i in enumerate(keep)}
        pairs = sorted((k, pos[i]) for (k, i) in qual)
        alive = [alive[i] for i in keep]
    return {'alive': alive, 'pairs': pairs}


# ------------------------------------------------------------------------------------------------
# property oracle (implementation only)

def _site(case):
    names = {'dec': 'DecBand', 'ra': 'RABand', 'box': 'SpatialBox', 'all': 'All', 'psifunc': 'PsiFunc',
             'angerr': 'AngErrOfPsi'}
    s = '&'.join(names[m[0]] for m in case['methods']) or 'NoSelection'
    if case['mode'] == 'T':
        s = 'TrialDataManager.initialize_trial[%s%s%s]' % (s, ',index_field' if case.get('index_field') else '',
                                                            ',n_events' if case.get('n_events') is not None else '')
    else:
        s += '.select_events' + ('[src_evt_idxs]' if case.get('inc') is not None else '')
    return s


def _inc_invalid(case):
    inc = case.get('inc') if case.get('mode') == 'S' else None
    if inc is None:
        return False
    K, N = len(case['srcs']), len(case['evs']['ra'])
    return any(not 0 <= k < K for k in inc[0]) or any(not 0 <= i < N for i in inc[1])


def check_against_reference(case, out):
    """None or (failure mode, text)."""
    K, N = len(case['srcs']), len(case['evs']['ra'])
    if _inc_invalid(case):
        return None      # outside the quantifier (assumption: incoming indices in range); corr compares reject-vs-reject
    if 'exc' in out:
        return 'raises-' + out['exc'].split(':')[0], '%s raised %s' % (_site(case), out['exc'])
    ref = ref_run(case)
    alive, pairs = ref['alive'], ref['pairs']
    ev, src, evt = out['ev'], out['src'], out['evt']
    if len(src) != len(evt):
        return 'ragged-table', 'src_idxs and evt_idxs differ in length (%d, %d)' % (len(src), len(evt))
    bad = [j for j in evt if not 0 <= j < len(ev)]
    if bad:
        return 'evt-index-out-of-range', ('%s: event index %d does not point into the %d returned events '
                                          '(table %r / %r)' % (_site(case), bad[0], len(ev), src, evt))
    if any(not 0 <= k < K for k in src):
        return 'src-index-out-of-range', '%s: source index outside 0..%d: %r' % (_site(case), K - 1, src)
    if any(a > b for a, b in zip(src, src[1:])):
        return 'not-grouped-by-source', '%s: source indices are not ascending: %r' % (_site(case), src)
    table = list(zip(src, evt))
    if len(set(table)) != len(table):
        return 'duplicate-pair', '%s: a (source, event) pair is listed twice: %r' % (_site(case), table)
    if case['mode'] == 'S':
        if ev != alive:
            return 'wrong-events', ('%s: returned events (original indices) %r, but the events meeting the criterion '
                                    'for at least one source, in original order, are %r' % (_site(case), ev, alive))
        if out.get('org') != ev:
            return 'wrong-original-indices', ('%s: original-index array %r does not map the returned events back '
                                              '(they are the input events %r)' % (_site(case), out.get('org'), ev))
        if out.get('two_value_form_differs'):
            return 'two-forms-differ', '%s: result differs between ret_original_evt_idxs=True and False' % _site(case)
        want = pairs if pairs is not None else []
        if pairs is None:   # no method produced a table (cannot happen: every method returns one)
            want = [(k, i) for k in range(K) for i in range(len(ev))]
        if sorted(table) != sorted(want):
            miss = sorted(set(want) - set(table))[:3]
            extra = sorted(set(table) - set(want))[:3]
            return 'wrong-pairs', ('%s: pair table differs from the qualifying pairs: missing %r, not qualifying %r '
                                   '(returned events %r)' % (_site(case), miss, extra, ev))
        return None
    # ---- trial data manager: compare physical events
    if sorted(ev) != sorted(alive):
        return 'wrong-events', ('%s: stored events (original indices) %r, selected events should be %r'
                                % (_site(case), sorted(ev), alive))
    if case.get('index_field'):
        keys = out['key']
        if any(a > b for a, b in zip(keys, keys[1:])):
            return 'not-sorted', '%s: events are not sorted by the index field: %r' % (_site(case), keys)
    elif ev != alive:
        return 'wrong-events', '%s: stored events %r are not the selected events in original order %r' % (
            _site(case), ev, alive)
    if pairs is None:
        want = set((k, t) for k in range(K) for t in alive)
    else:
        want = set((k, alive[j]) for (k, j) in pairs)
    got = [(k, ev[j]) for (k, j) in table]
    if set(got) != want or len(got) != len(want):
        miss = sorted(want - set(got))[:3]
        extra = sorted(set(got) - want)[:3]
        return 'wrong-pairs', ('%s: after initialize_trial the table names other (source, physical event) pairs than '
                               'the selection: missing %r, wrong %r (events by original index %r, table %r / %r)'
                               % (_site(case), miss, extra, ev, src, evt))
    stated = case.get('n_events') if case.get('n_events') is not None else N
    want_counts = {'n_selected': len(ev), 'n_values': len(want), 'n_sources': K, 'n_events': stated, 'n_pure_bkg': stated - len(ev)}
    bad = {k: (out[k], v) for k, v in want_counts.items() if out[k] != v}
    if bad:
        return 'wrong-counts', ('%s with n_events=%r on %d events: %s' % (
            _site(case), case.get('n_events'), N,
            ', '.join('%s is %d, expected %d' % (k, a, b) for k, (a, b) in sorted(bad.items()))))
    return None


def o_select(ctx, case):
    if near_tie_events(case):
        return None     # not decidable in floating point at the property level
    r = check_against_reference(case, run_impl(case))
    return None if r is None else r[1]


def _mode_of(case):
    if near_tie_events(case):
        return 'near-tie'
    r = check_against_reference(case, run_impl(case))
    return None if r is None else r[0]


# ------------------------------------------------------------------------------------------------
# correspondence with the Lean model

def _sigma_for(case, out):
    """the sort permutation the implementation used, recovered from its output (any valid argsort is
    accepted); falls back to numpy's argsort of the reference selection."""
    alive = ref_run(case)['alive']
    pos = {t: j for j, t in enumerate(alive)}
    if 'exc' not in out and sorted(out['ev']) == sorted(alive):
        return [pos[t] for t in out['ev']]
    keys = _arr(case['evs']['key'])[np.asarray(alive, dtype=np.int64)]
    return [int(i) for i in np.argsort(keys)]


def model_request(case, out):
    evs = case['evs']
    toks = ['run', flist(s[0] for s in case['srcs']), flist(s[1] for s in case['srcs'])]
    toks += [flist(unjson_float(x) for x in evs[k]) for k in ('ra', 'dec', 'ang_err', 'psi', 'fval')]
    if case['mode'] == 'S':
        toks.append('S')
        inc = case.get('inc')
        toks.append('N' if inc is None else ilist(inc[0]) + '/' + ilist(inc[1]))
    else:
        toks.append('T:' + (ilist(_sigma_for(case, out)) if case.get('index_field') else 'N')
                    + ':' + ('N' if case.get('n_events') is None else str(int(case['n_events']))))
        toks.append('N')
    for m in case['methods']:
        if m[0] == 'psifunc':
            toks.append('psifuncswap' if len(m) > 1 and m[1] == 'swapped' else 'psifunc')
            continue
        toks.append(':'.join([m[0]] + [f2b(unjson_float(x)) for x in m[1:]]))
    return ' '.join(toks)


def parse_model(line):
    if line == 'ERR':
        return {'exc': 'model: error'}
    if not line.startswith('ev:'):
        return {'exc': 'model: ' + line}
    d = {}
    for tok in line.split(' '):
        k, v = tok.split(':', 1)
        d[k] = parse_ilist(v)
    return d


def corr_compare(case, out, model):
    if 'exc' in out or 'exc' in model:
        if 'exc' in out and 'exc' in model:
            return None          # both reject the input (only generated for invalid incoming tables); the kind of exception is incidental
        return 'implementation %s, model %s' % (out.get('exc', 'returns a result'), model.get('exc', 'returns a result'))
    for k in ('ev',) + (('org',) if case['mode'] == 'S' else ()):
        if out[k] != model[k]:
            return '%s: implementation %r, model %r' % (k, out[k], model[k])
    if case['mode'] == 'T':
        for k, mk in (('n_values', 'nv'), ('n_sources', 'ns'), ('n_events', 'ne'), ('n_pure_bkg', 'bkg')):
            if mk in model and [out[k]] != model[mk]:
                return '%s: implementation %r, model %r' % (k, out[k], model[mk])
    ti, tm = list(zip(out['src'], out['evt'])), list(zip(model['src'], model['evt']))
    if sorted(ti) != sorted(tm):
        return 'pair table: implementation %r, model %r' % (ti, tm)
    if any(a > b for a, b in zip(out['src'], out['src'][1:])):
        return 'pair table of the implementation is not grouped by ascending source: %r' % (out['src'],)
    if ti != tm:
        _DIAG['table_order_differs'] += 1      # diagnostic only: the property does not fix the order inside a source
    return None


_DIAG = {'table_order_differs': 0}


def _argsort_lines(c, out):
    """[(request, expected answer)]: the order the implementation stored the events in must be an admissible argsort of the
    index field of the selected events; the model's stable argsort must be numpy's"""
    if not (c['mode'] == 'T' and c.get('index_field') and 'exc' not in out):
        return []
    alive = ref_run(c)['alive']
    if sorted(out['ev']) != sorted(alive):
        return []
    keys = np.asarray(_arr(c['evs']['key']).astype((c.get('glue') or {}).get('key_dtype', 'float64')),
                      dtype=np.float64)[np.asarray(alive, dtype=np.int64)]
    return [('isargsort %s %s' % (flist(keys), ilist(_sigma_for(c, out))), '1'),
            ('argsort %s' % flist(keys), ilist(np.argsort(keys, kind='stable')))]


def o_corr(ctx, case):
    if near_tie_events(case):
        return None
    out = run_impl(case)
    extra = _argsort_lines(case, out)
    ans = ctx.driver('C05', [model_request(case, out)] + [r for r, _ in extra])
    d = corr_compare(case, out, parse_model(ans[0]))
    if d:
        return d
    for (req, want), a in zip(extra, ans[1:]):
        if a != want:
            return ('the order in which initialize_trial stored the events is not an admissible argsort of the index field'
                    if req.startswith('isargsort') else 'stable argsort: model %s, numpy %s' % (a, want))
    return None


# ------------------------------------------------------------------------------------------------
# histories: several initialize_trial calls on ONE TrialDataManager

def _step_case(st):
    c = dict(st)
    c['mode'] = 'T'
    return c


def run_impl_history(case):
    """one manager, the calls of case['steps'] in order; list of per-call outputs (as run_impl mode T)"""
    from skyllh.core.trialdata import TrialDataManager
    tdm = TrialDataManager()
    outs = []
    for st in case['steps']:
        try:
            shg = _shg(st['srcs'])
            events = _events(st['evs'], st.get('glue'))
            sel = _chain(shg, st['methods'], st.get('nest', 'left'), glue=st.get('glue'))
            tdm.index_field_name = 'key' if st.get('index_field') else None
            tdm.initialize_trial(shg, None, events, evt_sel_method=sel, **_tdm_kwargs(st))
            outs.append(_tdm_out(tdm))
        except Exception as e:  # noqa
            outs.append({'exc': '%s: %s' % (type(e).__name__, e)})
    return outs


def _hist_site(case, i):
    st = case['steps'][i]
    prev = case['steps'][i - 1] if i else None
    tag = 'first-call' if prev is None else 'after[%s]' % (_site(_step_case(prev))[len('TrialDataManager.initialize_trial['):-1])
    return 'TrialDataManager.history/%s/%s' % (tag, _site(_step_case(st)))


def check_history(case, outs):
    """None or (failure mode, text, index of the failing call)"""
    n = len(case['steps'])
    for i, (st, out) in enumerate(zip(case['steps'], outs)):
        sc = _step_case(st)
        r = check_against_reference(sc, out)
        if r is None:
            fresh = run_impl(sc)
            if 'exc' not in fresh and any(fresh[k] != out[k] for k in ('ev', 'src', 'evt')):
                r = ('differs-from-fresh-manager', '%s: state differs from a fresh manager: %r vs fresh %r'
                     % (_site(sc), {k: out[k] for k in ('ev', 'src', 'evt')}, {k: fresh[k] for k in ('ev', 'src', 'evt')}))
        if r is not None:
            return (r[0], 'call %d of %d on one TrialDataManager (%s): %s' % (i + 1, n, _hist_site(case, i), r[1]), i)
    return None


def _hist_near_tie(case):
    return any(near_tie_events(_step_case(st)) for st in case['steps'])


def o_history(ctx, case):
    if _hist_near_tie(case):
        return None
    r = check_history(case, run_impl_history(case))
    return None if r is None else r[1]


def history_requests(case, outs):
    reqs = ['hnew']
    for st, out in zip(case['steps'], outs):
        reqs.append(model_request(_step_case(st), out).replace(' T:', ' H:', 1))
    return reqs


def corr_history(case, outs, answers):
    """answers: the model lines for history_requests(case, outs)[1:]"""
    for i, (st, out, a) in enumerate(zip(case['steps'], outs, answers)):
        d = corr_compare(_step_case(st), out, parse_model(a))
        if d:
            return 'call %d of %d on one TrialDataManager: %s' % (i + 1, len(case['steps']), d)
    return None


def o_corr_any(ctx, case):
    if case.get('mode') == 'H':
        if _hist_near_tie(case):
            return None
        outs = run_impl_history(case)
        ans = ctx.driver('C05', history_requests(case, outs))
        return corr_history(case, outs, ans[1:])
    return o_corr(ctx, case)


def gen_history(rng):
    n = rng.choice([2, 2, 3, 3, 4])
    steps = []
    for i in range(n):
        c = gen_case(rng, mode='T', N=rng.choice([0, 1, 2, 3, 5, 8, 12, 20]))
        r = rng.random()
        if r < 0.40:
            c['methods'] = []                 # no event selection: the default full map must appear
        c.pop('mode', None)
        c.pop('inc', None)
        steps.append(c)
    if all(st['methods'] == [] for st in steps):
        k = rng.randrange(n - 1)
        g = gen_case(rng, mode='T', N=rng.choice([3, 5, 8, 12]))
        if not g['methods']:
            g['methods'] = [['dec', 0.5]]
        g.pop('mode', None)
        steps[k] = g
    return {'mode': 'H', 'steps': steps}


def _shrink_history(case, mode):
    cur = case
    changed = True
    while changed and len(cur['steps']) > 1:
        changed = False
        for j in range(len(cur['steps'])):
            cand = {'mode': 'H', 'steps': cur['steps'][:j] + cur['steps'][j + 1:]}
            if not cand['steps']:
                continue
            r = check_history(cand, run_impl_history(cand))
            if r is not None and r[0] == mode:
                cur, changed = cand, True
                break
    return cur


# ------------------------------------------------------------------------------------------------
# histories on ONE selection-method object: select / sources changed in place / change_shg_mgr(same | new)
#   case = {mode:'E', methods, nest, srcs0, steps:[{op:'select', evs} | {op:'mutate', mgr, srcs} |
#           {op:'change', mgr} | {op:'new_mgr', mgr, srcs}]}      (mgr = index of the manager object)

def _set_sources(shg, srcs):
    """the package's in-place patterns: move sources through the ra/dec setters (same count), or replace the
    sources in the manager's list (other count)"""
    from skyllh.core.source_model import PointLikeSource
    lst = shg.source_list
    if len(lst) == len(srcs):
        for s, (ra, dec) in zip(lst, srcs):
            s.ra = ra
            s.dec = dec
    else:
        lst[:] = [PointLikeSource(ra, dec) for ra, dec in srcs]


def _esm_walk(case):
    """yields (step index, step, held manager index, current sources of every manager) after applying the step;
    cur['methods'] = the current parameters of the method object(s) (changed by the setters)"""
    cur = {0: [list(x) for x in case['srcs0']], 'methods': [list(m) for m in case['methods']]}
    held = 0
    for i, st in enumerate(case['steps']):
        if st['op'] in ('mutate', 'new_mgr'):
            cur[st['mgr']] = [list(x) for x in st['srcs']]
        elif st['op'] == 'change' and not st.get('expect_error'):
            held = st['mgr']
        elif st['op'] == 'set_param':
            m = cur['methods'][st['idx']]
            m[1 if m[0] in ('dec', 'ra', 'box') else 3] = st['value']
        elif st['op'] == 'set':
            cur['methods'][st['idx']] = list(st['method'])
        yield i, st, held, cur


def _esm_select_case(case, st, srcs, methods=None):
    return {'srcs': srcs, 'evs': st['evs'], 'methods': methods if methods is not None else case['methods'],
            'nest': case.get('nest', 'left'), 'mode': 'S'}


def run_impl_esm(case):
    """outputs of the select steps (None for the other steps), all on one method object"""
    outs = []
    try:
        mgrs = {0: _shg(case['srcs0'])}
        leaves = []
        sel = _chain(mgrs[0], case['methods'], case.get('nest', 'left'), leaves, glue=case.get('glue'))
    except Exception as e:  # noqa
        return [{'exc': '%s: %s' % (type(e).__name__, e)} if st['op'] == 'select' else None for st in case['steps']]
    held = 0
    for st in case['steps']:
        try:
            if st['op'] == 'mutate':
                _set_sources(mgrs[st['mgr']], st['srcs'])
                outs.append(None)
            elif st['op'] == 'new_mgr':
                mgrs[st['mgr']] = _shg(st['srcs'])
                outs.append(None)
            elif st['op'] == 'change':
                if st.get('invalid'):
                    sel.change_shg_mgr({'int': 42, 'str': 'shg_mgr', 'list': [mgrs[0]]}[st['invalid']])
                else:
                    sel.change_shg_mgr(mgrs[st['mgr']])
                if not st.get('expect_error'):
                    held = st['mgr']
                outs.append({'no_exc': True} if st.get('expect_error') else None)
            elif st['op'] == 'set':
                leaf, what, new = leaves[st['idx']], st['what'], st['method']
                if what == 'delta':
                    leaf.delta_angle = _num(new[1], (case.get('glue') or {}).get('num_form', 'python'))
                elif what == 'floor':
                    leaf.psi_floor = new[3]
                elif what == 'func':
                    leaf.func = _linfunc(unjson_float(new[1]), unjson_float(new[2]))
                elif what == 'psiswap':
                    (leaf.psi_name, leaf.axis_name_list) = ('fval', ['psi']) if len(new) > 1 else ('psi', ['fval'])
                elif what == 'replace':
                    # a new sub-method object (on the manager currently held) put into the intersection through its setter
                    fresh_leaf = _method(mgrs[held], new, case.get('glue'))
                    if st['idx'] == 0:
                        sel.evt_sel_method1 = fresh_leaf
                    else:
                        sel.evt_sel_method2 = fresh_leaf
                    leaves[st['idx']] = fresh_leaf
                else:
                    raise MachineryError('C05: unknown setter %r' % what)
                outs.append(None)
            elif st['op'] == 'set_param':
                leaf = leaves[st['idx']]
                if case['methods'][st['idx']][0] in ('dec', 'ra', 'box'):
                    leaf.delta_angle = st['value']
                else:
                    leaf.psi_floor = st['value']
                outs.append(None)
            else:
                events = _events(st['evs'], case.get('glue'))
                (sel_ev, (src, evt), org) = sel.select_events(events, ret_original_evt_idxs=True)
                outs.append({'ev': [int(t) for t in sel_ev['tag']], 'src': [int(x) for x in src],
                             'evt': [int(x) for x in evt], 'org': [int(x) for x in org]})
        except Exception as e:  # noqa
            outs.append({'exc': '%s: %s' % (type(e).__name__, e)})
    return outs


def _esm_near_tie(case):
    for i, st, held, cur in _esm_walk(case):
        if st['op'] == 'select' and near_tie_events(_esm_select_case(case, st, cur[held], cur['methods'])):
            return True
    return False


def _esm_prev(case, i):
    ops = [st['op'] + ('(held)' if st['op'] in ('mutate', 'change') and st.get('same') else '') + ('(rejected)' if st.get('expect_error') else '')
           + (':' + st['what'] if st['op'] == 'set' else '') for st in case['steps'][:i]]
    last_sel = max([j for j, o in enumerate(ops) if o == 'select'] or [-1])
    return '>'.join(ops[last_sel + 1:]) or 'construction'


def check_esm(case, outs):
    """None or (failure mode, text, step index)"""
    for i, st, held, cur in _esm_walk(case):
        if st['op'] != 'select':
            if st.get('expect_error'):
                if outs[i] is not None and 'no_exc' in outs[i]:
                    if st.get('invalid'):
                        return ('accepts-invalid-manager', 'step %d: change_shg_mgr accepted a %s as manager' % (i + 1, st['invalid']), i)
                    return ('accepts-several-sources', 'step %d: PsiFuncEventSelectionMethod.change_shg_mgr accepted a manager with %d '
                            'sources although the method supports (and its constructor admits) a single source only; select_events '
                            'then lists the events for source 0 only' % (i + 1, len(cur[st['mgr']])), i)
                continue             # rejected: the object must be as it was (checked by the next select)
            if outs[i] is not None:
                return ('raises-' + outs[i]['exc'].split(':')[0], 'step %d (%s) raised %s' % (i + 1, st['op'], outs[i]['exc']), i)
            continue
        sc = _esm_select_case(case, st, cur[held], [list(m) for m in cur['methods']])
        r = check_against_reference(sc, outs[i])
        if r is None:
            fresh = run_impl(sc)
            if 'exc' not in fresh and any(fresh[k] != outs[i][k] for k in ('ev', 'src', 'evt', 'org')):
                r = ('differs-from-fresh-object', '%s differs from a freshly constructed method object at the same sources' % _site(sc))
        if r is not None:
            return (r[0], 'select_events on one method object, step %d of %d, after [%s] (sources as they are now: %r): %s'
                    % (i + 1, len(case['steps']), _esm_prev(case, i), cur[held][:4], r[1]), i)
    return None


def o_esm(ctx, case):
    if _esm_near_tie(case):
        return None
    r = check_esm(case, run_impl_esm(case))
    return None if r is None else r[1]


def esm_requests(case, outs):
    """model lines; returns (requests, indices of the answer lines of the select steps)"""
    def sl(srcs):
        return flist(x[0] for x in srcs) + ' ' + flist(x[1] for x in srcs)
    reqs = ['enew 0 ' + sl(case['srcs0'])]
    pos = {}
    for i, st, held, cur in _esm_walk(case):
        if st['op'] == 'change':
            if st.get('expect_error'):
                # a rejected change is no operation of the model object (c05_esm_rejected_change,
                # c05_esm_chain_rejected_change_atomic): the model is told which sub-methods accept the argument
                ms = cur['methods']
                acc = [not st.get('invalid') and not (m[0] == 'psifunc' and len(cur[st['mgr']]) != 1) for m in ms]
                pos[('chk', i)] = len(reqs)
                reqs.append('echangechk %d %d %d %s' % (acc[0], all(acc[1:]), st['mgr'], sl(cur[st['mgr']] if not st.get('invalid') else [])))
                continue
            reqs.append('echange %d %s' % (st['mgr'], sl(cur[st['mgr']])))
        elif st['op'] == 'select':
            sc = _esm_select_case(case, st, cur[held], [list(m) for m in cur['methods']])
            pos[i] = len(reqs)
            reqs.append(model_request(sc, outs[i]).replace(' S N', ' E N', 1))
    return reqs, pos


def corr_esm(case, outs, answers, pos):
    for i, st in enumerate(case['steps']):
        if ('chk', i) in pos:
            raised = outs[i] is not None and 'exc' in outs[i]
            if (answers[pos[('chk', i)]] == 'raised') != raised:
                return 'step %d of %d (change_shg_mgr): model %s, implementation %s' % (
                    i + 1, len(case['steps']), answers[pos[('chk', i)]], 'raised' if raised else 'returned')
        if st['op'] == 'select' and i in pos:
            d = corr_compare({'mode': 'S'}, outs[i], parse_model(answers[pos[i]]))
            if d:
                return 'step %d of %d (select_events on one method object): %s' % (i + 1, len(case['steps']), d)
    return None


def gen_esm(rng, methods=None):
    """a history on one method object: selects interleaved with in-place source changes + change_shg_mgr(same), new
    managers (other source count), rejected changes (invalid type; several sources for PsiFunc), parameter setters on the
    live leaf objects (delta_angle, psi_floor, func, psi_name/axis_name_list) and replacement of a sub-method of an
    intersection through its setter"""
    base = gen_case(rng, mode='S', methods=methods, N=rng.choice([2, 3, 5, 8, 12, 20]))
    base.pop('inc', None)
    cur_m = [list(m) for m in base['methods']]
    has_psi = any(m[0] == 'psifunc' for m in cur_m)
    cur_srcs = base['srcs']
    last_evs = base['evs']

    def phase(srcs=None, K=None):
        c = gen_case(rng, K=K if srcs is None else len(srcs), mode='S', methods=[list(m) for m in cur_m],
                     N=rng.choice([2, 3, 5, 8, 12, 20]))
        c.pop('inc', None)
        if srcs is not None:
            c['srcs'] = srcs
            c = _drop_near_ties(c)
        return c['srcs'], c['evs']
    steps = [{'op': 'select', 'evs': base['evs']}] if rng.random() < 0.8 else []
    held, nmgr = 0, 1
    for _ in range(rng.choice([1, 2, 2, 3, 4])):
        K = len(cur_srcs)
        kind = rng.choice(['inplace', 'inplace', 'inplace', 'new', 'inplace_count', 'setter', 'setter', 'reject'])
        if has_psi and kind == 'inplace_count':
            kind = 'inplace'
        if kind == 'reject':
            if has_psi and rng.random() < 0.5:
                # a manager with several sources handed to a PsiFunc method (alone or inside an intersection)
                steps += [{'op': 'new_mgr', 'mgr': nmgr, 'srcs': gen_sources(rng, rng.choice([2, 3]))},
                          {'op': 'change', 'mgr': nmgr, 'expect_error': True}]
                nmgr += 1
                # (a later leaf rejecting after earlier leaves were changed left the intersection half-changed before the
                # round-7 fix: the select below is the verdict)
            else:
                steps.append({'op': 'change', 'mgr': held, 'invalid': rng.choice(['int', 'str', 'list']), 'expect_error': True})
            steps.append({'op': 'select', 'evs': last_evs})      # the rejected call must have changed nothing
            continue
        if kind == 'setter':
            opts = []
            for j, m in enumerate(cur_m):
                if m[0] in ('dec', 'ra', 'box'):
                    opts.append((j, 'delta', [m[0], rng.choice([0.125, 0.25, 0.5, 1.0, 2.0, math.radians(15)])]))
                elif m[0] == 'angerr':
                    opts.append((j, 'floor', [m[0], m[1], m[2], rng.choice([0.0, 0.3, math.radians(5)])]))
                    opts.append((j, 'func', [m[0], rng.choice([0.05, 0.125, 0.25]), rng.choice([0.0, 0.0, 0.3]), m[3]]))
                elif m[0] == 'psifunc':
                    opts.append((j, 'psiswap', ['psifunc'] if len(m) > 1 else ['psifunc', 'swapped']))
                if len(cur_m) == 2 and base.get('nest', 'left') == 'left':
                    d = rng.choice([0.25, 0.5, 1.0])
                    pool = [['dec', d], ['ra', d], ['box', d], ['all'], ['angerr', 0.125, 0.0, 0.0]]
                    if m[0] != 'psifunc' and not has_psi or K == 1:
                        opts.append((j, 'replace', rng.choice(pool)))
            if opts:
                (j, what, newm) = rng.choice(opts)
                cur_m[j] = list(newm)
                has_psi = any(m[0] == 'psifunc' for m in cur_m)
                _, last_evs = phase(srcs=cur_srcs)
                steps += [{'op': 'set', 'idx': j, 'what': what, 'method': list(newm)}, {'op': 'select', 'evs': last_evs}]
                continue
            kind = 'inplace'
        if kind in ('inplace', 'inplace_count'):
            if kind == 'inplace_count':
                K = rng.choice([k for k in (1, 2, 3, 5, 8) if k != K])
            cur_srcs, last_evs = phase(K=K)
            steps += [{'op': 'mutate', 'mgr': held, 'srcs': cur_srcs, 'same': True}, {'op': 'change', 'mgr': held, 'same': True}]
        else:
            cur_srcs, last_evs = phase(K=K if has_psi else rng.choice([1, 2, 3, 5, 8]))
            old = held
            held, nmgr = nmgr, nmgr + 1
            steps += [{'op': 'new_mgr', 'mgr': held, 'srcs': cur_srcs}, {'op': 'change', 'mgr': held}]
            if rng.random() < 0.4:     # moving the sources of the manager no longer held must not matter
                steps.append({'op': 'mutate', 'mgr': old, 'srcs': gen_sources(rng, rng.choice([1, 2, 3]) if not has_psi else 1)})
        steps.append({'op': 'select', 'evs': last_evs})
        if rng.random() < 0.25:
            steps.append({'op': 'select', 'evs': last_evs})      # a second select in the same state
    out = {'mode': 'E', 'methods': base['methods'], 'nest': base.get('nest', 'left'), 'srcs0': base['srcs'], 'steps': steps}
    if base.get('glue'):
        out['glue'] = base['glue']
    return out


def fixed_esm():
    ev = {'ra': [1.0, 1.0, 4.0, 4.0], 'dec': [0.0, 0.01, 0.5, 0.51], 'ang_err': [0.2] * 4, 'psi': [0.2] * 4,
          'fval': [0.5] * 4, 'key': [0.] * 4}
    cs = []
    for meths in ([['dec', 0.125]], [['ra', 0.125]], [['box', 0.125]], [['angerr', 0.1, 0.0, 0.0]],
                  [['dec', 0.125], ['ra', 0.125]], [['box', 0.125], ['angerr', 0.1, 0.0, 0.0]], [['all'], ['box', 0.125]]):
        for nest in ('left', 'right'):
            cs.append({'mode': 'E', 'methods': meths, 'nest': nest, 'srcs0': [[1.0, 0.0]], 'steps': [
                {'op': 'select', 'evs': ev},
                {'op': 'mutate', 'mgr': 0, 'srcs': [[4.0, 0.5]], 'same': True}, {'op': 'change', 'mgr': 0, 'same': True},
                {'op': 'select', 'evs': ev},
                {'op': 'mutate', 'mgr': 0, 'srcs': [[4.0, 0.5], [1.0, 0.0]], 'same': True}, {'op': 'change', 'mgr': 0, 'same': True},
                {'op': 'select', 'evs': ev},
                {'op': 'new_mgr', 'mgr': 1, 'srcs': [[1.0, 0.0]]}, {'op': 'change', 'mgr': 1},
                {'op': 'select', 'evs': ev}]})
    # an intersection whose later sub-method rejects the new manager (PsiFunc, three sources): the call raises and the
    # intersection must select exactly as before (round 7: two-phase check)
    for meths in ([['dec', 0.125], ['psifunc']], [['box', 0.125], ['psifunc']], [['angerr', 0.1, 0.0, 0.0], ['dec', 0.125], ['psifunc']]):
        for nest in ('left', 'right'):
            cs.append({'mode': 'E', 'methods': meths, 'nest': nest, 'srcs0': [[1.0, 0.0]], 'steps': [
                {'op': 'select', 'evs': ev},
                {'op': 'new_mgr', 'mgr': 1, 'srcs': [[4.0, 0.5], [1.0, 0.0], [2.0, -0.25]]},
                {'op': 'change', 'mgr': 1, 'expect_error': True},
                {'op': 'select', 'evs': ev}]})
    return cs


def _shrink_esm(case, mode):
    """drop leading selects / whole phases while the failure mode persists"""
    cur = case
    changed = True
    while changed:
        changed = False
        for j in range(len(cur['steps'])):
            cand = dict(cur)
            cand['steps'] = cur['steps'][:j] + cur['steps'][j + 1:]
            # keep the protocol: a select must not directly follow a mutate of the held manager
            ok, dirty, held = True, False, 0
            for st in cand['steps']:
                if st['op'] == 'change':
                    held, dirty = st['mgr'], False
                elif st['op'] in ('mutate', 'new_mgr') and st['mgr'] == held:
                    dirty = True
                elif st['op'] == 'select' and dirty:
                    ok = False
            mg = {0} | {st['mgr'] for st in cand['steps'] if st['op'] == 'new_mgr'}
            if not ok or any(st['op'] in ('change', 'mutate') and not st.get('invalid') and st['mgr'] not in mg for st in cand['steps']) \
                    or not any(st['op'] == 'select' for st in cand['steps']):
                continue
            try:
                r = check_esm(cand, run_impl_esm(cand))
            except Exception:  # noqa
                continue
            if r is not None and r[0] == mode:
                cur, changed = cand, True
                break
    return cur


# ------------------------------------------------------------------------------------------------
# aliasing: ONE events object used for several selections / trials; every returned array is overwritten by the
# caller before the next call; the caller's events must stay untouched
#   case = {mode:'A', srcs, evs, seq:[methods, ...], tdm:[{methods, index_field}, ...]}

_SCRIBBLE = 10 ** 6


def _scribble(*arrs):
    for a in arrs:
        if isinstance(a, np.ndarray) and a.flags.writeable and a.size:
            a[...] = _SCRIBBLE


def check_alias(case):
    """None or (failure mode, text)"""
    from skyllh.core.trialdata import TrialDataManager
    try:
        shg = _shg(case['srcs'])
        events = _events(case['evs'], case.get('glue'))
        snap = {f: np.array(events[f], copy=True) for f in EV_FIELDS + ('tag',)}
    except Exception as e:  # noqa
        raise MachineryError('C05 fixture construction failed: %s: %s' % (type(e).__name__, e))
    n = len(events)

    def untouched(where):
        for f, v in snap.items():
            if not (len(events[f]) == len(v) and np.array_equal(events[f], v)):
                return ('caller-events-modified', '%s changed the events handed in by the caller (field %r: %r -> %r)'
                        % (where, f, v.tolist()[:8], np.asarray(events[f]).tolist()[:8]))
        if not np.array_equal(events.indices, np.arange(n)):
            return ('events-indices-corrupted', 'after %s the cached events.indices of the input events is %r instead of 0..%d '
                    '(a returned array aliases it)' % (where, np.asarray(events.indices).tolist()[:8], n - 1))
        return None
    for j, meths in enumerate(case['seq']):
        sc = {'srcs': case['srcs'], 'evs': case['evs'], 'methods': meths, 'nest': 'left', 'mode': 'S'}
        where = 'select_events call %d (%s) on a re-used events object' % (j + 1, _site(sc))
        try:
            sel = _chain(shg, meths, 'left', glue=case.get('glue'))
            (sel_ev, (src, evt), org) = sel.select_events(events, ret_original_evt_idxs=True)
            out = {'ev': [int(t) for t in sel_ev['tag']], 'src': [int(x) for x in src], 'evt': [int(x) for x in evt],
                   'org': [int(x) for x in org]}
        except Exception as e:  # noqa
            out = {'exc': '%s: %s' % (type(e).__name__, e)}
        r = check_against_reference(sc, out)
        if r is not None:
            return (r[0], '%s, after the caller overwrote the arrays returned by the previous calls: %s' % (where, r[1]))
        if 'exc' not in out:
            _scribble(org, src, evt)          # the caller owns what was returned to him
        r = untouched(where + ' + writing to the returned index arrays')
        if r is not None:
            return r
    for j, t in enumerate(case.get('tdm', [])):
        sc = {'srcs': case['srcs'], 'evs': case['evs'], 'methods': t['methods'], 'nest': 'left', 'mode': 'T',
              'index_field': t.get('index_field'), 'n_events': t.get('n_events'), 'tl': t.get('tl')}
        where = 'initialize_trial call %d (%s) on the caller\'s events' % (j + 1, _site(sc))
        try:
            tdm = TrialDataManager(index_field_name='key' if t.get('index_field') else None)
            tdm.initialize_trial(shg, None, events, evt_sel_method=_chain(shg, t['methods'], 'left', glue=case.get('glue')),
                                 **_tdm_kwargs(dict(t, glue=case.get('glue'))))
            (src, evt) = tdm.src_evt_idxs
            out = _tdm_out(tdm)
        except Exception as e:  # noqa
            out = {'exc': '%s: %s' % (type(e).__name__, e)}
        r = check_against_reference(sc, out)
        if r is not None:
            return (r[0], '%s: %s' % (where, r[1]))
        r = untouched(where)
        if r is not None:
            return r
        if 'exc' not in out:
            _scribble(src, evt)
            r = untouched(where + ' + writing to src_evt_idxs')
            if r is not None:
                return r
    return None


def _alias_near_tie(case):
    return any(near_tie_events({'srcs': case['srcs'], 'evs': case['evs'], 'methods': m, 'mode': 'S'})
               for m in list(case['seq']) + [t['methods'] for t in case.get('tdm', [])])


def o_alias(ctx, case):
    if _alias_near_tie(case):
        return None
    r = check_alias(case)
    return None if r is None else r[1]


def gen_alias(rng):
    base = gen_case(rng, mode='S', N=rng.choice([2, 3, 5, 8, 12]))
    base.pop('inc', None)
    K = len(base['srcs'])
    delta = rng.choice([0.25, 0.5, 1.0])
    pool = [[['all']], [['all']], [['dec', delta]], [['ra', delta]], [['box', delta]], [['angerr', 0.1, 0.0, 0.0]],
            [['all'], ['dec', delta]], [['box', delta], ['angerr', 0.1, 0.0, 0.0]]]
    if K == 1:
        pool.append([['psifunc']])
    seq = [rng.choice(pool) for _ in range(rng.choice([2, 2, 3]))]
    if base['methods'] and not any(m[0] == 'psifunc' for m in base['methods']) or K == 1:
        seq.insert(rng.randrange(len(seq) + 1), base['methods'])
    tdm = [{'methods': rng.choice([[], [], [['all']], rng.choice(pool)]), 'index_field': rng.random() < 0.7}
           for _ in range(rng.choice([0, 1, 2]))]
    case = {'mode': 'A', 'srcs': base['srcs'], 'evs': base['evs'], 'seq': seq, 'tdm': tdm}
    if base.get('glue'):
        case['glue'] = base['glue']
    # drop events with a near-tie for any of the methods used
    for meths in list(seq) + [t['methods'] for t in tdm]:
        c = _drop_near_ties({'srcs': case['srcs'], 'evs': case['evs'], 'methods': meths, 'mode': 'S'})
        case['evs'] = c['evs']
    for t in case['tdm']:
        _set_call_options(rng, t, len(case['evs']['ra']))
    return case


def fixed_alias():
    ev = {'ra': [1.0, 1.0, 1.0], 'dec': [0.0, 0.5, 0.001], 'ang_err': [0.1] * 3, 'psi': [0.2] * 3, 'fval': [0.5] * 3,
          'key': [30.0, 10.0, 20.0]}
    return [{'mode': 'A', 'srcs': [[1.0, 0.0]], 'evs': ev, 'seq': [[['all']], [['dec', 1.0]]], 'tdm': []},
            {'mode': 'A', 'srcs': [[1.0, 0.0]], 'evs': ev, 'seq': [], 'tdm': [{'methods': [], 'index_field': True}]},
            {'mode': 'A', 'srcs': [[1.0, 0.0]], 'evs': ev, 'seq': [[['dec', 1.0]]],
             'tdm': [{'methods': [['all']], 'index_field': True}, {'methods': [], 'index_field': False}]}]


def o_readers(ctx, case):
    """readers of the stored table (round 7): every value carries the entry of its own source / event"""
    r = r7.check(case)
    return None if r is None else r[1]


def o_src_evt_mask(ctx, case):
    """create_src_evt_mask is the indicator matrix of the given pairs"""
    r = r7.check_mask(case)
    return None if r is None else r[1]


def o_corr_all(ctx, case):
    if case.get('mode') == 'M':
        return r7.corr_mask(case, r7.run_mask(case), ctx.driver('C05', [r7.mask_request(case)])[0])
    if case.get('mode') == 'R':
        blocks = r7.run_impl(case)
        return r7.corr(case, blocks, ctx.driver('C05', r7.requests(case, blocks)))
    if case.get('mode') == 'E':
        if _esm_near_tie(case):
            return None
        outs = run_impl_esm(case)
        reqs, pos = esm_requests(case, outs)
        return corr_esm(case, outs, ctx.driver('C05', reqs), pos)
    return o_corr_any(ctx, case)


ORACLES = {'select': o_select, 'corr': o_corr_all, 'history': o_history, 'method_object': o_esm, 'aliasing': o_alias,
           'readers': o_readers, 'src_evt_mask': o_src_evt_mask}


# ------------------------------------------------------------------------------------------------
# generators

DELTAS = [0.05, math.radians(15), 0.125, 0.25, 0.5, 0.5, 1.0, HALF_PI, 2.0, 3.0, PI]


def gen_sources(rng, K):
    srcs = []
    for _ in range(K):
        r = rng.random()
        if r < 0.08:
            dec = rng.choice([HALF_PI, -HALF_PI])
        elif r < 0.16:
            dec = rng.choice([1, -1]) * (HALF_PI - rng.choice([1e-12, 1e-6, 1e-3, 0.04]))
        elif r < 0.34:
            dec = rng.choice([0.0, 0.25, -0.5, 1.0, -1.25])
        elif r < 0.40:
            dec = rng.choice([1, -1]) * rng.choice([1.2, 1.4, 1.5])     # band close to a pole: delta / cos(edge) large
        else:
            dec = math.asin(rng.uniform(-1, 1))
        r = rng.random()
        if r < 0.16:
            ra = 0.0
        elif r < 0.22:
            ra = TWO_PI
        elif r < 0.28:
            ra = TWO_PI - rng.choice([1e-12, 1e-6, 0.01, 0.1])
        elif r < 0.36:
            ra = rng.choice([1e-12, 1e-6, 0.01, 0.1, 0.5, 3.0])
        else:
            ra = rng.uniform(0, TWO_PI)
        srcs.append([ra, dec])
    return srcs


def _clip_ra(x):
    x = float(x)
    if x < 0:
        x += TWO_PI
    if x > TWO_PI:
        x -= TWO_PI
    return min(max(x, 0.0), TWO_PI)


def _clip_dec(x):
    return min(max(float(x), -HALF_PI), HALF_PI)


def gen_events(rng, srcs, N, delta):
    """events: uniform, clustered around sources, at the seam / poles, and exactly on band edges
    (edges computed with the float operations every implementation has to use)."""
    ra, dec = [], []
    for _ in range(N):
        (sra, sdec) = rng.choice(srcs)
        r = rng.random()
        if r < 0.30:
            x, y = rng.uniform(0, TWO_PI), math.asin(rng.uniform(-1, 1))
        elif r < 0.55:
            w = delta * rng.choice([0.3, 1.0, 1.5])
            x, y = _clip_ra(sra + rng.uniform(-w, w) * 2), _clip_dec(sdec + rng.uniform(-w, w))
        elif r < 0.62:
            x, y = rng.choice([0.0, TWO_PI, np.nextafter(TWO_PI, 0), 1e-300]), _clip_dec(sdec + rng.uniform(-delta, delta))
        elif r < 0.68:
            x, y = rng.uniform(0, TWO_PI), rng.choice([HALF_PI, -HALF_PI, np.nextafter(HALF_PI, 0)])
        elif r < 0.80:
            # exactly on a declination band edge (tie, where that is exact), or clearly inside / outside
            ex = [sd for sd in srcs if _edge_exact(sd[1], -delta, float(np.maximum(-np.pi / 2, np.float64(sd[1]) - delta)))
                  and _edge_exact(sd[1], delta, float(np.minimum(np.float64(sd[1]) + delta, np.pi / 2)))]
            if ex:
                (sra, sdec) = rng.choice(ex)
            lo = float(np.maximum(-np.pi / 2, np.float64(sdec) - delta))
            hi = float(np.minimum(np.float64(sdec) + delta, np.pi / 2))
            e = rng.choice([lo, hi])
            y = _clip_dec(rng.choice([e, e, e + 1e-6, e - 1e-6]))
            x = _clip_ra(sra + rng.uniform(-0.01, 0.01))
        elif r < 0.92:
            # exactly on the RA edge of the band / box of a source at ra = 0, or clearly inside / outside
            z = [sd for sd in srcs if sd[0] == 0.0]
            if z:
                (sra, sdec) = rng.choice(z)
            half = float(_dra_half(np.float64(sdec), delta))
            e = sra + rng.choice([1, 1, -1]) * half
            if sra == 0.0 and rng.random() < 0.4:
                e = TWO_PI - half           # the same edge reached across the seam
            if sra == 0.0 and rng.random() < 0.5:
                # RA band: search the float neighbourhood of both edges for an event whose distance by the
                # modulus formula is bit-exactly the half width (an exact tie also for that method)
                cands = []
                for base in (half, TWO_PI - half):
                    x0 = np.float64(base)
                    for _ in range(4):
                        x0 = np.nextafter(x0, -1.0)
                    for _ in range(9):
                        if 0.0 <= x0 <= TWO_PI and float(np.fabs(np.mod(x0 - 0.0 + np.pi, 2 * np.pi) - np.pi)) == half:
                            cands.append(float(x0))
                        x0 = np.nextafter(x0, 10.0)
                if cands:
                    e = rng.choice(cands)
            x = _clip_ra(rng.choice([e, e, e + 1e-6, e - 1e-6]))
            y = _clip_dec(sdec + rng.uniform(-delta, delta) * 0.5)
        elif r < 0.955:
            x, y = sra, sdec       # exactly at the source
        elif r < 0.985:
            # the opposite meridian: RA distance exactly pi (the maximum of the circle distance) — qualifies whenever the
            # half width exceeds pi (bands reaching or nearly reaching a pole, large opening angles)
            zz = [sd for sd in srcs if abs(sd[1]) + delta >= 1.2] or srcs
            (sra, sdec) = rng.choice(zz)
            x = sra + math.pi if sra + math.pi <= TWO_PI else sra - math.pi
            y = _clip_dec(sdec + rng.uniform(-delta, delta) * 0.5)
        else:
            # the antipodal point: angular distance pi (the maximum of psi)
            x = sra + math.pi if sra + math.pi <= TWO_PI else sra - math.pi
            y = -sdec
        ra.append(float(x))
        dec.append(float(y))
    return ra, dec


def gen_case(rng, K=None, N=None, methods=None, mode=None, key_sources=()):
    if K is None:
        K = rng.choice([1, 1, 1, 2, 2, 2, 3, 3, 3, 5, 5, 8, 8, 13, 20, 20, rng.randrange(21, 127)])
    if N is None:
        N = rng.choice([0, 1, 2, 3, 5, 8, 12, 20, 30, 45, 60]) if K <= 20 else rng.choice([1, 4, 9])
    delta = rng.choice(DELTAS)
    if methods is not None and methods[0][0] in ('dec', 'ra', 'box'):
        delta = methods[0][1]
    srcs = gen_sources(rng, K)
    ra, dec = gen_events(rng, srcs, N, delta)
    # events sitting on given sources (batch boundaries): each such source must appear in the table
    for k in key_sources:
        if k < K and N > 0:
            if abs(srcs[k][1]) > 1.4:
                srcs[k][1] = rng.uniform(-1.2, 1.2)
            j = rng.randrange(N)
            ra[j], dec[j] = srcs[k][0], srcs[k][1]
    a = rng.choice([0.05, 0.1, 0.25, -1.0])
    b = rng.choice([0.0, 0.0, 0.3, -0.05])
    floor = rng.choice([0.0, 0.0, math.radians(5), 0.3])
    ang = [rng.choice([a, a, rng.uniform(0, 0.5), rng.uniform(0, 0.5), 0.0]) for _ in range(N)]
    psi = [rng.choice([rng.uniform(0, 1), 0.25, 0.5]) for _ in range(N)]
    fval = [rng.choice([rng.uniform(0, 1), 0.25, 0.5, p]) for p in psi]
    keymode = rng.choice(['int', 'int', 'float', 'const'])
    key = [float(rng.randrange(0, max(2, N // 2 + 1))) if keymode == 'int' else
           (rng.random() if keymode == 'float' else 1.0) for _ in range(N)]
    if methods is None:
        single = [['dec', delta], ['ra', delta], ['box', delta], ['all'], ['angerr', a, b, floor]]
        if K == 1:
            single.append(['psifunc'])
        r = rng.random()
        if r < 0.55:
            methods = [rng.choice(single)]
        elif r < 0.9:
            methods = [rng.choice(single), rng.choice(single)]
        else:
            methods = [rng.choice(single), rng.choice(single), rng.choice(single)]
    if mode is None:
        mode = rng.choice(['S', 'S', 'T'])
    case = {'srcs': srcs,
            'evs': {'ra': ra, 'dec': dec, 'ang_err': ang, 'psi': psi, 'fval': fval, 'key': key},
            'methods': methods, 'nest': rng.choice(['left', 'left', 'right']), 'mode': mode}
    if mode == 'T':
        case['index_field'] = rng.random() < 0.6
        if rng.random() < 0.25:
            case['methods'] = []
    elif methods and rng.random() < (0.5 if methods[0][0] in ('all', 'angerr') else 0.25) and N > 0:
        # incoming table: a random subset of all pairs — with the always-true criterion (angerr, a = -1) this feeds an
        # arbitrary mask matrix into the index construction; for every first method except All also in arbitrary
        # order, with duplicates, and (rarely) with an index outside the shape (both sides must reject it)
        full = [(k, i) for k in range(K) for i in range(N)]
        p = rng.choice([0.1, 0.5, 0.9])
        sub = [q for q in full if rng.random() < p]
        if methods[0][0] == 'all':
            # AllEventSelectionMethod passes the table through: keep it sorted, duplicate free, covering every event
            have = set(i for _, i in sub)
            sub = sorted(sub + [(rng.randrange(K), i) for i in range(N) if i not in have])
        else:
            r = rng.random()
            if r < 0.25 and sub:
                sub = sub + [rng.choice(sub) for _ in range(rng.randrange(1, 4))]
                case['inc_class'] = 'duplicates'
            if rng.random() < 0.35:
                rng.shuffle(sub)
                case['inc_class'] = case.get('inc_class', '') + 'unsorted'
            if rng.random() < 0.08:
                sub = sub + [rng.choice([(K, 0), (0, N), (K + 2, N + 3)])]
                case['inc_class'] = 'out-of-range'
        case['inc'] = [[k for k, _ in sub], [i for _, i in sub]]
    case = _drop_near_ties(case)
    _set_call_options(rng, case, len(case['evs']['ra']))
    g = gen_glue(rng)
    if g:
        case['glue'] = g
    return case


def _set_call_options(rng, d, n_held):
    """the optional arguments of the call: for initialize_trial the stated data-set size `n_events` — not given, equal to,
    or larger than the number of events handed over (a pre-selected subset of the data set) —, and a TimeLord"""
    if d.get('mode', 'T') == 'T':
        r = rng.random()
        d['n_events'] = (None if r < 0.45 else n_held if r < 0.55 else n_held + 1 if r < 0.7 else
                         n_held + rng.randrange(2, 60) if r < 0.9 else 10 * n_held + 7)
    d['tl'] = rng.random() < 0.15


def _drop_near_ties(case):
    bad = near_tie_events(case)
    if not bad:
        return case
    if case.get('inc') is not None:
        case = dict(case)
        case.pop('inc')
        case.pop('inc_class', None)
    keep = [i for i in range(len(case['evs']['ra'])) if i not in set(bad)]
    case = dict(case)
    case['evs'] = {k: [v[i] for i in keep] for k, v in case['evs'].items()}
    return _drop_near_ties(case)


# ------------------------------------------------------------------------------------------------
# branch coverage of the modelled functions (harness side: which branch of the model a case drives)

BRANCHES = [
    'selectByMask:none-selected', 'selectByMask:all-selected', 'selectByMask:some-selected', 'selectByMask:no-events',
    'batchedMask:unbatched(K<=B)', 'batchedMask:batched,last-batch-partial', 'batchedMask:batched,exact-multiple',
    'restrictMask:no-table', 'restrictMask:table', 'restrictMask:table-rejected',
    'incTable:none(all-pairs)', 'incTable:given',
    'scatter:accepted', 'scatter:rejected',
    'decMinus:clipped', 'decMinus:not-clipped', 'decPlus:clipped', 'decPlus:not-clipped',
    'dRAhalf:0<cosfact,capped-2pi', 'dRAhalf:0<cosfact,not-capped',
    'raDistBox:d<pi', 'raDistBox:wrapped', 'raDist:exactly-pi(opposite-meridian),half-width>pi', 'raDist:exactly-0',
    'angSep:exactly-pi(antipode)', 'angSep:exactly-0',
    'fmod:r<0(+y)', 'fmod:0<=r<y', 'absF:negative', 'absF:non-negative',
    'angSep:x-in-range', 'angErrCrit:ang_err>=func', 'angErrCrit:psi<floor-only', 'angErrCrit:neither',
    'psiFunc:true', 'psiFunc:false',
    'chain:2', 'chain:3',
    'initTrial:no-selection,no-sort', 'initTrial:no-selection,sort', 'initTrial:selection,no-sort', 'initTrial:selection,sort(reindex)',
    'statedN:not-given', 'statedN:given',
    'changeShgMgr:same-manager', 'changeShgMgr:new-manager', 'changeShgMgr:rejected',
] + r7.R7_BRANCHES
# branches of the model that no Float run can reach (tied by the ℝ theorems only / by construction)
BRANCHES_UNREACHABLE = {
    'dRAhalf:cosfact<0': 'band edges are clipped to [-pi/2, pi/2], cos >= 0 there (C05Crit.cosfact_nonneg)',
    'dRAhalf:cosfact=0(whole-ring)': 'cos(fl(pi/2)) = 6.1e-17 != 0 in IEEE; the float run takes the 0<cosfact branch and caps at 2pi, '
                                     'the same value (c05_band_touching_pole covers the exact case)',
    'fmod:r>=y(-y)': 'needs floor(x/y) to be one too small; excluded for |x| <= 3 pi, y = 2 pi',
    'angSep:x<0': 'sum of squares', 'angSep:x>1': 'only by rounding; clipped identically on both sides',
    'take:IndexError(none)': 'indices come from the selection itself (c05_selected_iff: never fails)',
}


def count_branches(ctx, c, out):
    K, N = len(c['srcs']), len(c['evs']['ra'])
    b = lambda name: ctx.count('branch:' + name)      # noqa: E731
    if 'exc' not in out and c['mode'] in ('S', 'T'):
        nsel = len(out['ev'])
        b('selectByMask:' + ('no-events' if N == 0 else 'none-selected' if nsel == 0 else 'all-selected' if nsel == N else 'some-selected'))
    if c['mode'] == 'S':
        inc = c.get('inc')
        for j, m in enumerate(c['methods']):
            given = inc is not None if j == 0 else True
            if m[0] in ('all', 'angerr'):
                b('incTable:' + ('given' if given else 'none(all-pairs)'))
                if m[0] == 'angerr':
                    b('scatter:' + ('rejected' if j == 0 and _inc_invalid(c) else 'accepted'))
            else:
                b('restrictMask:' + ('no-table' if not given else 'table-rejected' if j == 0 and _inc_invalid(c) else 'table'))
    if len(c['methods']) in (2, 3):
        b('chain:%d' % len(c['methods']))
    if c['mode'] == 'T':
        b('initTrial:%s,%s' % ('selection' if c['methods'] else 'no-selection',
                               ('sort(reindex)' if c['methods'] else 'sort') if c.get('index_field') else 'no-sort'))
        b('statedN:' + ('not-given' if c.get('n_events') is None else 'given'))
    if N == 0:
        return
    sra = np.array([s_[0] for s_ in c['srcs']])[:, None]
    sdec = np.array([s_[1] for s_ in c['srcs']])[:, None]
    era, edec = _arr(c['evs']['ra'])[None, :], _arr(c['evs']['dec'])[None, :]
    for m in c['methods']:
        if m[0] in ('dec', 'ra', 'box'):
            d = unjson_float(m[1])
            b('decMinus:' + ('clipped' if np.any(sdec - d < -np.pi / 2) else 'not-clipped'))
            b('decPlus:' + ('clipped' if np.any(sdec + d > np.pi / 2) else 'not-clipped'))
            if m[0] in ('ra', 'box'):
                dist = (np.fabs(np.mod(era - sra + np.pi, 2 * np.pi) - np.pi) if m[0] == 'ra' else
                        np.where(np.fabs(era - sra) >= np.pi, 2 * np.pi - np.fabs(era - sra), np.fabs(era - sra)))
                if np.any((dist == np.pi) & (_dra_half(sdec, d) > np.pi)):
                    b('raDist:exactly-pi(opposite-meridian),half-width>pi')
                if np.any(dist == 0.0):
                    b('raDist:exactly-0')
                lo, hi = _band(sdec, d)
                with np.errstate(divide='ignore'):
                    raw = np.fabs(d / np.minimum(np.cos(lo), np.cos(hi)))
                if np.any(raw >= 2 * np.pi):
                    b('dRAhalf:0<cosfact,capped-2pi')
                if np.any(raw < 2 * np.pi):
                    b('dRAhalf:0<cosfact,not-capped')
                if m[0] == 'box':
                    b('batchedMask:' + ('unbatched(K<=B)' if K <= 128 else 'batched,exact-multiple' if K % 128 == 0 else 'batched,last-batch-partial'))
                    diff = np.fabs(era - sra)
                    if np.any(diff < np.pi):
                        b('raDistBox:d<pi')
                    if np.any(diff >= np.pi):
                        b('raDistBox:wrapped')
                    b('absF:negative' if np.any(era - sra < 0) else 'absF:non-negative')
                else:
                    a = era - sra + np.pi
                    if np.any(a < 0):
                        b('fmod:r<0(+y)')
                    if np.any(a >= 0):
                        b('fmod:0<=r<y')
        elif m[0] == 'psifunc':
            D, _ = _crit_transcribed(m, c['srcs'], c['evs'], np.arange(N))
            if np.any(D):
                b('psiFunc:true')
            if not np.all(D):
                b('psiFunc:false')
        elif m[0] == 'angerr':
            a_, b_, fl = unjson_float(m[1]), unjson_float(m[2]), unjson_float(m[3])
            psi = _haversine(sra + 0 * era, sdec + 0 * edec, era + 0 * sra, edec + 0 * sdec)
            ae = _arr(c['evs']['ang_err'])[None, :]
            first = ae >= a_ + b_ * psi
            b('angSep:x-in-range')
            if np.any(psi == np.pi):
                b('angSep:exactly-pi(antipode)')
            if np.any(psi == 0.0):
                b('angSep:exactly-0')
            if np.any(first):
                b('angErrCrit:ang_err>=func')
            if np.any(~first & (psi < fl)):
                b('angErrCrit:psi<floor-only')
            if np.any(~first & ~(psi < fl)):
                b('angErrCrit:neither')


def fixed_cases():
    """hand-made witnesses (defect leads of the design and boundary cases with exact arithmetic)"""
    ev3 = {'ra': [1.0, 1.0, 1.0], 'dec': [0.0, 0.5, 0.001], 'ang_err': [0.1, 0.1, 0.1],
           'psi': [0.9, 0.1, 0.2], 'fval': [0.5, 0.5, 0.5], 'key': [30.0, 10.0, 20.0]}
    cs = []
    # lead 1: selection + index field in the trial data manager
    cs.append({'srcs': [[1.0, 0.0]], 'evs': ev3, 'methods': [['dec', 1.0]], 'nest': 'left', 'mode': 'T',
               'index_field': True})
    cs.append({'srcs': [[1.0, 0.0], [1.0, 0.5]], 'evs': ev3, 'methods': [['dec', 0.25]], 'nest': 'left',
               'mode': 'T', 'index_field': True})
    # lead 2: psi-func with a rejected first event
    cs.append({'srcs': [[1.0, 0.0]], 'evs': ev3, 'methods': [['psifunc']], 'nest': 'left', 'mode': 'S'})
    # dyadic band edges: events exactly on, just inside, just outside
    e = {'ra': [0.5] * 6, 'dec': [-0.25, 0.75, -0.25 + 1e-6, 0.75 + 1e-6, 0.25, HALF_PI],
         'ang_err': [0.1] * 6, 'psi': [0.25] * 6, 'fval': [0.25, 0.5, 0.25, 0.125, 0.5, 0.25], 'key': [3., 1., 2., 2., 0., 5.]}
    for meth in (['dec', 0.5], ['box', 0.5], ['ra', 0.5]):
        for mode in ('S', 'T'):
            cs.append({'srcs': [[0.5, 0.25]], 'evs': e, 'methods': [meth], 'nest': 'left', 'mode': mode,
                       'index_field': True})
    cs.append({'srcs': [[0.5, 0.25]], 'evs': e, 'methods': [['psifunc']], 'nest': 'left', 'mode': 'S'})
    # directed: an incoming table with an index outside the shape, for every kind of first method (both sides must reject)
    for meth in (['dec', 0.5], ['ra', 0.5], ['box', 0.5], ['psifunc'], ['angerr', 0.125, 0.0, 0.0]):
        for bad in ([[0, 1], [0, 0]], [[0, 0], [0, 6]]):
            cs.append({'srcs': [[0.5, 0.25]], 'evs': e, 'methods': [meth], 'nest': 'left', 'mode': 'S', 'inc': bad,
                       'inc_class': 'out-of-range'})
    # constant ang-err threshold hit exactly; event exactly at the source with psi_floor = 0
    e2 = {'ra': [0.5, 0.5, 2.0], 'dec': [0.25, 0.25, 0.0], 'ang_err': [0.125, 0.0625, 0.125], 'psi': [0.] * 3,
          'fval': [0.] * 3, 'key': [0.] * 3}
    cs.append({'srcs': [[0.5, 0.25]], 'evs': e2, 'methods': [['angerr', 0.125, 0.0, 0.0]], 'nest': 'left', 'mode': 'S'})
    return cs


def fixed_histories():
    ev6 = {'ra': [1.0] * 6, 'dec': [0.0, 0.5, 0.001, 0.002, 0.9, 0.003], 'ang_err': [0.1] * 6, 'psi': [0.2] * 6,
           'fval': [0.5] * 6, 'key': [30.0, 10.0, 20.0, 5.0, 1.0, 7.0]}
    ev2 = {k: v[:2] for k, v in ev6.items()}
    hs = []
    for idx1 in (False, True):
        for idx2 in (False, True):
            hs.append({'mode': 'H', 'steps': [
                {'srcs': [[1.0, 0.0], [1.0, 0.5]], 'evs': ev6, 'methods': [['dec', 0.25]], 'nest': 'left', 'index_field': idx1},
                {'srcs': [[1.0, 0.0]], 'evs': ev2, 'methods': [], 'nest': 'left', 'index_field': idx2, 'n_events': 9 if idx1 else None}]})
    hs.append({'mode': 'H', 'steps': [
        {'srcs': [[1.0, 0.0]], 'evs': ev2, 'methods': [['all']], 'nest': 'left', 'index_field': False},
        {'srcs': [[1.0, 0.0], [1.0, 0.5], [2.0, 0.1]], 'evs': ev6, 'methods': [], 'nest': 'left', 'index_field': True},
        {'srcs': [[1.0, 0.0]], 'evs': ev6, 'methods': [['dec', 0.25]], 'nest': 'left', 'index_field': False},
        {'srcs': [[1.0, 0.0], [1.0, 0.5]], 'evs': ev2, 'methods': [], 'nest': 'left', 'index_field': False}]})
    return hs


# ------------------------------------------------------------------------------------------------

def _shrink(ctx, case, mode, budget=150):
    """greedy removal of events / sources while the same failure mode persists"""
    if case.get('inc') is not None:
        return case
    cur = case
    calls = 0
    changed = True
    while changed and calls < budget:
        changed = False
        n = len(cur['evs']['ra'])
        for i in range(n - 1, -1, -1):
            cand = dict(cur)
            cand['evs'] = {k: v[:i] + v[i + 1:] for k, v in cur['evs'].items()}
            calls += 1
            if _mode_of(cand) == mode:
                cur, changed = cand, True
            if calls >= budget:
                break
        if len(cur['srcs']) > 1 and not any(m[0] == 'psifunc' for m in cur['methods']):
            for k in range(len(cur['srcs']) - 1, -1, -1):
                if len(cur['srcs']) == 1:
                    break
                cand = dict(cur)
                cand['srcs'] = cur['srcs'][:k] + cur['srcs'][k + 1:]
                calls += 1
                if _mode_of(cand) == mode:
                    cur, changed = cand, True
        if len(cur['methods']) > 1:
            for j in range(len(cur['methods'])):
                cand = dict(cur)
                cand['methods'] = cur['methods'][:j] + cur['methods'][j + 1:]
                calls += 1
                if cand['methods'] and _mode_of(cand) == mode:
                    cur, changed = cand, True
                    break
    return cur


def run(ctx):
    rng = ctx.rng
    ctx.rule = ('skies: 1..200 point sources (uniform on the sphere, exactly at / next to the poles, RA 0, 2π and next to the seam, '
                'dyadic positions), 0..60 events (uniform, clustered around sources, at the seam and the poles, exactly on / one '
                'float inside / outside declination and box-RA band edges, at the source position), half-opening angles 0.05..π, '
                'every single method, 2- and 3-fold & chains (left and right nested), incoming pair tables (random subsets = arbitrary '
                'mask matrices through AngErrOfPsi), TrialDataManager.initialize_trial with/without method and index field (int keys '
                'with ties, float keys, constant key), stated data-set size n_events not given / equal / larger than the events handed over, optional TimeLord; histories of 2..4 initialize_trial calls on ONE manager (selection / no selection, '
                'changing event and source counts, index field toggled) compared after every call with the model, the reference and a '
                'fresh manager; histories on ONE selection-method object (select, sources moved / replaced in place, change_shg_mgr with the same or a '
                'new manager of another source count, every method and intersections) compared after every select with the model at the '
                'current sources, the reference and a fresh object; a case is distinct by its full input')
    ctx.trusted_base += ['correspondence harness harness/props/c05.py (exact comparison of events, pair table, original indices)',
                         'numpy any/argwhere/boolean indexing/take/repeat/tile, scipy csr_matrix(...).toarray(), np.argsort '
                         '(modelled as "returns some permutation"; the permutation actually used is read back from the output) '
                         're-implemented in Model/EvSel.lean',
                         'libm cos/sin/asin/sqrt/floor on Float in the driver vs numpy (decisions compared away from 1e-9 near-ties)',
                         'IEEE rounding is outside the theorems (statements over ℝ and over Bool/Nat)']
    ctx.assumptions += ['right ascensions in [0, 2π], declinations in [-π/2, π/2]',
                        'the manager of a method object and the manager handed to initialize_trial describe the same sources',
                        'incoming src_evt_idxs hold non-negative indices; tables with an index outside the shape must be rejected by '
                        'both sides (no property-level verdict); a table handed to AllEventSelectionMethod is sorted, duplicate free, covering',
                        'cases with a non-exact near-tie (0 < margin < 1e-9) of a float comparison are not generated',
                        'chaining is intersection: every method keeps a (source, event) pair only if it is among the given pairs',
                        'readers of the stored table: arrays hold one entry per source (or one entry) / per event held, masks one bit per '
                        'source; a table handed back by a user-defined selection method that is not grouped by ascending source or holds '
                        'an index outside the shape is outside their contract (model and code are still compared there, as a diagnostic)']
    cases = list(fixed_cases())
    ctx.count('fixed_cases', len(cases))
    n_sky = ctx.n(1100, 30000)
    for _ in range(n_sky):
        cases.append(gen_case(rng))
    # batching boundary: 127 / 128 / 129 / 200 sources (+ 257 in the thorough tier), box alone and in chains
    bigK = [127, 128, 129, 200, 256] + ([257, 384] if ctx.thorough else [])
    for K in bigK:
        for rep in range(ctx.n(3, 10)):
            d = rng.choice([0.05, 0.25, 0.5])
            meths = rng.choice([[['box', d]], [['box', d]], [['box', d], ['angerr', 0.1, 0.0, 0.0]], [['ra', d], ['dec', d]],
                                [['angerr', 0.25, 0.3, 0.05]], [['all'], ['box', d]]])
            if rep == 0:
                meths = [['box', d]]          # every batching class is driven at least once
            cases.append(gen_case(rng, K=K, N=rng.choice([6, 10, 25]), methods=meths, mode=rng.choice(['S', 'T']),
                                  key_sources=rng.sample([0, 126, 127, 128, 129, 255, 256, K - 1], 4) + [127]))
    # ---- run implementation, batch the model
    outs, reqs, kept = [], [], []
    for c in cases:
        if near_tie_events(c):
            ctx.count('skipped_near_tie')
            continue
        out = run_impl(c)
        kept.append(c)
        outs.append(out)
        reqs.append(model_request(c, out))
    # argsort: the permutation the implementation used must be an admissible argsort of the index field of the selected
    # events (checked by the model's executable `isArgsort`, proved sound), and the model's stable argsort = numpy's
    as_reqs, as_want, as_case = [], [], []
    for c, out in zip(kept, outs):
        if len(as_reqs) < 400:
            for req, want in _argsort_lines(c, out):
                as_reqs.append(req)
                as_want.append(want)
                as_case.append(c)
    # batching model self-check lines (cheap): B in 1..5, K in 0..12
    batch_reqs = ['batch %d %d 2' % (B, K) for B in range(1, 6) for K in range(0, 13)]
    answers = ctx.driver('C05', reqs + batch_reqs + as_reqs)
    for req, want, ans, c in zip(as_reqs, as_want, answers[len(reqs) + len(batch_reqs):], as_case):
        ctx.case(key=req)
        ctx.count('model:' + req.split()[0])
        if ans != want:
            if req.startswith('isargsort'):
                ctx.violation('corr', c, 'the order in which initialize_trial stored the events is not an admissible argsort of the '
                              'index field of the selected events (%s)' % req, signature='C05/TrialDataManager.sort/not-an-argsort')
            else:
                ctx.violation('corr', c, 'stable argsort: model %s, numpy %s' % (ans, want), kind='correspondence',
                              relation='argsortStable = np.argsort(kind=stable)', signature='C05/model/argsort', no_failing_input=True)
    models = [parse_model(a) for a in answers[:len(reqs)]]
    for req, ans in zip(batch_reqs, answers[len(reqs):len(reqs) + len(batch_reqs)]):
        _, B, K, n = req.split()
        want = ','.join('r' + ('1' if k % 2 else '0') * 2 for k in range(int(K))) or '-'
        ctx.case(key=req)
        ctx.count('model:batching')
        if ans != want:
            ctx.violation('corr', {'request': req}, 'batched mask model gives %s, expected %s' % (ans, want),
                          kind='correspondence', relation='batchedMask = row by row', signature='C05/model/batching',
                          no_failing_input=True)
    suspicious = []
    main_pre = set()
    for c, out, model in zip(kept, outs, models):
        K, N = len(c['srcs']), len(c['evs']['ra'])
        ctx.case(key=c, desc={'n_sources': K, 'n_events': N, 'methods': c['methods'], 'mode': c['mode'],
                              'index_field': c.get('index_field'), 'impl': out} if ctx.evaluations % 37 == 0 else None)
        ctx.count('K=%s' % (K if K <= 3 else '4-20' if K <= 20 else '21-126' if K <= 126 else '127-129' if K <= 129 else '200+'))
        if c.get('inc_class'):
            ctx.count('incoming_table:' + c['inc_class'])
        for m in c['methods']:
            if m[0] in ('dec', 'ra', 'box'):
                d = unjson_float(m[1])
                ctx.count('angle:%s' % ('<0.1' if d < 0.1 else '0.1-1' if d <= 1 else '1-pi' if d < PI else 'pi'))
        ctx.count('N=%s' % (N if N <= 1 else '2-12' if N <= 12 else '13-45' if N <= 45 else '46-60'))
        ctx.count('mode:%s' % (c['mode'] + ('+index' if c.get('index_field') else '')))
        if c['mode'] == 'T':
            ne = c.get('n_events')
            ctx.count('tdm:n_events=%s%s' % ('not-given' if ne is None else 'held' if ne == N else 'larger', '' if c['methods'] else ',no-selection'))
        if c.get('tl'):
            ctx.count('with_timelord')
        for gk, gv in (c.get('glue') or {'forms': 'plain'}).items():
            ctx.count('glue:%s=%s' % (gk, gv))
        ctx.count('chain_len=%d' % len(c['methods']))
        for m in c['methods']:
            ctx.count('method:' + m[0])
        if c.get('inc') is not None:
            ctx.count('incoming_table')
        if 'exc' not in out:
            nsel = len(out['ev'])
            ctx.count('selected:%s' % ('none' if nsel == 0 and N > 0 else 'all' if nsel == N and N > 0 else
                                       'empty-input' if N == 0 else 'some'))
        if any(s[1] in (HALF_PI, -HALF_PI) for s in c['srcs']):
            ctx.count('source_at_pole')
        if any(s[0] in (0.0, TWO_PI) for s in c['srcs']):
            ctx.count('source_at_seam')
        if N:
            for m in c['methods']:
                _, mg = crit_matrix(m, c['srcs'], c['evs'], np.arange(N))
                if np.any(mg == 0.0):
                    ctx.count('exact_tie:' + m[0])
        count_branches(ctx, c, out)
        # property oracle on the implementation
        r = check_against_reference(c, out)
        if r is not None:
            pre = (_site(c), r[0])
            if pre in main_pre:
                ctx.count('violation_repeats')
                continue
            main_pre.add(pre)
            small = _shrink(ctx, c, r[0]) if len(main_pre) <= 10 else c
            rr = check_against_reference(small, run_impl(small)) or r
            ctx.violation('select', small, rr[1], impl_output=run_impl(small),
                          signature='C05/%s/%s' % (_site(small), rr[0]))
            continue
        d = corr_compare(c, out, model)
        if d:
            suspicious.append((c, out, model, d))
    # model / implementation disagreements without an oracle hit
    seen = set()
    for c, out, model, d in sorted(suspicious, key=lambda x: len(x[0]['evs']['ra']) * len(x[0]['srcs'])):
        sig = 'C05/corr/%s' % _site(c)
        if sig in seen:
            continue
        seen.add(sig)
        ctx.violation('corr', c, 'model and implementation disagree (%s) and the brute-force oracle accepts the '
                      'implementation output' % d, kind='correspondence', relation='exact equality of events, table, original indices',
                      impl_output=out, model_output=model, signature=sig, no_failing_input=True)
    ctx.extra['correspondence_disagreements'] = len(suspicious)
    # ---- histories of 2..4 initialize_trial calls on one TrialDataManager
    hists = [h for h in (gen_history(rng) for _ in range(ctx.n(280, 6000))) if not _hist_near_tie(h)]
    # hand-made: selection (with and without index field) followed by a trial without selection and fewer events
    hists = fixed_histories() + hists
    houts = [run_impl_history(h) for h in hists]
    hreqs, spans = [], []
    for h, outs in zip(hists, houts):
        rq = history_requests(h, outs)
        spans.append((len(hreqs) + 1, len(hreqs) + len(rq)))
        hreqs += rq
    hans = ctx.driver('C05', hreqs)
    hseen = set()
    hist_pre = set()
    n_hist_dis = 0
    for h, outs, (a, b) in zip(hists, houts, spans):
        ctx.case(key=h, desc={'history': [dict(n_sources=len(st['srcs']), n_events=len(st['evs']['ra']), methods=st['methods'],
                                               index_field=st.get('index_field')) for st in h['steps']],
                              'impl': outs} if ctx.evaluations % 97 == 0 else None)
        ctx.count('history_len=%d' % len(h['steps']))
        for p, q in zip(h['steps'], h['steps'][1:]):
            ctx.count('hist:%s->%s' % ('sel' if p['methods'] else 'nosel', 'sel' if q['methods'] else 'nosel'))
            if len(p['srcs']) != len(q['srcs']):
                ctx.count('hist:source_count_changes')
            if bool(p.get('index_field')) != bool(q.get('index_field')):
                ctx.count('hist:index_field_toggles')
        r = check_history(h, outs)
        if r is not None:
            pre = (r[0], bool(h['steps'][r[2]]['methods']), bool(h['steps'][r[2]].get('index_field')),
                   r[2] > 0 and bool(h['steps'][r[2] - 1]['methods']))
            if pre in hist_pre:
                ctx.count('violation_repeats')
                continue
            hist_pre.add(pre)
            small = _shrink_history(h, r[0]) if len(hist_pre) <= 8 else h
            souts = run_impl_history(small)
            rr = check_history(small, souts) or r
            hh, k = (small, rr[2]) if rr is not r else (h, r[2])
            cls = 'call%s[%s%s]' % ('1' if k == 0 else '>1:after-' + ('selection' if hh['steps'][k - 1]['methods'] else 'no-selection'),
                                   'selection' if hh['steps'][k]['methods'] else 'NoSelection',
                                   ',index_field' if hh['steps'][k].get('index_field') else '')
            ctx.violation('history', small, rr[1], kind='history', impl_output=souts,
                          signature='C05/TrialDataManager.history/%s/%s' % (cls, rr[0]))
            continue
        d = corr_history(h, outs, hans[a:b])
        if d:
            n_hist_dis += 1
            sig = 'C05/corr/TrialDataManager.history'
            if sig not in hseen:
                hseen.add(sig)
                ctx.violation('corr', h, 'model and implementation disagree on a call history (%s) and the reference / fresh-manager '
                              'oracle accepts the implementation' % d, kind='correspondence',
                              relation='exact equality of events and table after every call', impl_output=outs,
                              model_output=hans[a:b], signature=sig, no_failing_input=True)
    ctx.extra['history_disagreements'] = n_hist_dis
    # ---- histories on one selection-method object (cached source array, change_shg_mgr)
    ecases = fixed_esm() + [e for e in (gen_esm(rng) for _ in range(ctx.n(250, 5000))) if not _esm_near_tie(e)]
    eouts = [run_impl_esm(e) for e in ecases]
    ereqs, espans = [], []
    for e, outs in zip(ecases, eouts):
        rq, pos = esm_requests(e, outs)
        espans.append((len(ereqs), pos))
        ereqs += rq
    eans = ctx.driver('C05', ereqs)
    n_esm_dis = 0
    esm_seen = set()
    for e, outs, (off, pos) in zip(ecases, eouts, espans):
        ctx.case(key=e, desc={'method_object': e['methods'], 'nest': e['nest'], 'ops': [st['op'] for st in e['steps']],
                              'impl': [o for o in outs if o is not None]} if ctx.evaluations % 97 == 0 else None)
        ctx.count('esm:histories')
        for m in e['methods']:
            ctx.count('esm:method:' + m[0])
        if len(e['methods']) > 1:
            ctx.count('esm:intersection')
        for st in e['steps']:
            ctx.count('esm:op:' + st['op'] + (':held' if st.get('same') else '') + (':rejected' if st.get('expect_error') else '')
                      + (':' + st['what'] if st['op'] == 'set' else ''))
        r = check_esm(e, outs)
        if r is not None:
            names = {'dec': 'DecBand', 'ra': 'RABand', 'box': 'SpatialBox', 'all': 'All', 'psifunc': 'PsiFunc', 'angerr': 'AngErrOfPsi'}
            kinds = sorted(set(names[m[0]] for m in e['methods']))
            sig = 'C05/%s%s.change_shg_mgr+select_events/%s' % ('Intersection:' if len(e['methods']) > 1 else '', '+'.join(kinds), r[0])
            if len(e['methods']) > 1 and r[2] > 0 and e['steps'][r[2] - 1].get('expect_error') and not e['steps'][r[2] - 1].get('invalid'):
                # a sub-method rejected the manager after an earlier sub-method had taken it (fixed by the two-phase check)
                sig = 'C05/IntersectionEventSelectionMethod.change_shg_mgr/half-changed-after-rejected-change'
            if sig in esm_seen:
                ctx.count('violation_repeats')
                continue
            esm_seen.add(sig)
            small = _shrink_esm(e, r[0]) if len(esm_seen) <= 6 else e
            souts = run_impl_esm(small)
            rr = check_esm(small, souts) or r
            ctx.violation('method_object', small, rr[1], kind='history', impl_output=souts, signature=sig)
            continue
        d = corr_esm(e, outs, eans[off:], pos)
        if d:
            n_esm_dis += 1
            if n_esm_dis == 1:
                ctx.violation('corr', e, 'model and implementation disagree on a method-object history (%s) and the reference / '
                              'fresh-object oracle accepts the implementation' % d, kind='correspondence',
                              relation='exact equality of events, table, original indices after every select', impl_output=outs,
                              signature='C05/corr/method-object-history', no_failing_input=True)
    ctx.extra['method_object_disagreements'] = n_esm_dis
    # ---- aliasing: one events object for several calls, returned arrays overwritten by the caller
    alias_seen = set()
    for a in fixed_alias() + [gen_alias(rng) for _ in range(ctx.n(180, 4000))]:
        if _alias_near_tie(a):
            ctx.count('skipped_near_tie')
            continue
        ctx.case(key=a, desc={'aliasing': a['seq'], 'tdm': a['tdm']} if ctx.evaluations % 97 == 0 else None)
        ctx.count('alias:histories')
        ctx.count('alias:select_calls', len(a['seq']))
        ctx.count('alias:tdm_calls', len(a['tdm']))
        r = check_alias(a)
        if r is not None:
            sig = 'C05/aliasing/%s' % r[0]
            if sig in alias_seen:
                ctx.count('violation_repeats')
                continue
            alias_seen.add(sig)
            small = dict(a)
            for cut in ('seq', 'tdm'):          # shrink: drop calls while the failure mode persists
                j = 0
                while j < len(small[cut]):
                    cand = dict(small)
                    cand[cut] = small[cut][:j] + small[cut][j + 1:]
                    rr = check_alias(cand)
                    if rr is not None and rr[0] == r[0]:
                        small = cand
                    else:
                        j += 1
            ctx.violation('aliasing', small, (check_alias(small) or r)[1], kind='history', signature=sig)
    ctx.extra['table_order_differs_diagnostic'] = _DIAG['table_order_differs']
    # ---- readers of the stored table (round 7): broadcast_* / get_values_mask_for_source_mask after trials on one manager
    rcases = r7.fixed(rng)
    for i in range(ctx.n(200, 6000)):
        rcases.append(r7.gen(rng, directed=('custom' if i % 9 == 0 else 'fresh' if i % 9 == 1 else None)))
    rblocks = [r7.run_impl(rc, rng=rng) for rc in rcases]          # the reads are generated during this first pass
    rreqs, rspans = [], []
    for rc, blocks in zip(rcases, rblocks):
        rq = r7.requests(rc, blocks)
        rspans.append((len(rreqs), len(rreqs) + len(rq)))
        rreqs += rq
    rans = ctx.driver('C05', rreqs)
    r_seen = set()
    n_r_dis = 0
    for rc, blocks, (a, b) in zip(rcases, rblocks, rspans):
        ctx.case(key=rc, desc={'readers': [[q['op'] for q in st['reads']] for st in rc['steps']],
                               'impl': blocks} if ctx.evaluations % 97 == 0 else None)
        ctx.count('readers:histories')
        ctx.count('readers:trials=%d%s' % (len(rc['steps']), ',reads-on-fresh-manager' if rc.get('pre') else ''))
        for st in rc['steps']:
            ctx.count('readers:table=%s' % ('user-method:' + st.get('custom_class', 'hand-made') if st.get('custom') is not None else
                                            'no-selection' if not st['trial']['methods'] else 'shipped-method')
                      + (',index_field' if st['trial'].get('index_field') and st.get('custom') is None else ''))
            for q in st['reads']:
                ctx.count('readers:op:' + q['op'])
                for gk, gv in (q.get('form') or {'forms': 'plain'}).items():
                    ctx.count('readers:glue:%s=%s' % (gk, gv))
        r = r7.check(rc, blocks)
        if r is not None:
            sig = 'C05/TrialDataManager.readers/%s' % r[0]
            if sig in r_seen:
                ctx.count('violation_repeats')
                continue
            r_seen.add(sig)
            small = rc
            if len(rc['steps']) > 1:                 # shrink: a single trial, a single read
                for st in rc['steps']:
                    cand = dict(rc, steps=[st])
                    cand.pop('pre', None)
                    rr = r7.check(cand)
                    if rr is not None and rr[0] == r[0]:
                        small = cand
                        break
            if len(small['steps']) == 1:
                for q in small['steps'][0]['reads']:
                    cand = dict(small, steps=[dict(small['steps'][0], reads=[q])])
                    rr = r7.check(cand)
                    if rr is not None and rr[0] == r[0]:
                        small = cand
                        break
            ctx.violation('readers', small, (r7.check(small) or r)[1], kind='history', impl_output=r7.run_impl(small), signature=sig)
            continue
        d = r7.corr(rc, blocks, rans[a:b], count=ctx.count)
        if d:
            n_r_dis += 1
            if n_r_dis == 1:
                ctx.violation('corr', rc, 'model and implementation disagree on a reader of the stored table (%s) and the own-source / '
                              'own-event oracle accepts the implementation' % d, kind='correspondence',
                              relation='exact equality of the passed-through entries; error on both sides or on none',
                              impl_output=blocks, signature='C05/corr/TrialDataManager.readers', no_failing_input=True)
    ctx.extra['readers_disagreements'] = n_r_dis
    # ---- EventSelectionMethod.create_src_evt_mask called directly
    mcases = [r7.gen_mask_case(rng) for _ in range(ctx.n(150, 4000))]
    mouts = [r7.run_mask(mc) for mc in mcases]
    mans = ctx.driver('C05', [r7.mask_request(mc) for mc in mcases])
    m_seen = set()
    for mc, mo, ma in zip(mcases, mouts, mans):
        ctx.case(key=mc)
        ctx.count('create_src_evt_mask:form=%s' % mc['form'])
        r = r7.check_mask(mc, mo)
        d = r7.corr_mask(mc, mo, ma, count=ctx.count)
        if r is not None:
            sig = 'C05/EventSelectionMethod.create_src_evt_mask/%s' % r[0]
            if sig not in m_seen:
                m_seen.add(sig)
                ctx.violation('src_evt_mask', mc, r[1], impl_output=mo, signature=sig)
        elif d and 'corr' not in m_seen:
            m_seen.add('corr')
            ctx.violation('corr', mc, 'model and implementation disagree on create_src_evt_mask (%s) and the indicator-matrix oracle '
                          'accepts the implementation' % d, kind='correspondence', relation='exact equality of the mask; error on both '
                          'sides or on none', impl_output=mo, signature='C05/corr/create_src_evt_mask', no_failing_input=True)
    # ---- branch coverage of the modelled functions
    ctx.counters['branch:changeShgMgr:same-manager'] += ctx.counters.get('esm:op:change:held', 0)
    ctx.counters['branch:changeShgMgr:new-manager'] += ctx.counters.get('esm:op:change', 0)
    ctx.counters['branch:changeShgMgr:rejected'] += ctx.counters.get('esm:op:change:rejected', 0)
    ctx.extra['counts'] = {'branches': {b: ctx.counters.get('branch:' + b, 0) for b in BRANCHES},
                           'zero_hit_branches': [b for b in BRANCHES if ctx.counters.get('branch:' + b, 0) == 0],
                           'unreachable_by_float_runs': BRANCHES_UNREACHABLE}
    if ctx.extra['counts']['zero_hit_branches']:
        ctx.note('C05: model branches not driven in this run: %s' % ', '.join(ctx.extra['counts']['zero_hit_branches']))


MANIFEST = dict(
    text=('Lean theorems (pure Bool/Nat index layer, all mask matrices / criteria, all numbers of sources and events): the returned '
          'events are exactly the input events meeting the criterion for at least one source, in original order; the pair table lists '
          '(k, j) iff returned event j qualifies for source k, strictly lexicographically sorted (no duplicates, grouped by ascending '
          'source), indices in range, every returned event covered; original indices map back; batching with any batch size >= 1 '
          '(128 extracted from the source) is irrelevant; every method selects within the incoming pair table and chaining is '
          'intersection (c05_chain_is_intersection: if m1 selects by c1 and m2 by c2 then m1 & m2 selects by c1-and-c2 for the same '
          'source, for every nesting); the default table of the trial data manager and its sort + re-index keep every pair on the same '
          'physical event, independently of the call history of the manager object; change_shg_mgr refreshes the cached source array. '
          'Over the reals: both RA-distance formulas equal the circle distance (wrap-around), declination bands are clipped to +-pi/2, '
          'closed form of the box criterion with the division by zero of a band touching a pole modelled as IEEE does (whole RA ring). '
          'The executable model (Float criterion layer + index layer) is compared with select_events of all six methods, & chains, '
          'incoming tables (any order, duplicates, out of range), TrialDataManager.initialize_trial (single calls and call histories on '
          'one manager), histories on one method object (sources changed in place, change_shg_mgr, parameter setters) on every run; '
          'failing-input oracles: brute-force double loop with independent geometric formulas, fresh-object comparison, aliasing '
          '(one events object re-used, returned arrays overwritten by the caller). Round 7: the readers of the stored table '
          '(broadcast_sources_array(s)_to_values_array(s), broadcast_selected_events_arrays_to_values_arrays, '
          'get_values_mask_for_source_mask) are modelled as coded (run-length loop, np.take, |= loop; exceptions as Except) and proved '
          'to give every value the entry of its own source / event exactly when the table is grouped by ascending source and in range '
          '(c05_bcast_sources_exact with a counterexample for an ungrouped table, c05_bcast_selected_exact, c05_values_mask_exact), '
          'which initialize_trial establishes on every path and after every history (c05_tdm_table_grouped, c05_tdm_consumers, '
          'c05_tdm_obj_readers); compared on every run after trials on one manager, on a manager without a trial, and on tables '
          'handed back by a user-defined selection method; the defaults of the optional arguments of the manager are read from the '
          'source (c05_tdm_defaults_for_current_source).'),
    note=('Round 7: IntersectionEventSelectionMethod.change_shg_mgr was not atomic (a manager rejected by a later sub-method left the '
          'intersection half-changed, the next select_events raised IndexError); repaired by 79b2c4d on branch agent-C05-r7 (two-phase '
          '_check_shg_mgr), reproduced on the unrepaired tree by directed method-object histories and listed in findings.d/C05.json '
          'until the commit is merged. Theorems are about the model; IEEE rounding and numpy/scipy primitives enter through the correspondence only. np.argsort '
          'is modelled as an arbitrary permutation (sortedness of the stored events is checked by the oracle). Relation: events and '
          'original indices exactly, pair table as a set + grouped by ascending source; near-ties (0 < margin < 1e-9) are not generated. '
          'Six genuine defects were repaired in the tree (PsiFunc event indices, initialize_trial re-index, methods ignoring the incoming '
          'pair table = chaining not an intersection, All returning the cached indices array, PsiFunc.change_shg_mgr accepting several '
          'sources, in-place sort of the caller events); the pre-fix forms are refuted by counterexample theorems where modelled.'),
    design='DESIGN.md section 4 C05',
    technique='Lean 4 proof (induction over lists, permutation/inverse-permutation lemmas, compositional Honors predicate for chains, '
              'real analysis for wrap-around and polar bands) + model/implementation correspondence + brute-force, fresh-object and '
              'aliasing oracles')
