"""C13 — flux models: integrals, units, parameter updates and copies are consistent.

Correspondence: real skyllh flux profiles / FactorizedFluxModel vs. Model/Flux.lean (Driver/C13.lean):
profile values, closed-form integrals (and the model's own numerical integral of its profile values),
cdf, support windows, outer product, and set_params / move / copy histories on a heap of objects.
Relation: tolerance (stated per kind below) for computed floats, exact for decisions, flags, names.
Property oracles (implementation only): Gauss-Legendre quadrature of the implementation's own profile
values vs. get_integral, additivity, unit changes, product form, update-vs-construct, copy independence.
"""
import copy as _copy
import math

import numpy as np

from harness.core import f2b, b2f, flist, parse_flist

MODEL_MODULES = ['SkyllhModel.Model.Flux', 'SkyllhModel.Model.FluxRvR7', 'SkyllhModel.Generated.C13']

# Python callables with an executable Lean counterpart that the theorems are about and that run(ctx) compares with
# the real callable on every run
_FMP = 'skyllh/core/flux_model.py::'
MODEL_MAP = {
    _FMP + 'PowerLawEnergyFluxProfile.__call__': ['Flux.plCall', 'Flux.plCallU'],
    _FMP + 'PowerLawEnergyFluxProfile.get_integral': ['Flux.plIntegral', 'Flux.plIntegralU'],
    _FMP + 'CutoffPowerLawEnergyFluxProfile.__call__': ['Flux.cutoffCall', 'Flux.cutoffCallU'],
    _FMP + 'LogParabolaPowerLawEnergyFluxProfile.__call__': ['Flux.logparCall', 'Flux.logparCallU'],
    _FMP + 'BoxTimeFluxProfile.__init__': ['Flux.boxNew'],
    _FMP + 'BoxTimeFluxProfile.t0': ['Flux.boxT0', 'Flux.boxSetT0'],
    _FMP + 'BoxTimeFluxProfile.tw': ['Flux.boxTw', 'Flux.boxSetTw'],
    _FMP + 'BoxTimeFluxProfile.__call__': ['Flux.boxCall'],
    _FMP + 'BoxTimeFluxProfile.cdf': ['Flux.boxCdf'],
    _FMP + 'BoxTimeFluxProfile.move': ['Flux.boxMove'],
    _FMP + 'BoxTimeFluxProfile.get_integral': ['Flux.boxIntegral'],
    _FMP + 'GaussianTimeFluxProfile.__init__': ['Flux.gaussNew', 'Flux.gaussNewChecked', 'Flux.gaussHalfWidth'],
    _FMP + 'GaussianTimeFluxProfile.t0': ['Flux.gaussT0', 'Flux.gaussSetT0'],
    _FMP + 'GaussianTimeFluxProfile.sigma_t': ['Flux.gaussSetSigma'],
    _FMP + 'GaussianTimeFluxProfile.__call__': ['Flux.gaussCall', 'Flux.gaussShape'],
    _FMP + 'GaussianTimeFluxProfile.cdf': ['Flux.gaussCdf'],
    _FMP + 'GaussianTimeFluxProfile.move': ['Flux.gaussMove'],
    _FMP + 'GaussianTimeFluxProfile.get_integral': ['Flux.gaussIntegral', 'Flux.gaussPrim', 'Flux.clip'],
    _FMP + 'TimeFluxProfile.get_total_integral': ['Flux.Cell.totalT', 'Flux.gaussTotal'],
    _FMP + 'FluxModel.to_internal_flux_unit': ['Flux.toInternalFlux'],
    _FMP + 'FactorizedFluxModel.__call__': ['Flux.Heap.call', 'Flux.fluxOuter', 'Flux.evalArg'],
    _FMP + 'FactorizedFluxModel.param_names': ['Flux.Heap.paramNames'],
    _FMP + 'FactorizedFluxModel.get_param': ['Flux.Heap.getParam'],
    _FMP + 'FactorizedFluxModel.set_params': ['Flux.Heap.setParams', 'Flux.Heap.setParamsV'],
    'skyllh/core/math.py::MathFunction.set_params': ['Flux.Cell.setParams', 'Flux.setOne', 'Flux.Cell.setParamsV', 'Flux.setOneV'],
    'skyllh/core/math.py::MathFunction.get_param': ['Flux.Cell.getParam'],
    'skyllh/core/math.py::MathFunction.copy': ['Flux.Heap.copy', 'Flux.Heap.copySet'],
    'skyllh/core/utils/flux_model.py::create_scipy_stats_rv_continuous_from_TimeFluxProfile':
        ['Flux.rvNew', 'Flux.rvNorm', 'Flux.rvPdf', 'Flux.rvCdf', 'Flux.rvPdfCell', 'Flux.rvCdfCell'],
}

import collections as _coll
BR = _coll.Counter()        # hits per branch of the modelled functions (classified on the harness side)
# every branch of the model that the correspondence is expected to reach
BRANCHES = [
    'conv:none', 'conv:some', 'unitFactor:none', 'unitFactor:equal', 'unitFactor:convert',
    'plIntegral:gamma==1', 'plIntegral:else',
    'boxCall:inside', 'boxCall:outside', 'boxIntegral:overlap', 'boxIntegral:no-overlap',
    'boxIntegral:t1-clipped', 'boxIntegral:t1-inside', 'boxIntegral:t2-clipped', 'boxIntegral:t2-inside',
    'boxCdf:before', 'boxCdf:inside', 'boxCdf:after',
    'gaussCall:inside', 'gaussCall:outside', 'clip:below', 'clip:inside', 'clip:above',
    'gaussCdf:before', 'gaussCdf:inside', 'gaussCdf:after', 'gaussNewChecked:some', 'gaussNewChecked:none',
    'setOne:changed', 'setOne:unchanged', 'setOne:not-in-dict',
    'setOneV:after-error', 'setOneV:num', 'setOneV:arr', 'setOneV:bad', 'setParamsV:model-stops-delegation',
    'move:unityT', 'move:box', 'move:gauss', 'move:no-such-method', 'moveU:none', 'moveU:some',
    'copy:ffm', 'copy:profile', 'copySet:ffm', 'copySet:profile',
    'getParam:own', 'getParam:profile', 'getParam:none',
    'call:none-ang', 'call:none-E', 'call:none-t', 'call:all-given', 'evalS:unityS', 'evalS:point-hit', 'evalS:point-miss',
    'evalE:unityE', 'evalE:pl', 'evalE:cutoff', 'evalE:logpar', 'evalE:func', 'evalT:unityT', 'evalT:box', 'evalT:gauss',
]
# branches of the model that cannot be addressed through the Python interface (listed, not counted)
from harness.c13_r7_fixtures import RV_BRANCHES, RV_BRANCHES_EXCLUDED  # noqa: E402
BRANCHES += RV_BRANCHES

BRANCHES_EXCLUDED = {
    'rvPdf / rvCdf: scale <= 0': 'the source freezes the variable with scale=1 (generated constant rvScale)',
    'Heap.copy:none / Heap.call:none / targets:none': 'a Python call always has a live receiver object; dangling heap indices do not exist',
    'Heap.setParams: acc.1[j]? = none': 'a model always refers to existing profile objects',
    'setOne / setOneV: getAttr = none': 'param_names are validated to be properties by the param_names setter of MathFunction',
}

FM = 'skyllh/core/flux_model.py'
_RECORDED_NAMES = {
    'point': ('PointSpatialFluxProfile', ['ra', 'dec']),
    'pl': ('PowerLawEnergyFluxProfile', ['E0', 'gamma']),
    'cutoff': ('CutoffPowerLawEnergyFluxProfile', ['E0', 'gamma', 'Ecut']),
    'logpar': ('LogParabolaPowerLawEnergyFluxProfile', ['E0', 'alpha', 'beta']),
    'unityT': ('TimeFluxProfile', ['t_start', 't_stop']),
    'box': ('BoxTimeFluxProfile', ['t0', 'tw']),
    'gauss': ('GaussianTimeFluxProfile', ['t0', 'sigma_t']),
    'ffm': ('FactorizedFluxModel', ['Phi0']),
}
# what the constructors take (the harness' own knowledge of the interface; used by the oracles)
CTOR_PARAMS = {'point': ['ra', 'dec'], 'pl': ['E0', 'gamma'], 'cutoff': ['E0', 'gamma', 'Ecut'],
               'logpar': ['E0', 'alpha', 'beta'], 'unityT': ['t_start', 't_stop'], 'box': ['t0', 'tw'],
               'gauss': ['t0', 'sigma_t'], 'unityS': [], 'unityE': [], 'function': [], 'epeak': ['e_peak']}
E_KINDS = ('pl', 'cutoff', 'logpar', 'function', 'unityE', 'epeak')
NUMERIC_INT_KINDS = ('cutoff', 'logpar', 'function', 'epeak')     # get_integral is numerical in the code
T_KINDS = ('unityT', 'box', 'gauss')


def generated(ctx):
    from harness import extract
    fields = []
    for key, (cls, rec) in _RECORDED_NAMES.items():
        try:
            v = extract.class_attr(FM, cls, 'param_names')
            v = [v] if isinstance(v, str) else list(v)
        except Exception as e:  # inherited (not assigned in the class body) or moved
            # an inherited tuple: look it up in the base class chain recorded here
            base = {'cutoff': 'PowerLawEnergyFluxProfile', 'logpar': 'PowerLawEnergyFluxProfile'}.get(key)
            try:
                if base is None:
                    raise
                v = list(extract.class_attr(FM, base, 'param_names'))
            except Exception:
                v = rec
                ctx.proof['generated_fallbacks'].append('param_names of %s' % cls)
                ctx.note('C13: could not extract param_names of %s (%s); using the recorded value' % (cls, e))
        fields.append('  %s := %s' % (key, extract.lean_str_list(v)))
    try:
        tol = extract.arg_default(FM, 'GaussianTimeFluxProfile', '__init__', 'tol')
    except Exception as e:
        tol = 1e-12
        ctx.proof['generated_fallbacks'].append('GaussianTimeFluxProfile tol')
        ctx.note('C13: could not extract the default tol (%s); using 1e-12' % e)
    rvc = _extract_rv_constants(ctx, extract)
    return ('-- generated by harness/props/c13.py from skyllh/core/flux_model.py — do not edit\n'
            'import SkyllhModel.Model.Flux\nnamespace Gen.C13\n\n'
            'def paramNames : Flux.ParamNames := {\n' + ',\n'.join(fields) + ' }\n\n'
            'def gaussTol {F : Type} [OfScientific F] : F := %s\n\n' % extract.lean_float(tol)
            + '-- skyllh/core/utils/flux_model.py: `norm = <rvNormDefault>` before the `tot_integral != 0` test,\n'
              '-- `.freeze(loc=<rvLoc>, scale=<rvScale>)`\n'
            + ''.join('def %s {F : Type} [OfScientific F] : F := %s\n' % (k_, extract.lean_float(rvc[k_]))
                      for k_ in ('rvNormDefault', 'rvLoc', 'rvScale'))
            + '\nend Gen.C13\n')


UFM = 'skyllh/core/utils/flux_model.py'
_RV_RECORDED = {'rvNormDefault': 0.0, 'rvLoc': 0.0, 'rvScale': 1.0}


def _extract_rv_constants(ctx, extract):
    """literal constants of create_scipy_stats_rv_continuous_from_TimeFluxProfile: the initial `norm` and the
    keywords of `.freeze(loc=, scale=)`"""
    import ast
    out = dict(_RV_RECORDED)
    try:
        f = extract.find_func(extract.parse(UFM), 'create_scipy_stats_rv_continuous_from_TimeFluxProfile')
        got = {}
        for node in f.body:   # top-level statements of the function only (not the nested class)
            if isinstance(node, ast.Assign) and len(node.targets) == 1 and isinstance(node.targets[0], ast.Name) \
                    and node.targets[0].id == 'norm' and 'rvNormDefault' not in got:
                got['rvNormDefault'] = float(extract.literal(node.value))
        for n_, kws in [(n_, c_.keywords) for n_, c_ in ((0, c_) for c_ in ast.walk(f) if isinstance(c_, ast.Call)
                        and isinstance(c_.func, ast.Attribute) and c_.func.attr == 'freeze')]:
            for k_ in kws:
                if k_.arg in ('loc', 'scale'):
                    got['rvLoc' if k_.arg == 'loc' else 'rvScale'] = float(extract.literal(k_.value))
        missing = [k_ for k_ in out if k_ not in got]
        if missing:
            raise LookupError('not found: %s' % missing)
        out.update(got)
    except Exception as e:
        ctx.proof['generated_fallbacks'].append('rv constants of utils/flux_model.py')
        ctx.note('C13: could not extract the constants of the random-variable factory (%s); using the recorded values' % e)
    return out


# ------------------------------------------------------------------------------------------
# building real objects from JSON-able specs

_CFG = None


def cfg():
    global _CFG
    if _CFG is None:
        from skyllh.core.config import Config
        _CFG = Config()
    return _CFG


def unit(name):
    from astropy import units
    return None if name is None else getattr(units, name)


def ufac(arg_unit, own_unit):
    """the factor the implementation multiplies arguments with (None: no conversion)"""
    if arg_unit is None or arg_unit == own_unit:
        return None
    return float(unit(arg_unit).to(unit(own_unit)))


class PlExp:
    """function-based profile: E^-g exp(-E/Ec) (a plain callable, deep-copyable)"""
    def __init__(self, g, Ec):
        self.g, self.Ec = g, Ec

    def __call__(self, E):
        E = np.asarray(E, dtype=np.float64)
        return np.power(E, -self.g) * np.exp(-E / self.Ec)


def build(spec):
    import skyllh.core.flux_model as fm
    k, p, u = spec['kind'], spec.get('p', {}), spec.get('unit')
    if k == 'unityS':
        return fm.UnitySpatialFluxProfile(angle_unit=unit(u), cfg=cfg())
    if k == 'point':
        return fm.PointSpatialFluxProfile(ra=p['ra'], dec=p['dec'], angle_unit=unit(u), cfg=cfg())
    if k == 'unityE':
        return fm.UnityEnergyFluxProfile(energy_unit=unit(u), cfg=cfg())
    if k == 'pl':
        return fm.PowerLawEnergyFluxProfile(E0=p['E0'], gamma=p['gamma'], energy_unit=unit(u), cfg=cfg())
    if k == 'cutoff':
        return fm.CutoffPowerLawEnergyFluxProfile(E0=p['E0'], gamma=p['gamma'], Ecut=p['Ecut'], energy_unit=unit(u), cfg=cfg())
    if k == 'logpar':
        return fm.LogParabolaPowerLawEnergyFluxProfile(E0=p['E0'], alpha=p['alpha'], beta=p['beta'], energy_unit=unit(u), cfg=cfg())
    if k == 'epeak':
        return fm.EpeakFunctionEnergyProfile(function=PlExp(p['g'], p['Ec']), e_peak_orig=p['e_peak_orig'], e_peak_offset=p['e_peak'],
                                             energy_unit=unit(u), cfg=cfg())
    if k == 'function':
        return fm.FunctionEnergyFluxProfile(function=PlExp(p['g'], p['Ec']), energy_unit=unit(u), cfg=cfg())
    if k == 'unityT':
        kw = {n: p[n] for n in ('t_start', 't_stop') if n in p}
        return fm.UnityTimeFluxProfile(time_unit=unit(u), cfg=cfg(), **kw)
    if k == 'box':
        return fm.BoxTimeFluxProfile(t0=p['t0'], tw=p['tw'], time_unit=unit(u), cfg=cfg())
    if k == 'gauss':
        kw = {} if p.get('tol') is None else {'tol': p['tol']}
        return fm.GaussianTimeFluxProfile(t0=p['t0'], sigma_t=p['sigma_t'], time_unit=unit(u), cfg=cfg(), **kw)
    if k == 'ffm' and spec.get('cls') == 'pffm':      # PointlikeFFM builds its own point profile
        return fm.PointlikeFFM(Phi0=p['Phi0'], energy_profile=build(spec['e']), time_profile=build(spec['t']),
                               ra=spec['s']['p']['ra'], dec=spec['s']['p']['dec'], cfg=cfg())
    if k == 'ffm' and spec.get('cls') == 'spffm':     # SteadyPointlikeFFM: unity time profile
        return fm.SteadyPointlikeFFM(Phi0=p['Phi0'], energy_profile=build(spec['e']), ra=spec['s']['p']['ra'],
                                     dec=spec['s']['p']['dec'], time_unit=unit(spec['t'].get('unit')), cfg=cfg())
    if k == 'ffm' and spec.get('cls') == 'default':   # None profiles -> Unity*
        return fm.FactorizedFluxModel(Phi0=p['Phi0'], spatial_profile=None, energy_profile=None, time_profile=None, cfg=cfg())
    if k == 'ffm':
        return fm.FactorizedFluxModel(Phi0=p['Phi0'], spatial_profile=build(spec['s']), energy_profile=build(spec['e']),
                                      time_profile=build(spec['t']), length_unit=unit(spec.get('length_unit')), cfg=cfg())
    raise ValueError(k)


def kind_of(obj):
    import skyllh.core.flux_model as fm
    for k, c in (('cutoff', fm.CutoffPowerLawEnergyFluxProfile), ('logpar', fm.LogParabolaPowerLawEnergyFluxProfile),
                 ('pl', fm.PowerLawEnergyFluxProfile), ('epeak', fm.EpeakFunctionEnergyProfile), ('function', fm.FunctionEnergyFluxProfile),
                 ('unityE', fm.UnityEnergyFluxProfile), ('unityT', fm.UnityTimeFluxProfile), ('box', fm.BoxTimeFluxProfile),
                 ('gauss', fm.GaussianTimeFluxProfile), ('point', fm.PointSpatialFluxProfile),
                 ('unityS', fm.UnitySpatialFluxProfile), ('ffm', fm.FactorizedFluxModel)):
        if isinstance(obj, c):
            return k
    raise ValueError(type(obj))


def raw_state(obj):
    """the state of an object as seen through its *public* properties (what the model's cells hold).
    Nothing private is read: the gaussian's constructor argument `tol` is not observable publicly — it
    is known to the harness (it constructs every profile; copies inherit it; set_params cannot change
    it) and is passed to the model with `new gauss`; its effect is observed through t_start / t_stop."""
    k = kind_of(obj)

    def g(n):
        try:
            return float(getattr(obj, n))
        except AttributeError:
            raise _NoPublicAttr(n)
    if k == 'pl':
        return [g('E0'), g('gamma')]
    if k == 'cutoff':
        return [g('E0'), g('gamma'), g('Ecut')]
    if k == 'logpar':
        return [g('E0'), g('alpha'), g('beta')]
    if k == 'epeak':
        return [g('e_peak'), g('e_peak_orig')]
    if k in ('unityT', 'box'):
        return [g('t_start'), g('t_stop')]
    if k == 'gauss':
        return [g('t_start'), g('t_stop'), g('sigma_t')]
    if k == 'point':
        return [g('ra'), g('dec')]
    if k == 'ffm':
        return [g('Phi0')]
    return []


class _NoPublicAttr(Exception):
    """a state component is not observable through the public API: the sub-comparison is skipped"""


# ------------------------------------------------------------------------------------------
# independent quadrature of the implementation's own profile values (oracle side)

_GLX, _GLW = np.polynomial.legendre.leggauss(24)


def gl(f, a, b, panels):
    """composite 24-point Gauss-Legendre of the vectorised f over [a,b]"""
    if not (a < b):
        return 0.0
    edges = np.linspace(a, b, panels + 1)
    h = 0.5 * (edges[1:] - edges[:-1])
    m = 0.5 * (edges[1:] + edges[:-1])
    x = (m[:, None] + h[:, None] * _GLX[None, :]).ravel()
    y = np.asarray(f(x), dtype=np.float64).reshape(len(m), -1)
    return float(np.sum(y * _GLW[None, :] * h[:, None]))


def quad_energy(prof, E1, E2):
    """∫ prof(E) dE over [E1,E2] (own unit), integrated in ln E.  The bounds may sit on the boundary of the
    energy support: E1 = 0 (integrable for hard spectra) and E2 = inf (soft spectra) are integrated decade by
    decade away from the finite bound until a decade contributes nothing any more (nan if that never happens:
    divergent integral)."""
    f = lambda u: np.asarray(prof(np.exp(u)), dtype=np.float64) * np.exp(u)  # noqa
    if E1 > 0 and np.isfinite(E2):
        a, b = math.log(E1), math.log(E2)
        dec = max(1.0, (b - a) / math.log(10))
        return gl(f, a, b, int(24 * dec))
    if not (E1 > 0) and not np.isfinite(E2):
        raise ValueError('both bounds on the boundary')
    total, x, step = 0.0, (E2 if not (E1 > 0) else E1), (0.1 if not (E1 > 0) else 10.0)
    with np.errstate(all='ignore'):
        for k in range(700):
            y = x * step
            if not (1e-300 < y < 1e300):
                break
            part = gl(f, math.log(min(x, y)), math.log(max(x, y)), 24)
            total += part
            x = y
            if k > 2 and abs(part) <= 1e-16 * abs(total):
                return total
    return float('nan')


def quad_time(prof, t1, t2):
    """∫ prof(t) dt over [t1,t2] (own unit); split at the support edges and around the centre"""
    ts, te = float(prof.t_start), float(prof.t_stop)
    if kind_of(prof) in ('box', 'gauss') and np.isfinite(ts) and np.isfinite(te):
        # the profile is zero outside its support: an infinite bound is as good as one beyond the support
        if t1 == -np.inf:
            t1 = min(ts, t2) - 1.0
        if t2 == np.inf:
            t2 = max(te, t1) + 1.0
    pts = {t1, t2}
    for x in (ts, te):
        if t1 < x < t2:
            pts.add(x)
    if kind_of(prof) == 'gauss':
        c, s = 0.5 * (ts + te), abs(float(prof.sigma_t))
        for kk in (-6, -3, -1, 0, 1, 3, 6):
            x = c + kk * s
            if t1 < x < t2:
                pts.add(x)
    pts = sorted(pts)
    return sum(gl(lambda t: prof(t), a, b, 4) for a, b in zip(pts, pts[1:]))


# ------------------------------------------------------------------------------------------
# oracles: (ctx, case) -> None | failure text       (implementation only)

def _try(f, what):
    try:
        return f(), None
    except Exception as e:  # noqa
        return None, '%s raised %s: %s' % (what, type(e).__name__, e)


def pl_noise(spec, xs, ulps=16):
    """magnitude of the float cancellation noise of the power-law closed form E0^g/(1-g) (E2^(1-g) - E1^(1-g)):
    a few ulps of the terms that are subtracted (zero for other profiles and for gamma == 1)"""
    if spec.get('kind') != 'pl' or spec['p']['gamma'] == 1:
        return 0.0
    E0, g = spec['p']['E0'], spec['p']['gamma']
    A = abs(E0 ** g / (1 - g))
    def term(x):
        x = abs(x)
        if x == 0 or x == float('inf'):      # 0^q, inf^q: exactly 0 or inf, no rounding noise from them
            return 0.0
        return x ** (1 - g)
    return ulps * 1.2e-16 * A * sum(term(x) for x in xs)


def near1(spec):
    return spec.get('kind') == 'pl' and 0 < abs(spec['p']['gamma'] - 1) < 1e-8


def epeak_rtol(spec, a, b):
    """accuracy that EpeakFunctionEnergyProfile.get_integral can have by construction: it is a composite
    trapezoid with 50 nodes in log10(E) (documented in the class as a generic numeric integration), whose
    relative error for an integrand exp(phi(u)), u = ln E, is about (h * phi')^2 / 12 with the node distance
    h = ln(b/a)/49.  For the generated family f(E) = (E k)^-g exp(-E k / Ec) (k = 10^(e_peak_orig - e_peak)) the
    log-slope of f(E) E is 1 - g - E k / Ec.  Returns the relative tolerance, or None where the node distance
    does not resolve the integrand at all (h * |phi'| > 1: deep in the exponential cut-off) — there the method
    gives an order of magnitude only and no value comparison is made (counted as skipped)."""
    p = spec['p']
    k = 10.0 ** (p['e_peak_orig'] - p['e_peak'])
    h = abs(math.log(b / a)) / 49.0
    slope = max(abs(1 - p['g'] - x * k / p['Ec']) for x in (a, b))
    hl = h * slope
    if hl > 1.0:
        return None
    return 1e-3 + hl * hl / 4.0


def o_integral_quad(ctx, case):
    """closed form (get_integral) = numerical integral of the profile's own values"""
    spec, x1, x2, au = case['spec'], case['x1'], case['x2'], case.get('arg_unit')
    prof, err = _try(lambda: build(spec), 'constructing %r' % spec)
    if err:
        return err
    f = ufac(au, spec.get('unit'))
    a, b = (x1, x2) if f is None else (x1 * f, x2 * f)
    got, err = _try(lambda: float(np.atleast_1d(prof.get_integral(x1, x2, unit=unit(au)))[0]),
                    'get_integral(%r, %r, unit=%s) of %r' % (x1, x2, au, spec))
    if err:
        return err
    ref = quad_energy(prof, a, b) if spec['kind'] in E_KINDS else quad_time(prof, a, b)
    rtol = case.get('rtol', 1e-6)
    if spec['kind'] == 'epeak':
        rtol = epeak_rtol(spec, a, b)
        if rtol is None:
            ctx.count('skipped:epeak-trapezoid-unresolved')
            return None
    tol = rtol * abs(ref) + 1e-300
    if spec['kind'] == 'gauss':     # erf(x2) - erf(x1): a few ulps of the total area are lost in the tails
        tol += 1e-14 * 2.6 * abs(float(prof.sigma_t))
        # a bound within a few ulps of a support edge (after the unit conversion): value (<= 1) x ulp of the time
        tol += 8e-16 * max([abs(x) for x in (a, b, float(prof.t_start), float(prof.t_stop)) if np.isfinite(x)] + [0.0])
    elif spec['kind'] in T_KINDS:   # differences of (MJD-sized) times
        tol += 1e-15 * max(abs(x) for x in (a, b, float(prof.t_start), float(prof.t_stop)) if np.isfinite(x))
    if not abs(got - ref) <= tol:
        return 'get_integral(%r, %r, unit=%s) of %r = %r, but its profile values integrate to %r' % (x1, x2, au, spec, got, ref)
    return None


def o_additive(ctx, case):
    spec, a, b, c = case['spec'], case['a'], case['b'], case['c']
    prof, err = _try(lambda: build(spec), 'constructing %r' % spec)
    if err:
        return err
    g = lambda x, y: float(np.atleast_1d(prof.get_integral(x, y))[0])  # noqa
    v, err = _try(lambda: (g(a, b), g(b, c), g(a, c)), 'get_integral of %r' % spec)
    if err:
        return err
    rt = 1e-6 if spec['kind'] in NUMERIC_INT_KINDS else 1e-9
    if spec['kind'] == 'epeak':
        rts = [epeak_rtol(spec, x, y) for x, y in ((a, b), (b, c), (a, c))]
        if any(r is None for r in rts):
            ctx.count('skipped:epeak-trapezoid-unresolved')
            return None
        rt = max(rts)
    if not abs(v[0] + v[1] - v[2]) <= rt * (abs(v[0]) + abs(v[1]) + abs(v[2])) + pl_noise(spec, [a, b, b, c, a, c]) + 1e-300:
        return 'get_integral of %r is not additive: [%r,%r] %r + [%r,%r] %r != [%r,%r] %r' % (spec, a, b, v[0], b, c, v[1], a, c, v[2])
    return None


def o_units(ctx, case):
    """value and integral do not depend on the unit the arguments are given in"""
    spec, xs, u1, u2 = case['spec'], case['xs'], case['u1'], case['u2']
    prof, err = _try(lambda: build(spec), 'constructing %r' % spec)
    if err:
        return err
    f12 = 1.0 if u1 == u2 else float(unit(u1).to(unit(u2)))
    if spec['kind'] in E_KINDS:
        xs = [x for x in xs if 0 < x < float('inf')]        # values at the edge of the support may be inf
        if not xs:
            return None
    x1 = np.array(xs, dtype=np.float64)
    x2 = x1 * f12
    v, err = _try(lambda: (np.asarray(prof(x1, unit=unit(u1)), dtype=np.float64), np.asarray(prof(x2, unit=unit(u2)), dtype=np.float64)),
                  'calling %r with units %s/%s' % (spec, u1, u2))
    if err:
        return err
    # conditioning: the converted arguments carry a rounding error of a few ulps; allow the change of the
    # value under such a perturbation (matters for narrow gaussians at MJD-sized times)
    with np.errstate(all='ignore'):
        sens = np.maximum(np.abs(np.asarray(prof(x1 * (1 + 9e-16), unit=unit(u1)), dtype=np.float64) - v[0]),
                          np.abs(np.asarray(prof(x1 * (1 - 9e-16), unit=unit(u1)), dtype=np.float64) - v[0]))
    if not bool(np.all(np.abs(v[0] - v[1]) <= 1e-9 * np.maximum(np.abs(v[0]), np.abs(v[1])) + 4 * sens)):
        return '%r: values at %r %s = %r but at the same points in %s = %r' % (spec, xs, u1, v[0].tolist(), u2, v[1].tolist())
    if len(xs) >= 2 and spec['kind'] not in NUMERIC_INT_KINDS:
        lo, hi = min(xs), max(xs)
        w, err = _try(lambda: (float(np.atleast_1d(prof.get_integral(lo, hi, unit=unit(u1)))[0]),
                               float(np.atleast_1d(prof.get_integral(lo * f12, hi * f12, unit=unit(u2)))[0])),
                      'get_integral of %r with units' % spec)
        if err:
            return err
        fo = float(unit(u1).to(unit(spec['unit'])))
        gi = lambda a_, b_: float(np.atleast_1d(prof.get_integral(a_, b_, unit=unit(u1)))[0])  # noqa
        with np.errstate(all='ignore'):       # conditioning w.r.t. a few-ulp change of each bound
            sens_i = sum(abs(gi(lo * (1 + d1), hi * (1 + d2)) - w[0]) for d1, d2 in ((9e-16, 0), (-9e-16, 0), (0, 9e-16), (0, -9e-16)))
        if not abs(w[0] - w[1]) <= 1e-9 * (abs(w[0]) + abs(w[1])) + pl_noise(spec, [lo * fo, hi * fo] * 2) + 2 * sens_i + 1e-300:
            return '%r: integral over [%r,%r] %s = %r but over the same interval in %s = %r' % (spec, lo, hi, u1, w[0], u2, w[1])
    return None


def o_product(ctx, case):
    """flux = Phi0 x spatial x energy x time (outer product), shape (Ncoord, Nenergy, Ntime)"""
    spec, ra, dec, E, t = case['spec'], case['ra'], case['dec'], case['E'], case['t']
    m, err = _try(lambda: build(spec), 'constructing %r' % spec)
    if err:
        return err
    got, err = _try(lambda: np.asarray(m(ra=np.array(ra), dec=np.array(dec), E=np.array(E), t=np.array(t)), dtype=np.float64), 'calling the flux model %r' % spec)
    if err:
        return err
    S = np.asarray(m.spatial_profile(np.array(ra), np.array(dec)), dtype=np.float64)
    Ev = np.asarray(m.energy_profile(np.array(E)), dtype=np.float64)
    Tv = np.asarray(m.time_profile(np.array(t)), dtype=np.float64)
    want = spec['p']['Phi0'] * np.einsum('i,j,k->ijk', S, Ev, Tv)
    if got.shape != want.shape:
        return 'flux array of %r has shape %r, expected %r' % (spec, got.shape, want.shape)
    if not np.allclose(got, want, rtol=1e-12, atol=0):
        return 'flux of %r is not Phi0 x spatial x energy x time: %r vs %r' % (spec, got.tolist(), want.tolist())
    return None


def _apply_ops(obj, ops):
    for op in ops:
        if op[0] == 'set':
            obj.set_params(dict(op[1]))
        elif op[0] == 'move':
            tp = obj.time_profile if kind_of(obj) == 'ffm' else obj
            if len(op) > 2 and op[2]:
                tp.move(op[1], unit=unit(op[2]))
            else:
                tp.move(op[1])
        elif op[0] == 'copy':
            obj = obj.copy()
        elif op[0] == 'copyset':
            obj = obj.copy(dict(op[1]))
    return obj


def _probe(obj, spec):
    """observable behaviour of a profile / flux model on a fixed probe grid derived from spec"""
    k = kind_of(obj)
    out = {}
    if k == 'ffm':
        out.update({'e.' + n: v for n, v in _probe(obj.energy_profile, spec['e']).items()})
        out.update({'t.' + n: v for n, v in _probe(obj.time_profile, spec['t']).items()})
        out['Phi0'] = [float(obj.Phi0)]
        return out
    if k in E_KINDS:
        E = np.array([3.0, 50.0, 700.0, 2e4])
        out['call'] = np.asarray(obj(E), dtype=np.float64).tolist()
        if k in ('pl', 'unityE'):
            out['int'] = np.atleast_1d(obj.get_integral(E[:-1], E[1:])).astype(float).tolist()
    elif k in T_KINDS:
        ts, te = float(obj.t_start), float(obj.t_stop)
        out['window'] = [ts, te]
        if np.isfinite(ts) and np.isfinite(te):
            c, w = 0.5 * (ts + te), te - ts
        else:
            c, w = 0.0, 1.0
        # probe points relative to the *requested* parameters are supplied by the caller via spec['probe']
        pts = np.array(spec.get('probe', [c - w, c - 0.3 * w, c, c + 0.2 * w, c + w]), dtype=np.float64)
        out['call'] = np.asarray(obj(pts), dtype=np.float64).tolist()
        out['int'] = np.atleast_1d(obj.get_integral(pts[:-1], pts[1:])).astype(float).tolist()
        # (the unity profile's get_total_integral is looked at by the `total` oracle only)
        out['tot'] = [float(obj.get_total_integral())] if np.isfinite(ts) and k != 'unityT' else []
    return out


def _close(a, b, rtol=1e-12, atol=0.0, group=False):
    """relative comparison (no absolute floor: flux-scale values like Phi0 = 1e-18 are compared relative to
    themselves); `group`: the entries share one scale (a time window), `atol`: explicit absolute allowance"""
    a, b = np.asarray(a, dtype=np.float64), np.asarray(b, dtype=np.float64)
    if a.shape != b.shape:
        return False
    scale = np.maximum(np.abs(a), np.abs(b))
    if group and scale.size:
        fin = scale[np.isfinite(scale)]
        scale = np.full(scale.shape, fin.max() if fin.size else 0.0)
    with np.errstate(invalid='ignore'):
        return bool(np.all((np.abs(a - b) <= rtol * scale + atol) | (a == b) | (np.isnan(a) & np.isnan(b))))


def _ctor_names(obj):
    k = kind_of(obj)
    if k == 'ffm':
        return ['Phi0'] + sum((_ctor_names(o) for o in (obj.spatial_profile, obj.energy_profile, obj.time_profile)), [])
    return list(CTOR_PARAMS[k])


def _respec(obj, spec):
    """spec of a fresh object constructed from the values read back through get_param"""
    k = spec['kind']
    if k == 'ffm':
        return {'kind': 'ffm', 'p': {'Phi0': float(obj.get_param('Phi0'))}, 's': _respec(obj.spatial_profile, spec['s']),
                'e': _respec(obj.energy_profile, spec['e']), 't': _respec(obj.time_profile, spec['t'])}
    p = dict(spec.get('p', {}))
    for n in CTOR_PARAMS[k]:
        p[n] = float(obj.get_param(n))
    r = dict(spec)
    r['p'] = p
    return r


def o_update(ctx, case):
    """an object updated through set_params / move / copy is indistinguishable from one constructed
    with the values read back through get_param; values that were set are read back."""
    spec, ops = case['spec'], case['ops']
    obj, err = _try(lambda: build(spec), 'constructing %r' % spec)
    if err:
        return err
    obj, err = _try(lambda: _apply_ops(obj, ops), 'applying %r to %r' % (ops, spec))
    if err:
        return err
    # (1) what was set last is read back
    last = {}
    for op in ops:
        if op[0] in ('set', 'copyset'):
            last.update(dict(op[1]))
        if op[0] == 'move':
            last.pop('t0', None)
    names = _ctor_names(obj)
    for n, v in last.items():
        if n in names:
            got, err = _try(lambda: float(obj.get_param(n)), 'get_param(%r)' % n)
            if err:
                return err
            if not (abs(got - v) <= 1e-9 * max(1.0, abs(v))):
                return 'after %r on %r: get_param(%r) = %r, but %r was set' % (ops, spec, n, got, v)
    # (2) fresh object from the read-back values behaves the same
    rs, err = _try(lambda: _respec(obj, spec), 'reading the parameters back')
    if err:
        return err
    if any(isinstance(v, float) and v != v for v in _flat_params(rs)):
        return 'after %r on %r: a constructor parameter reads back as nan through get_param (%r)' % (ops, spec, rs)
    fresh, err = _try(lambda: build(rs), 'constructing %r' % rs)
    if err:
        return err
    probe_spec = _with_probe(rs)
    a, err = _try(lambda: _probe(obj, probe_spec), 'evaluating the updated object')
    if err:
        return err
    b, err = _try(lambda: _probe(fresh, probe_spec), 'evaluating the fresh object')
    if err:
        return err
    win = [x for k_, v_ in a.items() if k_.endswith('window') for x in v_ if np.isfinite(x)]
    # rounding scale of the stored window: the largest time the window ever sat at during the history (moving a
    # window from an MJD-sized t0 to 0 leaves an absolute error of an ulp of the MJD), not only its final place
    hist_t = [abs(float((spec['t'] if spec['kind'] == 'ffm' else spec).get('p', {}).get('t0', 0.0)))]
    for op in ops:
        if op[0] in ('set', 'copyset'):
            hist_t += [abs(float(v_)) for n_, v_ in op[1] if n_ in ('t0', 't_start', 't_stop')]
        elif op[0] == 'move':
            hist_t.append(abs(float(op[1])) * (ufac(op[2], 'day') or 1.0 if len(op) > 2 and op[2] else 1.0))
    tscale = max([abs(x) for x in win] + [sum(hist_t)])
    for key in a:
        timeish = key.split('.')[-1] in ('window', 'int', 'tot') and (key.startswith('t.') or '.' not in key)
        if not _close(a[key], b[key], rtol=1e-9, atol=1e-12 * tscale if timeish else 0.0, group=key.endswith('window')):
            return ('after %r on %r the object differs from a fresh one constructed with the read-back parameters %r: '
                    '%s = %r vs %r' % (ops, spec, rs, key, a[key], b[key]))
    return None


def _flat_params(spec):
    out = list(spec.get('p', {}).values())
    for s in ('s', 'e', 't'):
        if s in spec:
            out += _flat_params(spec[s])
    return out


def _with_probe(spec):
    """probe points for time profiles derived from the requested parameters (not from the stored window)"""
    spec = _copy.deepcopy(spec)
    tgt = spec['t'] if spec['kind'] == 'ffm' else spec
    p = tgt.get('p', {})
    if tgt['kind'] == 'box':
        c, w = p['t0'], abs(p['tw']) + 1e-9
        tgt['probe'] = [c - w, c - 0.45 * w, c - 0.2 * w, c, c + 0.3 * w, c + 0.55 * w, c + w]
    elif tgt['kind'] == 'gauss':
        c, s = p['t0'], abs(p['sigma_t'])
        tgt['probe'] = [c - 12 * s, c - 5 * s, c - 2.5 * s, c - s, c, c + 0.5 * s, c + 2 * s, c + 4 * s, c + 12 * s]
    elif tgt['kind'] == 'unityT':
        tgt['probe'] = [-3.0, 0.0, 1.5, 10.0]
    return spec


def _deep_snapshot(obj):
    """public state + observable behaviour on a fixed grid (so that state that is only privately
    stored, like the gaussian tol, is still covered through what it does)"""
    k = kind_of(obj)
    if k == 'ffm':
        return [_raw_or_none(obj)] + [_deep_snapshot(o) for o in (obj.spatial_profile, obj.energy_profile, obj.time_profile)]
    beh = []
    if k in T_KINDS:
        ts, te = float(obj.t_start), float(obj.t_stop)
        if np.isfinite(ts) and np.isfinite(te):
            pts = np.array([ts - 1.0, ts, 0.75 * ts + 0.25 * te, 0.5 * (ts + te), te, te + 1.0])
            beh = np.asarray(obj(pts), dtype=np.float64).tolist()
    elif k in ('pl', 'cutoff', 'logpar', 'function'):
        beh = np.asarray(obj(np.array([3.0, 700.0])), dtype=np.float64).tolist()
    return [_raw_or_none(obj), beh]


def o_copy(ctx, case):
    """a copy never shares state with its original"""
    spec, ops = case['spec'], case['ops']
    obj, err = _try(lambda: build(spec), 'constructing %r' % spec)
    if err:
        return err
    snap = _deep_snapshot(obj)
    cp, err = _try(lambda: obj.copy(), 'copy() of %r' % spec)
    if err:
        return err
    if _deep_snapshot(cp) != snap:
        return 'copy() of %r has state %r, the original %r' % (spec, _deep_snapshot(cp), snap)
    if kind_of(obj) == 'ffm':
        for a in ('spatial_profile', 'energy_profile', 'time_profile'):
            if getattr(cp, a) is getattr(obj, a):
                return 'copy() of %r shares its %s with the original' % (spec, a)
    _, err = _try(lambda: _apply_ops(cp, ops), 'applying %r to the copy' % (ops,))
    if err:
        return err
    if _deep_snapshot(obj) != snap:
        return 'after %r on a copy of %r the original changed: %r -> %r' % (ops, spec, snap, _deep_snapshot(obj))
    snap_c = _deep_snapshot(cp)
    _, err = _try(lambda: _apply_ops(obj, ops[::-1]), 'applying %r to the original' % (ops[::-1],))
    if err:
        return err
    if _deep_snapshot(cp) != snap_c:
        return 'after %r on the original %r its copy changed' % (ops[::-1], spec)
    return None


def o_cdf(ctx, case):
    spec, ts = case['spec'], case['ts']
    prof, err = _try(lambda: build(spec), 'constructing %r' % spec)
    if err:
        return err
    got, err = _try(lambda: np.asarray(prof.cdf(np.array(ts, dtype=np.float64)), dtype=np.float64), 'cdf of %r' % spec)
    if err:
        return err
    a = float(prof.t_start)
    tot = quad_time(prof, a, float(prof.t_stop))
    if not (tot > 0) or not np.isfinite(tot):
        return 'the profile values of %r integrate to %r over its support [%r, %r] (cdf undefined)' % (spec, tot, a, float(prof.t_stop))
    for t, g in zip(ts, got):
        want = 0.0 if t <= a else min(1.0, quad_time(prof, a, min(t, float(prof.t_stop))) / tot)
        if not abs(g - want) <= 1e-6:
            return 'cdf(%r) of %r = %r, but the profile values integrate to %r' % (t, spec, float(g), want)
    return None


def o_names(ctx, case):
    """param_names of a flux model lists its own and all profile parameters; set_params reaches each"""
    spec = case['spec']
    m, err = _try(lambda: build(spec), 'constructing %r' % spec)
    if err:
        return err
    names, err = _try(lambda: list(m.param_names), 'param_names of %r' % spec)
    if err:
        return err
    want = _ctor_names(m)
    miss = [n for n in want if n not in names]
    if miss:
        return 'param_names of %r = %r lacks the constructor parameter(s) %r' % (spec, names, miss)
    return None


# units as scales relative to the internal units (the model's representation: u.to(v) = s_u / s_v)
SCALE = {'GeV': 1.0, 'TeV': 1e3, 'PeV': 1e6, 's': 1.0, 'day': 86400.0, 'yr': 31557600.0, 'rad': 1.0, 'deg': math.pi / 180,
         'cm': 1.0, 'm': 100.0, 'km': 1e5}
UNIT_GROUPS = (E_UNITS_ := ['GeV', 'TeV', 'PeV'], T_UNITS_ := ['s', 'day', 'yr'], ['rad', 'deg'], ['cm', 'm', 'km'])


def unit_model_cmp(ctx):
    """ties `unitFactor` (incl. the `unit == own unit` branch) and `toInternalFlux` to astropy / the code"""
    import skyllh.core.flux_model as fm
    lines, wants, descs = [], [], []
    for grp in UNIT_GROUPS:
        for own in grp:
            for arg in [None] + grp:
                lines.append('ufactor %s %s' % (f2b(SCALE[own]), '-' if arg is None else f2b(SCALE[arg])))
                wants.append(ufac(arg, own))
                descs.append('unit factor for an argument in %s of a profile in %s' % (arg, own))
                BR['unitFactor:' + ('none' if arg is None else ('equal' if arg == own else 'convert'))] += 1
    rng = ctx.rng
    models = []
    for _ in range(ctx.n(12, 100)):
        ua, ue, ul, ut = (rng.choice(g) for g in (['rad', 'deg'], UNIT_GROUPS[0], ['cm', 'm', 'km'], UNIT_GROUPS[1]))
        m = fm.FactorizedFluxModel(Phi0=1.0, spatial_profile=fm.UnitySpatialFluxProfile(angle_unit=unit(ua), cfg=cfg()),
                                   energy_profile=fm.UnityEnergyFluxProfile(energy_unit=unit(ue), cfg=cfg()),
                                   time_profile=fm.UnityTimeFluxProfile(time_unit=unit(ut), cfg=cfg()), length_unit=unit(ul), cfg=cfg())
        iu = cfg()['units']['internal']
        ia, ie, il, it = (SCALE[iu[k_].to_string()] for k_ in ('angle', 'energy', 'length', 'time'))
        lines.append('tointernal %s' % ' '.join(f2b(x) for x in (SCALE[ua], SCALE[ue], SCALE[ul], SCALE[ut], ia, ie, il, it)))
        wants.append(_impl(lambda: float(m.to_internal_flux_unit())))
        descs.append('to_internal_flux_unit of a model in (%s, %s, %s, %s)' % (ua, ue, ul, ut))
        ctx.count('internal-unit:%s,%s' % (ua, ul))
    res = []
    for ln, w, d, o in zip(lines, wants, descs, ctx.driver('C13', lines)):
        ctx.case(nontrivial=True, key=ln)
        mv = None if o == '-' else b2f(o)
        ok = (w is None and mv is None) or (w is not None and mv is not None and not isinstance(w, str) and abs(w - mv) <= 1e-13 * abs(w))
        if not ok:
            res.append('%s: implementation %r, model %r' % (d, w, mv))
    return res


def o_internal_unit(ctx, case):
    from skyllh.core.flux_model import FactorizedFluxModel
    spec = case['spec']
    m, err = _try(lambda: build(spec), 'constructing %r' % spec)
    if err:
        return err
    got, err = _try(lambda: float(m.to_internal_flux_unit()), 'to_internal_flux_unit')
    if err:
        return err
    iu = cfg()['units']['internal']
    want = 1.0 / (m.angle_unit.to(iu['angle'])**2 * m.energy_unit.to(iu['energy']) * m.length_unit.to(iu['length'])**2 * m.time_unit.to(iu['time']))
    if not abs(got - want) <= 1e-12 * abs(want):
        return 'to_internal_flux_unit of %r = %r, the product of the unit factors is %r' % (spec, got, want)
    return None


def _relclose(a, b, rtol):
    a, b = np.asarray(a, dtype=np.float64), np.asarray(b, dtype=np.float64)
    return a.shape == b.shape and bool(np.all((a == b) | (np.abs(a - b) <= rtol * np.maximum(np.abs(a), np.abs(b)))))


def o_model_call(ctx, case):
    """FactorizedFluxModel.__call__: unit keyword arguments reach the profiles, None arguments give the
    factor 1, scalars work, and the value is Phi0 x spatial x energy x time of the profiles' own values"""
    spec = case['spec']
    m, err = _try(lambda: build(spec), 'constructing %r' % spec)
    if err:
        return err
    ua, ue, ut = case.get('angle_unit'), case.get('energy_unit'), case.get('time_unit')
    ra, dec, E, t = (np.array(case[k], dtype=np.float64) for k in ('ra', 'dec', 'E', 't'))
    kw = dict(angle_unit=unit(ua), energy_unit=unit(ue), time_unit=unit(ut))
    desc = 'flux model %r' % spec

    def prof_vals():
        S = np.asarray(m.spatial_profile(ra, dec, unit=unit(ua)), dtype=np.float64)
        Ev = np.asarray(m.energy_profile(E, unit=unit(ue)), dtype=np.float64)
        Tv = np.asarray(m.time_profile(t, unit=unit(ut)), dtype=np.float64)
        return S, Ev, Tv
    pv, err = _try(prof_vals, 'evaluating the profiles of %r' % spec)
    if err:
        return err
    S, Ev, Tv = pv
    phi0 = float(m.Phi0)
    one = np.array([1.0])
    for none in case.get('nones', [[]]):
        args = dict(ra=None if 'ang' in none else ra, dec=None if 'ang' in none else dec,
                    E=None if 'E' in none else E, t=None if 't' in none else t)
        got, err = _try(lambda: np.asarray(m(**args, **kw), dtype=np.float64), '%s called with None for %r and units %r' % (desc, none, (ua, ue, ut)))
        if err:
            return err
        want = phi0 * np.einsum('i,j,k->ijk', one if 'ang' in none else S, one if 'E' in none else Ev, one if 't' in none else Tv)
        if got.shape != want.shape or not _relclose(got, want, 1e-12):
            return ('%s called with (ra,dec,E,t)=(%r,%r,%r,%r), None for %r, units %r = %r, but Phi0 x the profile values '
                    '(same units) = %r' % (desc, case['ra'], case['dec'], case['E'], case['t'], none, (ua, ue, ut), got.tolist(), want.tolist()))
    # scalar arguments
    got, err = _try(lambda: np.asarray(m(ra=float(ra[0]), dec=float(dec[0]), E=float(E[0]), t=float(t[0]), **kw), dtype=np.float64), desc + ' called with scalars')
    if err:
        return err
    if got.shape != (1, 1, 1) or not _relclose(got[0, 0, 0], phi0 * S[0] * Ev[0] * Tv[0], 1e-12):
        return '%s called with scalars = %r, expected %r' % (desc, got.tolist(), phi0 * S[0] * Ev[0] * Tv[0])
    # the same energies / times given in another unit
    for which, u1, units_, arr in (('energy_unit', ue, E_UNITS, E), ('time_unit', ut, T_UNITS, t)):
        own = (m.energy_unit if which == 'energy_unit' else m.time_unit).to_string()
        u1n = u1 or own
        for u2 in units_:
            f12 = float(unit(u1n).to(unit(u2)))
            kw2 = dict(kw)
            kw2[which] = unit(u2)
            a2 = dict(ra=ra, dec=dec, E=E, t=t)
            a2['E' if which == 'energy_unit' else 't'] = arr * f12
            g1, err = _try(lambda: np.asarray(m(ra=ra, dec=dec, E=E, t=t, **kw), dtype=np.float64), desc)
            if err:
                return err
            g2, err = _try(lambda: np.asarray(m(**a2, **kw2), dtype=np.float64), desc)
            if err:
                return err
            # conditioning: the converted arguments carry a rounding error of a few ulps (x * f12, then * f21 inside,
            # f12 * f21 != 1 exactly); allow the change of the result under such a perturbation of the argument
            # (narrow gaussians at MJD-sized / 1e9-s-sized times, steep power laws)
            key_ = 'E' if which == 'energy_unit' else 't'
            sens = np.zeros_like(g1)
            with np.errstate(all='ignore'):
                for dlt in (9e-16, -9e-16):
                    ap = dict(ra=ra, dec=dec, E=E, t=t)
                    ap[key_] = arr * (1 + dlt)
                    gp = np.asarray(m(**ap, **kw), dtype=np.float64)
                    sens = np.maximum(sens, np.abs(gp - g1))
            ok_ = (g1 == g2) | (np.abs(g1 - g2) <= 1e-9 * np.maximum(np.abs(g1), np.abs(g2)) + 4 * sens)
            if g1.shape != g2.shape or not bool(np.all(ok_)):
                return '%s: %s=%s at %r gives %r, the same points with %s=%s give %r' % (desc, which, u1n, arr.tolist(), g1.tolist(), which, u2, g2.tolist())
    return None


def o_move_unit(ctx, case):
    """move(dt, unit) = move(dt * unit.to(own unit))"""
    spec, dt, u = case['spec'], case['dt'], case['unit']
    a, err = _try(lambda: build(spec), 'constructing %r' % spec)
    if err:
        return err
    b = build(spec)
    b0 = build(spec)
    f = float(unit(u).to(unit(spec['unit'])))
    _, err = _try(lambda: (a.move(dt, unit=unit(u)), b.move(dt * f)), 'move(%r, unit=%s) of %r' % (dt, u, spec))
    if err:
        return err
    wa, wb = [float(a.t_start), float(a.t_stop)], [float(b.t_start), float(b.t_stop)]
    w0 = [x for x in (float(b0.t_start), float(b0.t_stop)) if np.isfinite(x)]
    if not _close(wa, wb, group=True, atol=4e-16 * (abs(dt * f) + max([abs(x) for x in w0] + [0.0]))):
        return 'move(%r, unit=%s) of %r gives the window %r, move(%r) in the own unit %r' % (dt, u, spec, wa, dt * f, wb)
    return None


def o_copy_api(ctx, case):
    """copy() / copy(newparams) on every kind of object (incl. function-based, unity profiles, point-like
    models): a new object, newparams reach the copy and only the copy, unit setters and the IsPointlike
    ra/dec setters of the copy leave the original alone"""
    spec, pd = case['spec'], dict(case.get('pd', []))
    obj, err = _try(lambda: build(spec), 'constructing %r' % spec)
    if err:
        return err
    k = kind_of(obj)
    snap = _deep_snapshot(obj)
    cp, err = _try(lambda: obj.copy(), 'copy() of %r' % spec)
    if err:
        return err
    if cp is obj:
        return 'copy() of %r returns the object itself' % spec
    if type(cp) is not type(obj) or _deep_snapshot(cp) != snap:
        return 'copy() of %r is a %s with state %r, the original a %s with %r' % (spec, type(cp).__name__, _deep_snapshot(cp), type(obj).__name__, snap)
    if k == 'function' and isinstance(obj.function, PlExp) and cp.function is obj.function:
        return 'copy() of %r shares the callable object of the original' % spec
    # unit setters on the copy
    for attr, alt in (('energy_unit', 'PeV'), ('time_unit', 'yr')):
        if hasattr(cp, attr) and k != 'ffm':
            old = getattr(obj, attr)
            setattr(cp, attr, unit(alt) if old != unit(alt) else unit('GeV' if attr == 'energy_unit' else 's'))
            if getattr(obj, attr) != old:
                return 'setting %s of a copy of %r changed the %s of the original' % (attr, spec, attr)
    if pd:
        obj2 = build(spec)
        snap2 = _deep_snapshot(obj2)
        c2, err = _try(lambda: obj2.copy(dict(pd)), 'copy(%r) of %r' % (pd, spec))
        if err:
            return err
        if _deep_snapshot(obj2) != snap2:
            return 'copy(%r) of %r changed the original: %r -> %r' % (pd, spec, snap2, _deep_snapshot(obj2))
        tscale = 0.0
        tp_ = c2.time_profile if k == 'ffm' else (c2 if k in T_KINDS else None)
        if tp_ is not None and np.isfinite(float(tp_.t_start)) and np.isfinite(float(tp_.t_stop)):
            tscale = abs(float(tp_.t_start)) + abs(float(tp_.t_stop))
        for n, v in pd.items():
            got = float(c2.get_param(n))
            if not _close([got], [v], rtol=1e-9, atol=1e-12 * tscale if n in ('t0', 'tw') else 0.0):
                return 'copy(%r) of %r: the copy has %s = %r' % (pd, spec, n, got)
    if k == 'ffm' and hasattr(obj, 'ra') and spec.get('cls') in ('pffm', 'spffm'):
        ra0 = obj.ra
        c3 = obj.copy()
        _, err = _try(lambda: setattr(c3, 'ra', 2.75), 'setting ra of a copy of %r' % spec)
        if err:
            return err
        if obj.ra != ra0 or obj.spatial_profile.ra != ra0:
            return 'setting ra of a copy of %r changed the original (ra %r -> %r)' % (spec, ra0, obj.ra)
        if c3.ra != 2.75 or c3.spatial_profile.ra != 2.75 or float(c3.get_param('ra')) != 2.75:
            return 'setting ra = 2.75 on a copy of %r: copy.ra = %r, its spatial profile has %r' % (spec, c3.ra, c3.spatial_profile.ra)
    return None


def o_getparam_none(ctx, case):
    """a point-like flux model without position (ra = dec = None, the default): get_param works"""
    import skyllh.core.flux_model as fm
    m, err = _try(lambda: fm.PointlikeFFM(Phi0=case['Phi0'], energy_profile=None, time_profile=None, cfg=cfg()), 'PointlikeFFM(Phi0, None, None)')
    if err:
        return err
    for n in ('Phi0', 'ra', 'dec', 'bogus'):
        v, err = _try(lambda: m.get_param(n), "get_param(%r) of PointlikeFFM(Phi0=%r, None, None) (ra = dec = None)" % (n, case['Phi0']))
        if err:
            return err
        if n == 'Phi0' and v != case['Phi0']:
            return 'get_param(Phi0) = %r' % (v,)
        if n in ('ra', 'dec') and v is not None:
            return 'get_param(%r) of a point-like model without position = %r (the property is None)' % (n, v)
        if n == 'bogus' and not (isinstance(v, float) and v != v):
            return 'get_param(bogus) = %r, not nan' % (v,)
    return None


def o_dict_purity(ctx, case):
    """the parameter dictionary handed to set_params / copy(newparams) belongs to the caller: it is not
    modified, and the same dict object can be applied again — to a second object, to an object and its
    copy, or to the same object after another update (p, q, p) — with the effect of a fresh dict"""
    spec, p_items, q_items = case['spec'], [tuple(x) for x in case['p']], [tuple(x) for x in case.get('q', [])]

    def fresh(items):
        return dict(items)
    try:
        ref = build(spec)
    except Exception as e:  # noqa
        return 'constructing %r raised %s: %s' % (spec, type(e).__name__, e)
    flag_ref = ref.set_params(fresh(p_items))
    want = _deep_snapshot(ref)
    d = fresh(p_items)
    # (1) not modified, (2) second object with the same dict object
    a = build(spec)
    fa = a.set_params(d)
    if list(d.items()) != p_items:
        return '[dict-modified] set_params(%r) on %r changed the dictionary of the caller to %r' % (dict(p_items), spec, d)
    b = build(spec)
    fb = b.set_params(d)
    if _deep_snapshot(b) != want or fb != flag_ref or fa != flag_ref:
        return ('[reuse-wrong-result] the same dict object %r applied to a second %r: state %r (updated=%r), with a fresh dict %r (updated=%r)'
                % (dict(p_items), spec, _deep_snapshot(b), fb, want, flag_ref))
    # (3) an object and its copy updated with the same dict object
    o = build(spec)
    c = o.copy()
    c.set_params(d)
    o.set_params(d)
    if _deep_snapshot(o) != want or _deep_snapshot(c) != want or list(d.items()) != p_items:
        return ('[reuse-wrong-result] a copy and then its original %r updated with the same dict object %r: copy %r, original %r, expected %r'
                % (spec, dict(p_items), _deep_snapshot(c), _deep_snapshot(o), want))
    # (4) copy(newparams) leaves the dict alone and can be repeated
    o2 = build(spec)
    c1 = o2.copy(d)
    c2 = o2.copy(d)
    if list(d.items()) != p_items:
        return '[dict-modified] copy(%r) of %r changed the dictionary of the caller to %r' % (dict(p_items), spec, d)
    if _deep_snapshot(c1) != want or _deep_snapshot(c2) != want:
        return ('[reuse-wrong-result] copy(newparams) of %r twice with the same dict object %r: %r and %r, expected %r'
                % (spec, dict(p_items), _deep_snapshot(c1), _deep_snapshot(c2), want))
    # (5) p, q, p with the same object p
    if q_items:
        r2 = build(spec)
        for items in (p_items, q_items, p_items):
            r2.set_params(fresh(items))
        dq = fresh(q_items)
        x = build(spec)
        x.set_params(d)
        x.set_params(dq)
        x.set_params(d)
        if _deep_snapshot(x) != _deep_snapshot(r2):
            return ('[reuse-wrong-result] set_params(p), set_params(q), set_params(p) on %r with the same dict object p = %r, q = %r: state %r, '
                    'with fresh dicts %r' % (spec, dict(p_items), dict(q_items), _deep_snapshot(x), _deep_snapshot(r2)))
    return None


def o_updated_flag(ctx, case):
    """the return value of set_params: True exactly when the observable state changed (applied twice)"""
    spec, p_items = case['spec'], [tuple(x) for x in case['p']]
    obj, err = _try(lambda: build(spec), 'constructing %r' % spec)
    if err:
        return err
    for rep in (1, 2):
        before = _deep_snapshot(obj)
        flag, err = _try(lambda: obj.set_params(dict(p_items)), 'set_params(%r) on %r' % (dict(p_items), spec))
        if err:
            return err
        changed = _deep_snapshot(obj) != before
        # t0 / tw are derived from the stored window: reading them back is exact only up to rounding, so a
        # re-assignment of the (rounded) same value is reported as an update without a visible change
        derived = any(n in ('t0', 'tw') for n, _v in p_items)
        if (changed and not flag) or (flag and not changed and not derived):
            return ('set_params(%r) on %r (application %d) returned updated=%r but the state %s (%r -> %r)'
                    % (dict(p_items), spec, rep, flag, 'changed' if changed else 'did not change', before, _deep_snapshot(obj)))
    return None


def o_total(ctx, case):
    """get_total_integral() = get_integral(t_start, t_stop) on every time profile (incl. unity)"""
    spec = case['spec']
    prof, err = _try(lambda: build(spec), 'constructing %r' % spec)
    if err:
        return err
    got, err = _try(lambda: float(prof.get_total_integral()), 'get_total_integral() of %r' % spec)
    if err:
        return err
    want = float(np.atleast_1d(prof.get_integral(float(prof.t_start), float(prof.t_stop)))[0])
    if not (got == want or _close([got], [want], rtol=1e-12)):
        return 'get_total_integral() of %r = %r, get_integral(t_start, t_stop) = %r' % (spec, got, want)
    return None


def o_neg_width(ctx, case):
    """a box whose values are all zero integrates to zero"""
    spec, a, b = case['spec'], case['a'], case['b']
    prof, err = _try(lambda: build(spec), 'constructing %r' % spec)
    if err:
        return err
    xs = np.linspace(a, b, 101)
    vals = np.asarray(prof(xs), dtype=np.float64)
    got = float(np.atleast_1d(prof.get_integral(a, b))[0])
    if not np.any(vals != 0) and got != 0:
        return 'all values of %r on [%r, %r] are 0 but get_integral = %r' % (spec, a, b, got)
    return None


def o_rv(ctx, case):
    """skyllh.core.utils.flux_model: the scipy random variable of a time profile follows the profile —
    pdf = value / total integral, cdf = profile cdf — also after set_params on the profile (mode 'stale')"""
    from skyllh.core.utils.flux_model import create_scipy_stats_rv_continuous_from_TimeFluxProfile as mkrv
    spec, ts = case['spec'], np.array(case['ts'], dtype=np.float64)
    prof, err = _try(lambda: build(spec), 'constructing %r' % spec)
    if err:
        return err
    rv, err = _try(lambda: mkrv(prof), 'creating the random variable of %r' % spec)
    if err:
        return err
    pd = dict(case.get('pd', []))
    if pd:
        prof.set_params(pd)
    tot = float(prof.get_total_integral())
    if not np.isfinite(tot) or tot <= 0:
        return None
    try:
        pdf, cdf = np.asarray(rv.pdf(ts), dtype=np.float64), np.asarray(rv.cdf(ts), dtype=np.float64)
    except Exception as e:  # noqa
        return 'pdf/cdf of the random variable of %r raised %s: %s' % (spec, type(e).__name__, e)
    want_pdf = np.asarray(prof(ts), dtype=np.float64) / tot
    want_cdf = np.asarray(prof.cdf(ts), dtype=np.float64)
    what = ' after set_params(%r) on the profile' % pd if pd else ''
    if not np.allclose(pdf, want_pdf, rtol=1e-9, atol=1e-300):
        return 'random variable of %r%s: pdf(%r) = %r, profile value / total integral = %r' % (spec, what, ts.tolist(), pdf.tolist(), want_pdf.tolist())
    if not np.allclose(cdf, want_cdf, rtol=1e-9, atol=1e-12):
        return 'random variable of %r%s: cdf(%r) = %r, profile cdf = %r' % (spec, what, ts.tolist(), cdf.tolist(), want_cdf.tolist())
    return None


# ------------------------------------------------------------------------------------------
# purity layer: every public call leaves the caller's arrays alone, gives the same values for every
# way of passing the same numbers (views of one array, read-only, int / float32, 0-d, Python scalars)
# and the same values when repeated with the same argument objects

class _Tag(Exception):
    pass


def _base(a):
    while isinstance(a, np.ndarray) and a.base is not None and isinstance(a.base, np.ndarray):
        a = a.base
    return a


def _snap(args):
    return [(_base(a).tobytes(), _base(a).dtype.str) for a in args if isinstance(a, np.ndarray)]


def _same(a, b, rtol, atol=0.0):
    a, b = np.atleast_1d(np.asarray(a, dtype=np.float64)), np.atleast_1d(np.asarray(b, dtype=np.float64))
    if a.shape != b.shape:
        return False
    with np.errstate(invalid='ignore'):
        return bool(np.all((a == b) | (np.abs(a - b) <= rtol * np.maximum(np.abs(a), np.abs(b)) + atol) | (np.isnan(a) & np.isnan(b))))


def _invoke(obj, method, args, u):
    """one public call; args = tuple of positional array-likes"""
    if method == 'call':
        return np.asarray(obj(*args, unit=u))
    if method == 'int':
        return np.atleast_1d(obj.get_integral(*args, unit=u))
    if method == 'cdf':
        return np.asarray(obj.cdf(*args, unit=u))
    raise ValueError(method)


def _pure_call(obj, method, args, u, what):
    """call, check that no argument buffer was written; -> result"""
    before = _snap(args)
    try:
        r = _invoke(obj, method, args, u)
    except Exception as e:  # noqa
        raise _Tag('raises', '%s raised %s: %s' % (what, type(e).__name__, e))
    if _snap(args) != before:
        raise _Tag('writes-into-argument', '%s wrote into an array of the caller (argument buffers before/after differ)' % what)
    return r


def o_purity(ctx, case):
    spec, method, au = case['spec'], case['method'], case.get('arg_unit')
    cols = [list(c) for c in case['cols']]          # one list per positional argument, equal lengths
    edges = case.get('edges')                       # for method 'int': cols = (edges[:-1], edges[1:])
    u = unit(au)
    obj, err = _try(lambda: build(spec), 'constructing %r' % spec)
    if err:
        return err
    kind = spec['kind']
    desc = '%s of %r (unit=%s)' % ({'call': '__call__', 'int': 'get_integral', 'cdf': 'cdf'}[method], spec, au)
    rt = 1e-8 if (method == 'int' and kind in NUMERIC_INT_KINDS) else 1e-12
    try:
        fresh = lambda dt=np.float64: tuple(np.array(c, dtype=dt) for c in cols)  # noqa
        ref = _pure_call(obj, method, fresh(), u, desc + ' with fresh float64 arrays')
        n = len(cols[0])
        # (3) identical call repeated with the same argument objects
        a = fresh()
        r1 = _pure_call(obj, method, a, u, desc)
        r2 = _pure_call(obj, method, a, u, desc + ' (repeated with the same argument objects)')
        if not (_same(r1, ref, rt) and _same(r2, r1, 0.0 if rt == 1e-12 else rt)):
            raise _Tag('not-repeatable', '%s at %r: first call %r, identical second call %r, fresh arrays %r' % (desc, cols, np.asarray(r1).tolist(), np.asarray(r2).tolist(), np.asarray(ref).tolist()))
        # (2a) views of one array (bin edges)
        if edges is not None:
            e = np.array(edges, dtype=np.float64)
            r = _pure_call(obj, method, (e[:-1], e[1:]), u, desc + ' with the views edges[:-1], edges[1:] of one array')
            if not _same(r, ref, rt):
                raise _Tag('views-wrong-result', '%s with the two views edges[:-1], edges[1:] of %r = %r, with separate arrays %r' % (desc, edges, np.asarray(r).tolist(), np.asarray(ref).tolist()))
        else:
            big = np.array(sum((c + [0.0] for c in cols), []), dtype=np.float64)
            views = tuple(big[i * (n + 1): i * (n + 1) + n] for i in range(len(cols)))
            r = _pure_call(obj, method, views, u, desc + ' with views of one array')
            if not _same(r, ref, rt):
                raise _Tag('views-wrong-result', '%s with views of one array = %r, fresh arrays %r' % (desc, np.asarray(r).tolist(), np.asarray(ref).tolist()))
        # (2b) read-only arrays
        ro = fresh()
        for x in ro:
            x.setflags(write=False)
        r = _pure_call(obj, method, ro, u, desc + ' with read-only arrays')
        if not _same(r, ref, rt):
            raise _Tag('readonly-wrong-result', '%s with read-only arrays = %r, writable %r' % (desc, np.asarray(r).tolist(), np.asarray(ref).tolist()))
        # (2b') Python lists / tuples, non-contiguous (strided) arrays, 0-length arrays
        # (unity / gaussian time get_integral are documented for floats / arrays only: plain arithmetic on the
        # arguments, no atleast_1d — lists are not part of their interface)
        if not (kind in ('unityT', 'gauss') and method in ('int', 'cdf')):
            for nm, mk in (('lists', list), ('tuples', tuple)):
                r = _pure_call(obj, method, tuple(mk(c) for c in cols), u, desc + ' with Python %s' % nm)
                if not _same(r, ref, rt):
                    raise _Tag('list-wrong-result', '%s with Python %s = %r, arrays %r' % (desc, nm, np.asarray(r).tolist(), np.asarray(ref).tolist()))
        strided = []
        for c in cols:
            buf = np.full(2 * len(c) + 1, -7.25)
            buf[::2][:len(c)] = c
            strided.append(buf[0:2 * len(c):2])
        r = _pure_call(obj, method, tuple(strided), u, desc + ' with non-contiguous arrays')
        if not _same(r, ref, rt):
            raise _Tag('strided-wrong-result', '%s with non-contiguous arrays = %r, contiguous %r' % (desc, np.asarray(r).tolist(), np.asarray(ref).tolist()))
        r = _pure_call(obj, method, tuple(np.array([], dtype=np.float64) for _c in cols), u, desc + ' with 0-length arrays')
        if np.asarray(r).size != 0:
            raise _Tag('empty-wrong-result', '%s with 0-length arrays returns %r' % (desc, np.asarray(r).tolist()))
        # (2b'') the returned array is the caller's: no alias of an argument, no live view of internal state
        a2 = fresh()
        r = _pure_call(obj, method, a2, u, desc)
        if isinstance(r, np.ndarray):
            if any(np.shares_memory(r, x) for x in a2):
                raise _Tag('result-aliases-argument', '%s returns an array that shares memory with an argument' % desc)
            keep = np.array(r, copy=True)
            if r.flags.writeable and r.size:
                r[...] = 123 if r.dtype.kind in 'iu' else 12345.678
                r3 = _pure_call(obj, method, a2, u, desc)
                if not _same(r3, keep, rt):
                    raise _Tag('result-live-view', '%s: writing into the returned array changed the next result (%r -> %r)' % (desc, keep.tolist(), np.asarray(r3).tolist()))
        # (2c) 0-d arrays and Python scalars, element by element
        for i in range(n):
            z = tuple(np.array(c[i], dtype=np.float64) for c in cols)
            r = _pure_call(obj, method, z, u, desc + ' with 0-d arrays')
            if not _same(np.ravel(r), np.ravel(ref)[i:i + 1], rt):
                raise _Tag('0d-wrong-result', '%s with 0-d arrays %r = %r, element of the array call %r' % (desc, [c[i] for c in cols], np.ravel(r).tolist(), np.ravel(ref)[i]))
            r = _pure_call(obj, method, tuple(float(c[i]) for c in cols), u, desc + ' with Python floats')
            if not _same(np.ravel(r), np.ravel(ref)[i:i + 1], rt):
                raise _Tag('scalar-wrong-result', '%s with Python floats %r = %r, element of the array call %r' % (desc, [c[i] for c in cols], np.ravel(r).tolist(), np.ravel(ref)[i]))
        # (2d) integer arrays (same numbers) and float32 arrays
        if case.get('icols'):
            icols = [list(c) for c in case['icols']]
            want = _pure_call(obj, method, tuple(np.array(c, dtype=np.float64) for c in icols), u, desc)
            got = _pure_call(obj, method, tuple(np.array(c, dtype=np.int64) for c in icols), u, desc + ' with int64 arrays')
            if not _same(got, want, rt):
                raise _Tag('int-wrong-result', '%s with the int64 array(s) %r = %r, with the same numbers as float64 %r' % (desc, icols, np.asarray(got).tolist(), np.asarray(want).tolist()))
            got = _pure_call(obj, method, tuple(int(c[0]) for c in icols), u, desc + ' with Python ints')
            if not _same(np.ravel(got), np.ravel(want)[:1], rt):
                raise _Tag('int-wrong-result', '%s with the Python int(s) %r = %r, with the same numbers as float %r' % (desc, [c[0] for c in icols], np.ravel(got).tolist(), np.ravel(want)[0]))
        f32 = fresh(np.float32)
        want = _pure_call(obj, method, tuple(x.astype(np.float64) for x in f32), u, desc)
        got = _pure_call(obj, method, f32, u, desc + ' with float32 arrays')
        if np.shape(got) != np.shape(want):
            raise _Tag('float32-wrong-result', '%s with float32 arrays has shape %r, float64 %r' % (desc, np.shape(got), np.shape(want)))
        fu = (ufac(au, spec.get('unit')) or 1.0) if spec.get('unit') else 1.0
        # single-precision cancellation of the power-law closed form: ~1e-6 of the subtracted terms
        noise32 = pl_noise(spec, [x * fu for c in cols for x in c], ulps=1e10) if method == 'int' else 0.0
        # only where the values are inside the float32 range (under-/overflow is single-precision arithmetic)
        w_ = np.ravel(np.asarray(want, dtype=np.float64))
        g_ = np.ravel(np.asarray(got, dtype=np.float64))
        ok_ = (np.abs(w_) > 1e-30) & (np.abs(w_) < 1e30)
        # quad cannot reach its 1e-10 tolerance on a single-precision integrand: 1e-3 for the numerical integrals
        rt32 = 1e-3 if (method == 'int' and kind in NUMERIC_INT_KINDS) else 1e-4
        if kind in E_KINDS and not _same(g_[ok_], w_[ok_], rt32, noise32):
            # single-precision arithmetic is accepted, a different number is not (times: MJD-sized
            # values are not representable in float32, only shape / purity are checked there)
            raise _Tag('float32-wrong-result', '%s with float32 arrays = %r, with the same numbers as float64 %r' % (desc, np.asarray(got).tolist(), np.asarray(want).tolist()))
    except _Tag as t:
        return '[%s] %s' % (t.args[0], t.args[1])
    return None


def o_purity_model(ctx, case):
    """FluxModel.__call__ / to_internal_flux_unit / get_total_integral: no writes, repeatable, views"""
    spec = case['spec']
    m, err = _try(lambda: build(spec), 'constructing %r' % spec)
    if err:
        return err
    import astropy.units as au_
    kw_units = dict(angle_unit=unit(case.get('angle_unit')), energy_unit=unit(case.get('energy_unit')), time_unit=unit(case.get('time_unit')))
    desc = 'flux model %r called with units %r' % (spec, {k: case.get(k) for k in ('angle_unit', 'energy_unit', 'time_unit')})
    try:
        def call(ra, dec, E, t, what):
            args = (ra, dec, E, t)
            before = _snap(args)
            try:
                r = np.asarray(m(ra=ra, dec=dec, E=E, t=t, **kw_units), dtype=np.float64)
            except Exception as e:  # noqa
                raise _Tag('raises', '%s (%s) raised %s: %s' % (desc, what, type(e).__name__, e))
            if _snap(args) != before:
                raise _Tag('writes-into-argument', '%s (%s) wrote into an array of the caller' % (desc, what))
            return r
        mk = lambda k: np.array(case[k], dtype=np.float64)  # noqa
        ref = call(mk('ra'), mk('dec'), mk('E'), mk('t'), 'fresh arrays')
        a = (mk('ra'), mk('dec'), mk('E'), mk('t'))
        r1 = call(*a, 'first call')
        r2 = call(*a, 'repeated call')
        if not (_same(r1, ref, 1e-12) and _same(r2, r1, 0.0)):
            raise _Tag('not-repeatable', '%s: first call %r, identical second call %r' % (desc, r1.tolist(), r2.tolist()))
        n = len(case['E'])
        big = np.array(list(case['E']) + list(case['t']) + list(case['ra']) + list(case['dec']), dtype=np.float64)
        nt, nr = len(case['t']), len(case['ra'])
        r = call(big[n + nt:n + nt + nr], big[n + nt + nr:], big[:n], big[n:n + nt], 'views of one array')
        if not _same(r, ref, 1e-12):
            raise _Tag('views-wrong-result', '%s with views of one array = %r, fresh arrays %r' % (desc, r.tolist(), ref.tolist()))
        ro = (mk('ra'), mk('dec'), mk('E'), mk('t'))
        for x in ro:
            x.setflags(write=False)
        r = call(*ro, 'read-only arrays')
        if not _same(r, ref, 1e-12):
            raise _Tag('readonly-wrong-result', '%s with read-only arrays = %r, writable %r' % (desc, r.tolist(), ref.tolist()))
        for f in ('to_internal_flux_unit',):
            v1, v2 = getattr(m, f)(), getattr(m, f)()
            if v1 != v2:
                raise _Tag('not-repeatable', '%s() of %r: %r then %r' % (f, spec, v1, v2))
        tp = m.time_profile
        if np.isfinite(float(tp.t_start)):
            v1, v2 = float(tp.get_total_integral()), float(tp.get_total_integral())
            w = float(np.atleast_1d(tp.get_integral(float(tp.t_start), float(tp.t_stop)))[0])
            if v1 != v2 or not _same([v1], [w], 1e-12):
                raise _Tag('not-repeatable', 'get_total_integral() of %r: %r then %r, get_integral(t_start, t_stop) %r' % (spec['t'], v1, v2, w))
    except _Tag as t:
        return '[%s] %s' % (t.args[0], t.args[1])
    return None


# ------------------------------------------------------------------------------------------
# correspondence: request line + implementation value per case

N_SIMPSON = 1000


def _ut(f):
    return '-' if f is None else f2b(f)


def _impl(fn):
    try:
        v = fn()
        return v
    except Exception as e:  # noqa
        return 'EXC:' + type(e).__name__


def corr_numeric(case):
    """-> (request line, implementation value(s) or 'EXC:..', tolerance spec)"""
    k, spec = case['op'], case['spec']
    p, own = spec.get('p', {}), spec.get('unit')
    f = ufac(case.get('arg_unit'), own)
    au = unit(case.get('arg_unit'))
    kind = spec['kind']
    if k == 'call':
        x = case['x']
        impl = _impl(lambda: float(np.asarray(build(spec)(x, unit=au))[0]))
        if kind == 'pl':
            return 'plcall %s %s %s %s' % (f2b(p['E0']), f2b(p['gamma']), f2b(x), _ut(f)), impl
        if kind == 'cutoff':
            return 'cocall %s %s %s %s %s' % (f2b(p['E0']), f2b(p['gamma']), f2b(p['Ecut']), f2b(x), _ut(f)), impl
        if kind == 'logpar':
            return 'lpcall %s %s %s %s %s' % (f2b(p['E0']), f2b(p['alpha']), f2b(p['beta']), f2b(x), _ut(f)), impl
    if k == 'int':
        x1, x2 = case['x1'], case['x2']
        impl = _impl(lambda: float(np.atleast_1d(build(spec).get_integral(x1, x2, unit=au))[0]))
        if kind == 'pl':
            return 'plint %s %s %s %s %s %d' % (f2b(p['E0']), f2b(p['gamma']), f2b(x1), f2b(x2), _ut(f), N_SIMPSON), impl
        if kind == 'cutoff':
            return 'coint %s %s %s %s %s %s %d' % (f2b(p['E0']), f2b(p['gamma']), f2b(p['Ecut']), f2b(x1), f2b(x2), _ut(f), N_SIMPSON), impl
        if kind == 'logpar':
            return 'lpint %s %s %s %s %s %s %d' % (f2b(p['E0']), f2b(p['alpha']), f2b(p['beta']), f2b(x1), f2b(x2), _ut(f), N_SIMPSON), impl
    raise ValueError((k, kind))


def _rel_ok(a, b, rtol):
    if isinstance(a, str) or isinstance(b, str):
        return a == b
    if a != a or b != b:
        return (a != a) and (b != b)
    return a == b or abs(a - b) <= rtol * max(abs(a), abs(b))


def cmp_numeric(case, impl, model):
    k, kind = case['op'], case['spec']['kind']
    if k == 'call':
        m = b2f(model)
        return None if _rel_ok(impl, m, 1e-11) else 'call: implementation %r, model %r' % (impl, m)
    if kind == 'pl':
        parts = dict(x.split(':') for x in model.split(' '))
        closed, quad = b2f(parts['closed']), b2f(parts['quad'])
        fu = ufac(case.get('arg_unit'), case['spec'].get('unit')) or 1.0
        noise = pl_noise(case['spec'], [case['x1'] * fu, case['x2'] * fu])
        if not (_rel_ok(impl, closed, 1e-9) or (not isinstance(impl, str) and abs(impl - closed) <= noise)):
            return 'get_integral: implementation %r, closed-form model %r' % (impl, closed)
        # model closed form vs model Simpson sum: same cancellation allowance; the class 0 < |gamma-1| < 1e-8
        # (float cancellation of the closed form) is the open finding and is searched by `integral_quad`
        interior = 0 < case['x1'] < float('inf') and 0 < case['x2'] < float('inf')
        if interior and not near1(case['spec']) and not (_rel_ok(closed, quad, 1e-6) or abs(closed - quad) <= noise):
            return 'closed-form model %r differs from the numerical integral of the model profile %r' % (closed, quad)
        return None
    m = b2f(model)
    return None if _rel_ok(impl, m, 1e-6) else 'get_integral: implementation %r, numerical integral of the model profile %r' % (impl, m)


# -- time profiles (two driver phases for the gaussian: erf arguments, then values)

def time_state(spec):
    """(implementation object or 'EXC', stored window etc.)"""
    return _impl(lambda: build(spec))


def corr_time_lines(case, prof, erf_tab=None):
    k, kind = case['op'], case['spec']['kind']
    f = ufac(case.get('arg_unit'), case['spec'].get('unit'))
    cv = (lambda x: x) if f is None else (lambda x: x * f)
    s, e = float(prof.t_start), float(prof.t_stop)
    if kind == 'box':
        if k == 'call':
            return 'boxcall %s %s %s' % (f2b(s), f2b(e), f2b(cv(case['x'])))
        if k == 'int':
            return 'boxint %s %s %s %s' % (f2b(s), f2b(e), f2b(cv(case['x1'])), f2b(cv(case['x2'])))
        if k == 'cdf':
            return 'boxcdf %s %s %s' % (f2b(s), f2b(e), f2b(cv(case['x'])))
    if kind == 'gauss':
        sg = float(prof.sigma_t)
        if k == 'call':
            return 'gcall %s %s %s %s' % (f2b(s), f2b(e), f2b(sg), f2b(cv(case['x'])))
        if erf_tab is None:
            a, b = (case['x1'], case['x2']) if k == 'int' else (case['x'], case['x'])
            return 'gargs %s %s %s %s %s' % (f2b(s), f2b(e), f2b(sg), f2b(cv(a)), f2b(cv(b)))
        xs, ys = erf_tab
        if k == 'int':
            return 'gint %s %s %s %s %s %s %s' % (f2b(s), f2b(e), f2b(sg), f2b(cv(case['x1'])), f2b(cv(case['x2'])), flist(xs), flist(ys))
        if k == 'cdf':
            return 'gcdf %s %s %s %s %s %s' % (f2b(s), f2b(e), f2b(sg), f2b(cv(case['x'])), flist(xs), flist(ys))
    raise ValueError((k, kind))


def impl_time(case, prof):
    k = case['op']
    au = unit(case.get('arg_unit'))
    if k == 'call':
        return _impl(lambda: float(np.asarray(prof(case['x'], unit=au))[0]))
    if k == 'int':
        return _impl(lambda: float(np.atleast_1d(prof.get_integral(case['x1'], case['x2'], unit=au))[0]))
    if k == 'cdf':
        return _impl(lambda: float(np.asarray(prof.cdf(case['x'], unit=au))[0]))


def cmp_time(case, impl, model, scale):
    m = b2f(model)
    if isinstance(impl, str):
        return 'implementation %s, model %r' % (impl, m)
    if case['op'] == 'call' and case['spec']['kind'] == 'box':
        return None if impl == m else 'box value: implementation %r, model %r' % (impl, m)
    if impl == m or abs(impl - m) <= 1e-9 * max(scale, abs(impl), abs(m)):
        return None
    return '%s: implementation %r, model %r' % (case['op'], impl, m)


def _count_time_branches(c, p):
    f = ufac(c.get('arg_unit'), c['spec'].get('unit'))
    BR['conv:' + ('none' if f is None else 'some')] += 1
    cv = (lambda x: x) if f is None else (lambda x: x * f)
    s_, e_ = float(p.t_start), float(p.t_stop)
    k, op = c['spec']['kind'], c['op']
    reg = lambda x: 'below' if x < s_ else ('above' if x > e_ else 'inside')  # noqa
    if k == 'box':
        if op == 'call':
            BR['boxCall:' + ('inside' if s_ <= cv(c['x']) <= e_ else 'outside')] += 1
        elif op == 'int':
            a, b = cv(c['x1']), cv(c['x2'])
            if s_ <= b and a <= e_:
                BR['boxIntegral:overlap'] += 1
                BR['boxIntegral:t1-' + ('clipped' if a < s_ else 'inside')] += 1
                BR['boxIntegral:t2-' + ('clipped' if b > e_ else 'inside')] += 1
            else:
                BR['boxIntegral:no-overlap'] += 1
        else:
            x = cv(c['x'])
            BR['boxCdf:' + ('inside' if s_ <= x <= e_ else ('after' if x > e_ else 'before'))] += 1
    elif k == 'gauss':
        if op == 'call':
            BR['gaussCall:' + ('inside' if s_ <= cv(c['x']) < e_ else 'outside')] += 1
        elif op == 'int':
            BR['clip:' + reg(cv(c['x1']))] += 1
            BR['clip:' + reg(cv(c['x2']))] += 1
        else:
            x = cv(c['x'])
            BR['gaussCdf:' + ('inside' if s_ <= x <= e_ else ('after' if x > e_ else 'before'))] += 1


def run_time_cases(ctx, cases):
    """-> list of (case, impl, model, diff-or-None)"""
    from scipy.special import erf
    profs = [time_state(c['spec']) for c in cases]
    res = [None] * len(cases)
    live = [i for i, p in enumerate(profs) if not isinstance(p, str)]
    for i, p in enumerate(profs):
        if isinstance(p, str):
            res[i] = (cases[i], p, None, 'constructing %r: %s' % (cases[i]['spec'], p))
    need = [i for i in live if cases[i]['spec']['kind'] == 'gauss' and cases[i]['op'] != 'call']
    args = ctx.driver('C13', [corr_time_lines(cases[i], profs[i]) for i in need])
    tabs = {}
    for i, a in zip(need, args):
        xs = parse_flist(a)
        tabs[i] = (xs, [float(erf(x)) for x in xs])
    lines = [corr_time_lines(cases[i], profs[i], tabs.get(i, ((), ()))) for i in live]
    outs = ctx.driver('C13', lines)
    for i, o in zip(live, outs):
        c, p = cases[i], profs[i]
        impl = impl_time(c, p)
        _count_time_branches(c, p)
        if c['op'] == 'cdf':
            scale = 1.0
        elif c['spec']['kind'] == 'gauss':
            scale = abs(float(p.sigma_t)) * 2.6
        else:
            scale = abs(float(p.t_start)) + abs(float(p.t_stop))
            scale = scale * 1e-6 if np.isfinite(scale) else 1.0
        d = cmp_time(c, impl, o, scale)
        f_ = ufac(c.get('arg_unit'), c['spec'].get('unit'))
        if d and c['op'] == 'call' and c['spec']['kind'] == 'box' and f_ is not None:
            # a 0/1 decision at a support edge for a point given in another unit depends on how the conversion
            # is written (x * f vs x / f_inv): not a property-level difference within a few ulps of the edge
            x_ = c['x'] * f_
            if min(abs(x_ - float(p.t_start)), abs(x_ - float(p.t_stop))) <= 4 * np.spacing(abs(x_)):
                SKIPPED['skipped:box-edge-in-other-unit'] += 1
                d = None
        res[i] = (c, impl, o, d)
    return res


# -- histories on the heap

def _count_set_branches(obj, pd_tags):
    """pd_tags: name -> ('num', value) | ('bad',) | ('arr',); classify each loop iteration of set_params"""
    k = kind_of(obj)
    reached = [obj] + ([obj.spatial_profile, obj.energy_profile, obj.time_profile] if k == 'ffm' else [])
    err = False
    for o in reached:
        own_names = ['Phi0'] if kind_of(o) == 'ffm' else list(o.param_names)
        if err:
            BR['setParamsV:model-stops-delegation'] += 1
            break
        for n in own_names:
            if err:
                BR['setOneV:after-error'] += 1
                continue
            t = pd_tags.get(n)
            if t is None:
                BR['setOne:not-in-dict'] += 1
            elif t[0] == 'num':
                try:
                    cur = float(o.get_param(n))
                except Exception:  # noqa
                    cur = None
                BR['setOne:' + ('unchanged' if cur == t[1] else 'changed')] += 1
                BR['setOneV:num'] += 1 if t[-1] == 'v' else 0
            else:
                BR['setOneV:' + t[0]] += 1
                err = True


class _Opaque:
    """an object that cannot be cast to float"""


def history_lines(hist):
    """run one history on real objects; -> (request lines, implementation answers, strict flags)"""
    lines, impl, strict = ['reset'], ['ok'], [True]
    objs, kinds = [], []

    def add(o):
        objs.append(o)
        kinds.append(kind_of(o))

    def new_profile(spec):
        o = build(spec)
        k, p = spec['kind'], spec.get('p', {})
        if k == 'gauss':
            tol = p.get('tol')
            xs = [p['t0'], p['sigma_t'], 1e-12 if tol is None else tol]
        elif k == 'unityT':
            xs = []
        elif k == 'function':
            xs = [p['g'], p['Ec']]
        else:
            xs = [p[n] for n in CTOR_PARAMS[k]]
        lines.append('new %s %s' % (k, flist(xs)))
        impl.append(str(len(objs)))
        strict.append(True)
        add(o)
        return o

    spec = hist['spec']
    if spec['kind'] == 'ffm':
        import skyllh.core.flux_model as fm
        subs = [new_profile(spec[s]) for s in ('s', 'e', 't')]
        m = fm.FactorizedFluxModel(Phi0=spec['p']['Phi0'], spatial_profile=subs[0], energy_profile=subs[1], time_profile=subs[2], cfg=cfg())
        lines.append('newffm %s 0,1,2' % f2b(spec['p']['Phi0']))
        impl.append('3')
        strict.append(True)
        add(m)
        if spec.get('shared'):
            m2 = fm.FactorizedFluxModel(Phi0=spec['shared']['Phi0'], spatial_profile=subs[0], energy_profile=subs[1], time_profile=subs[2], cfg=cfg())
            lines.append('newffm %s 0,1,2' % f2b(spec['shared']['Phi0']))
            impl.append('4')
            strict.append(True)
            add(m2)
    else:
        new_profile(spec)

    def observe():
        for j, o in enumerate(objs):
            lines.append('view %d' % j)
            k = kinds[j]
            tgt = [o] + ([o.spatial_profile, o.energy_profile, o.time_profile] if k == 'ffm' else [])
            impl.append(('VIEW', [(kind_of(t), _raw_or_none(t)) for t in tgt]))
            strict.append(True)
            names = _ctor_names(o) + ['bogus']
            for n in names:
                lines.append('get %d %s' % (j, n))
                BR['getParam:' + ('none' if n == 'bogus' else ('own' if (k != 'ffm' or n == 'Phi0') else 'profile'))] += 1
                try:
                    v = float(o.get_param(n))
                    impl.append(('VAL', v))
                except Exception as e:  # noqa
                    impl.append('EXC:' + type(e).__name__)
                strict.append(True)
            if k == 'ffm' or CTOR_PARAMS.get(k):
                lines.append('names %d' % j)
                try:
                    impl.append(','.join(o.param_names) or '-')
                except Exception as e:  # noqa
                    impl.append('EXC:' + type(e).__name__)
                strict.append(True)

    observe()
    dicts, contents = [], []

    def dict_intact():
        return all(list(d_.items()) == c_ for d_, c_ in zip(dicts, contents))

    for op in hist['ops']:
        i = op[1]
        if op[0] in ('set', 'setref'):
            if op[0] == 'set':
                pd = dict((n, v) for n, v in op[2])
                dicts.append(pd)
                contents.append(list(pd.items()))
                pd_content = pd
            else:
                pd = dicts[op[2]]                       # the same dict OBJECT as before
                pd_content = dict(contents[op[2]])      # what the caller put into it
            # the `updated` flag is compared strictly only when no derived parameter is (nearly) re-set
            st = True
            for n, v in pd_content.items():
                try:
                    cur = float(objs[i].get_param(n))
                    if cur == cur and cur != v and abs(cur - v) <= 1e-6 * max(1.0, abs(v)):
                        st = False
                except Exception:  # noqa
                    pass
            _count_set_branches(objs[i], {n: ('num', v) for n, v in pd_content.items()})
            lines.append('set %d %s' % (i, ','.join('%s=%s' % (n, f2b(v)) for n, v in pd_content.items()) or '-'))
            ans = _impl(lambda: '1' if objs[i].set_params(pd) else '0')
            impl.append(ans if dict_intact() else 'DICT-MODIFIED')
            strict.append(st)
        elif op[0] == 'setv':
            pdv, toks = {}, []
            for n, tag, v in op[2]:
                if tag == 'bad':
                    pdv[n] = ['abc', _Opaque(), None][len(n) % 3] if n not in ('ra', 'dec') else 'abc'
                    toks.append('%s=BAD' % n)
                elif tag == 'arr':
                    pdv[n] = np.array([1.0, 2.0])
                    toks.append('%s=ARR' % n)
                else:
                    pdv[n] = {'int': lambda x: int(x), 'np64': np.float64, 'zd': lambda x: np.array(x, dtype=np.float64)}.get(tag, float)(v)
                    toks.append('%s=%s' % (n, f2b(v)))
            _count_set_branches(objs[i], {n: (tag,) if tag in ('bad', 'arr') else ('num', v, 'v') for n, tag, v in op[2]})
            lines.append('setv %d %s' % (i, ','.join(toks) or '-'))
            impl.append(_impl(lambda: '1' if objs[i].set_params(pdv) else '0'))
            strict.append(True)
        elif op[0] == 'move':
            mu = op[3] if len(op) > 3 else None
            BR['move:' + (kinds[i] if kinds[i] in T_KINDS else 'no-such-method')] += 1
            BR['moveU:' + ('none' if ufac(mu, 'day') is None else 'some')] += 1
            lines.append('moveu %d %s %s' % (i, f2b(op[2]), _ut(ufac(mu, 'day'))))
            ans = _impl(lambda: (objs[i].move(op[2], unit=unit(mu)), 'ok')[1])
            impl.append('ERR' if ans == 'EXC:AttributeError' and kinds[i] not in T_KINDS else ans)
            strict.append(True)
        elif op[0] in ('copy', 'copyset'):
            BR[('copy:' if op[0] == 'copy' else 'copySet:') + ('ffm' if kinds[i] == 'ffm' else 'profile')] += 1
            if op[0] == 'copy':
                lines.append('copy %d' % i)
            else:
                lines.append('copyset %d %s' % (i, ','.join('%s=%s' % (n, f2b(v)) for n, v in op[2]) or '-'))
            try:
                if op[0] == 'copy':
                    c = objs[i].copy()
                else:
                    pdo = dict((n, v) for n, v in op[2])
                    dicts.append(pdo)
                    contents.append(list(pdo.items()))
                    c = objs[i].copy(pdo)
                if kinds[i] == 'ffm':
                    for sub in (c.spatial_profile, c.energy_profile, c.time_profile):
                        add(sub)
                add(c)
                impl.append(str(len(objs) - 1) if dict_intact() else 'DICT-MODIFIED')
            except Exception as e:  # noqa
                impl.append('EXC:' + type(e).__name__)
            strict.append(True)
        observe()
    return lines, impl, strict, objs


def _raw_or_none(o):
    try:
        return raw_state(o)
    except _NoPublicAttr:
        return None


def _parse_cell(s):
    if ':' not in s:
        return s, [], None
    parts = s.split(':')
    if parts[0] == 'ffm':
        return 'ffm', [b2f(parts[1])], parts[2]
    return parts[0], parse_flist(parts[1]), None


import collections as _collections
SKIPPED = _collections.Counter()


def cmp_history(lines, impl, strict, models, objs):
    for ln, im, st, mo in zip(lines, impl, strict, models):
        if isinstance(im, tuple) and im[0] == 'VIEW':
            tgt = im[1]
            cells = [_parse_cell(x) for x in mo.split(';')]
            if len(cells) != len(tgt):
                return '%s: model sees %d objects, implementation %d' % (ln, len(cells), len(tgt))
            for (ck, vals, _), (tk, rs) in zip(cells, tgt):
                if ck != tk:
                    return '%s: model cell %s, implementation object %s' % (ln, ck, tk)
                if rs is None:          # not observable through the public API: skip, never alarm
                    SKIPPED['skipped:private-attr'] += 1
                    continue
                nwin = 2 if tk in ('box', 'gauss', 'unityT') else 0
                if not (_close(rs[:nwin], vals[:nwin], group=True) and _close(rs[nwin:], vals[nwin:len(rs)])):
                    return '%s: stored state of %s: implementation %r, model %r' % (ln, tk, rs, vals)
        elif isinstance(im, tuple) and im[0] == 'VAL':
            v = im[1]
            if mo == 'none':
                if v == v:
                    return '%s: implementation %r, model: no such parameter' % (ln, v)
            else:
                m = b2f(mo)
                if not _close([v], [m]):
                    return '%s: implementation %r, model %r' % (ln, v, m)
        else:
            if im != mo and (st or str(im).startswith('EXC') or str(im).startswith('DICT')):
                return '%s: implementation %s, model %s' % (ln, im, mo)
    return None


def o_corr(ctx, case):
    """model/implementation agreement on one recorded case (replay)"""
    t = case['type']
    if t == 'numeric':
        req, impl = corr_numeric(case)
        return cmp_numeric(case, impl, ctx.driver('C13', [req])[0])
    if t == 'time':
        return run_time_cases(ctx, [case])[0][3]
    if t == 'history':
        lines, impl, strict, objs = history_lines(case)
        return cmp_history(lines, impl, strict, ctx.driver('C13', lines), objs)
    if t == 'outer':
        return _outer_cmp(ctx, [case])[0][1]
    if t == 'units':
        r = unit_model_cmp(ctx)
        return r[0] if r else None
    if t == 'gnew':
        g_ = case['spec']
        o = ctx.driver('C13', ['gnew %s %s %s' % (f2b(g_['p']['t0']), f2b(g_['p']['sigma_t']), f2b(1e-12 if g_['p']['tol'] is None else g_['p']['tol']))])[0]
        with np.errstate(all='ignore'):
            pr = build(g_)
            w = [float(pr.t_start), float(pr.t_stop)]
        if o == 'none':
            return None if not (w[0] < w[1]) else 'gaussian constructor outside its domain builds the window %r' % (w,)
        return None if _close(w, parse_flist(o)[:2], group=True) else 'gaussian constructor: implementation window %r, model %r' % (w, parse_flist(o)[:2])
    if t == 'rv':
        from harness import c13_r7_fixtures as r7
        import sys as _sys
        sus = []
        r7.run_rv_cases(ctx, _sys.modules[__name__], _coll.Counter(), sus, cases=[case])
        return sus[0][3] if sus else None
    if t == 'model_call':
        for _c, d in _model_call_cmp(ctx, [case]):
            if d:
                return d
        return None
    raise ValueError(t)


def _outer_cmp(ctx, cases):
    lines, impls = [], []
    for c in cases:
        m = build(c['spec'])
        ra, dec, E, t = (np.array(c[k], dtype=np.float64) for k in ('ra', 'dec', 'E', 't'))
        S = np.asarray(m.spatial_profile(ra, dec), dtype=np.float64)
        Ev = np.asarray(m.energy_profile(E), dtype=np.float64)
        Tv = np.asarray(m.time_profile(t), dtype=np.float64)
        lines.append('outer %s %s %s %s' % (f2b(c['spec']['p']['Phi0']), flist(S), flist(Ev), flist(Tv)))
        impls.append(_impl(lambda: np.asarray(m(ra=ra, dec=dec, E=E, t=t), dtype=np.float64).ravel().tolist()))
    outs = ctx.driver('C13', lines)
    res = []
    for c, i, o in zip(cases, impls, outs):
        mv = parse_flist(o)
        d = None
        if isinstance(i, str) or len(i) != len(mv) or not _close(i, mv, 1e-12):
            d = 'flux array: implementation %r, model outer product %r' % (i, mv)
        res.append((c, d))
    return res


def _cell_line(spec):
    k, p = spec['kind'], spec.get('p', {})
    if k == 'gauss':
        xs = [p['t0'], p['sigma_t'], 1e-12 if p.get('tol') is None else p['tol']]
    elif k in ('unityT', 'unityS', 'unityE'):
        xs = []
    elif k == 'function':
        xs = [p['g'], p['Ec']]
    else:
        xs = [p[n] for n in CTOR_PARAMS[k]]
    return 'new %s %s' % (k, flist(xs))


def _model_call_cmp(ctx, cases):
    """FactorizedFluxModel.__call__ (units, None arguments) vs Heap.call of the model"""
    lines, metas = [], []
    for c in cases:
        spec = c['spec']
        try:
            m = build(spec)
        except Exception:  # noqa  (reported by the model_call oracle)
            continue
        fa = None if c.get('angle_unit') in (None, 'rad') else float(unit(c['angle_unit']).to(unit('rad')))
        fe, ft = ufac(c.get('energy_unit'), spec['e'].get('unit')), ufac(c.get('time_unit'), spec['t'].get('unit'))
        lines += ['reset', _cell_line(spec['s']), _cell_line(spec['e']), _cell_line(spec['t']), 'newffm %s 0,1,2' % f2b(spec['p']['Phi0'])]
        metas += [None] * 5
        kw = dict(angle_unit=unit(c.get('angle_unit')), energy_unit=unit(c.get('energy_unit')), time_unit=unit(c.get('time_unit')))
        BR['evalS:' + ('unityS' if spec['s']['kind'] == 'unityS' else 'point-hit')] += 1
        if spec['s']['kind'] == 'point':
            BR['evalS:point-miss'] += 1         # the argument lists contain the position and another point
        BR['evalE:' + {'function': 'func'}.get(spec['e']['kind'], spec['e']['kind'])] += 1
        BR['evalT:' + spec['t']['kind']] += 1
        for none in c.get('nones', [[]]):
            for g_ in none:
                BR['call:none-' + g_] += 1
            if not none:
                BR['call:all-given'] += 1
            a = {k_: np.array(c[k_], dtype=np.float64) for k_ in ('ra', 'dec', 'E', 't')}
            tok = lambda k_, grp: 'N' if grp in none else flist(a[k_])  # noqa
            lines.append('call 3 %s %s %s %s %s %s %s' % (tok('ra', 'ang'), tok('dec', 'ang'), tok('E', 'E'), tok('t', 't'), _ut(fa), _ut(fe), _ut(ft)))
            args = dict(ra=None if 'ang' in none else a['ra'], dec=None if 'ang' in none else a['dec'],
                        E=None if 'E' in none else a['E'], t=None if 't' in none else a['t'])
            metas.append((c, none, _impl(lambda: np.asarray(m(**args, **kw), dtype=np.float64).ravel().tolist())))
    outs = ctx.driver('C13', lines)
    res = []
    for meta, o in zip(metas, outs):
        if meta is None:
            continue
        c, none, impl = meta
        d = None
        if o == 'ERR' or isinstance(impl, str):
            d = 'flux model call (None for %r): implementation %r, model %r' % (none, impl, o)
        else:
            mv = parse_flist(o)
            if len(mv) != len(impl) or not _relclose(impl, mv, 1e-11):
                d = 'flux model call (None for %r, units %r): implementation %r, model %r' % (
                    none, (c.get('angle_unit'), c.get('energy_unit'), c.get('time_unit')), impl, mv)
        res.append((c, d))
    return res


ORACLES = {'integral_quad': o_integral_quad, 'additive': o_additive, 'units': o_units, 'product': o_product,
           'update': o_update, 'copy': o_copy, 'cdf': o_cdf, 'names': o_names, 'internal_unit': o_internal_unit,
           'corr': o_corr, 'purity': o_purity, 'purity_model': o_purity_model, 'model_call': o_model_call,
           'move_unit': o_move_unit, 'copy_api': o_copy_api, 'total': o_total, 'neg_width': o_neg_width, 'rv': o_rv,
           'getparam_none': o_getparam_none, 'dict_purity': o_dict_purity, 'updated_flag': o_updated_flag}


# ------------------------------------------------------------------------------------------
# generators

E_UNITS = ['GeV', 'TeV', 'PeV']
T_UNITS = ['s', 'day', 'yr']


def lg(rng, a, b):
    return 10 ** rng.uniform(a, b)


def gen_gamma(rng):
    r = rng.random()
    if r < 0.15:
        return 1.0, 'gamma=1'
    if r < 0.30:
        return 1.0 + rng.choice([-1, 1]) * 10.0 ** (-rng.choice([2, 3, 4, 5, 6])), 'gamma~1(>=1e-6)'
    if r < 0.40:
        return 1.0 + rng.choice([-1, 1]) * 10.0 ** (-rng.choice([9, 10, 11, 12, 13, 14, 15])), 'gamma~1(<1e-8)'
    if r < 0.47:
        return rng.choice([0.0, -1.0, -0.5, 0.5]), 'gamma<=0.5 (hard / rising)'
    return round(rng.uniform(0.2, 4.0), rng.choice([1, 2, 12])), 'gamma generic'


def gen_energy_spec(rng, kind=None, own=None):
    kind = kind or rng.choice(['pl', 'pl', 'cutoff', 'logpar', 'function'])
    own = own or rng.choice(E_UNITS + ['GeV', 'GeV'])
    sc = {'GeV': 1.0, 'TeV': 1e-3, 'PeV': 1e-6}[own]      # parameters are given in the own unit
    E0 = lg(rng, 0, 5) * sc
    cls = kind
    if kind == 'pl':
        g, cls = gen_gamma(rng)
        p = {'E0': E0, 'gamma': g}
    elif kind == 'cutoff':
        p = {'E0': E0, 'gamma': round(rng.uniform(0.2, 4.0), 3), 'Ecut': lg(rng, 3, 7) * sc}
    elif kind == 'logpar':
        p = {'E0': E0, 'alpha': round(rng.uniform(0.5, 3.5), 3), 'beta': round(rng.uniform(-0.2, 1.0), 3)}
    elif kind == 'function':
        p = {'g': round(rng.uniform(0.5, 3.5), 2), 'Ec': lg(rng, 3, 7) * sc}
    elif kind == 'epeak':
        # the class integrates with a 50-point trapezoid in log10(E): compared at 1e-2 (its own numerical method)
        p = {'g': round(rng.uniform(0.5, 3.0), 2), 'Ec': lg(rng, 3, 7) * sc, 'e_peak_orig': round(rng.uniform(2.5, 4.0), 2),
             'e_peak': round(rng.uniform(2.5, 4.0), 2)}
    else:
        p = {}
    return {'kind': kind, 'p': p, 'unit': own}, cls


def gen_energy_interval(rng, spec):
    sc = {'GeV': 1.0, 'TeV': 1e-3, 'PeV': 1e-6}[spec['unit']]
    E1 = lg(rng, 0, 6)
    cut = spec['p'].get('Ecut', spec['p'].get('Ec'))
    if cut is not None:
        E1 = min(E1, 10 * cut / sc)
    E2 = E1 * lg(rng, 0.01, 3)
    if cut is not None:
        E2 = min(E2, max(30 * cut / sc, E1 * 1.5))
    if spec['kind'] == 'epeak' and rng.random() < 0.85:
        # mostly intervals the 50-node trapezoid of the class resolves (around / below the shifted cut-off);
        # the remaining ones exercise the tail, where only "no exception" is checked (see epeak_rtol)
        ceff = cut / (10.0 ** (spec['p']['e_peak_orig'] - spec['p']['e_peak'])) / sc
        E1 = min(E1, ceff)
        E2 = min(max(E2, E1 * 1.2), max(2.0 * ceff, E1 * 1.5), E1 * 30.0)
    return E1 * sc, E2 * sc


def gen_time_spec(rng, kind=None, own=None):
    kind = kind or rng.choice(['unityT', 'box', 'box', 'gauss', 'gauss'])
    own = own or rng.choice(T_UNITS + ['day', 'day'])
    t0 = rng.choice([0.0, 5.0, -3.25, 58430.0, rng.uniform(-100, 100), rng.uniform(5e4, 6e4)])
    if kind == 'box':
        p = {'t0': t0, 'tw': rng.choice([2.0, 0.5, lg(rng, -3, 3)])}
    elif kind == 'gauss':
        p = {'t0': t0, 'sigma_t': rng.choice([1.0, 0.25, lg(rng, -3, 2)]), 'tol': rng.choice([None, None, 1e-12, 1e-6, 1e-3, 0.1, 0.5])}
    else:
        p = {}
    return {'kind': kind, 'p': p, 'unit': own}


def time_points(rng, spec):
    """points inside, at the edges of, and outside the support"""
    k, p = spec['kind'], spec['p']
    if k == 'unityT':
        return sorted(rng.uniform(-1e3, 1e3) for _ in range(4))
    if k == 'box':
        c, h = p['t0'], p['tw'] / 2
        pts = [c - 3 * h, c - h * 1.5, c - h, c - h / 2, c, c + h / 3, c + h, c + 2 * h, c + 5 * h]
    else:
        tol = 1e-12 if p['tol'] is None else p['tol']
        c, s = p['t0'], p['sigma_t']
        h = math.sqrt(-2 * s * s * math.log(tol))
        pts = [c - 2 * h - s, c - h - s, c - h, c - h / 2, c - s, c, c + s / 2, c + h * 0.9, c + h, c + h + 2 * s, c + 3 * h]
    pts += [c + rng.uniform(-2, 2) * h for _ in range(3)]
    return sorted(set(float(x) for x in pts))


def new_value(rng, name, old):
    if name in ('E0', 'Ecut'):
        return float(old * lg(rng, -0.5, 0.5)) if rng.random() < 0.8 else old
    if name in ('gamma', 'alpha'):
        return rng.choice([1.0, 2.0, round(rng.uniform(0.3, 3.9), 3), old])
    if name == 'beta':
        return round(rng.uniform(-0.2, 1.0), 3)
    if name == 't0':
        return rng.choice([old + rng.uniform(-10, 10), 0.0, 58000.5, old])
    if name in ('tw', 'sigma_t'):
        return rng.choice([float(old * lg(rng, -1, 1)), 1.0, 3.0, old])
    if name == 'Phi0':
        return rng.choice([1.0, 2.5e-12, float(lg(rng, -15, 0)), old])
    if name in ('ra', 'dec'):
        return rng.uniform(0, 1.5)
    if name == 'e_peak':
        return round(rng.uniform(2.5, 4.0), 3)
    if name == 't_start':
        return rng.choice([-10.0, rng.uniform(-100, 0)])
    if name == 't_stop':
        return rng.choice([10.0, rng.uniform(0.5, 100)])
    return rng.uniform(0.5, 2)


def gen_history(rng, max_len=4):
    """object + sequence of set_params / move / copy (<= max_len) addressed to heap indices"""
    subs = {}            # heap index of a flux model -> indices of its spatial, energy, time profile
    if rng.random() < 0.55:
        es, _ = gen_energy_spec(rng, kind=rng.choice(['pl', 'pl', 'cutoff', 'cutoff', 'logpar', 'logpar', 'function']), own='GeV')
        ts = gen_time_spec(rng, own='day')
        ss = rng.choice([{'kind': 'unityS'}, {'kind': 'point', 'p': {'ra': 1.25, 'dec': 0.5}}])
        spec = {'kind': 'ffm', 'p': {'Phi0': rng.choice([1.0, 3.5e-13, 2.0, 2.5e-18])}, 's': ss, 'e': es, 't': ts}
        objs = [ss, es, ts, spec]
        subs[3] = (0, 1, 2)
        if rng.random() < 0.2:      # a second model over the SAME profile objects
            spec['shared'] = {'Phi0': 7.5e-12}
            objs.append({'kind': 'ffm', 'p': {'Phi0': 7.5e-12}})
            subs[4] = (0, 1, 2)
    else:
        r0 = rng.random()
        if r0 < 0.45:
            spec, _ = gen_energy_spec(rng, kind=rng.choice(['pl', 'cutoff', 'logpar']), own='GeV')
        elif r0 < 0.55:
            spec, _ = gen_energy_spec(rng, kind='function', own='GeV')
        else:
            spec = gen_time_spec(rng, kind=rng.choice(['box', 'gauss', 'gauss', 'unityT']), own='day')
        objs = [spec]
    # bookkeeping of the current parameter values per heap object (for new values relative to old)
    cur = [dict(o.get('p', {})) for o in objs]
    kinds = [o['kind'] for o in objs]
    ops = []
    dict_ops = []          # (kind of the target, content) of every dict-creating operation, in order
    for _ in range(rng.randrange(1, max_len + 1)):
        r = rng.random()
        i = rng.randrange(len(kinds))
        if r < 0.6 and dict_ops and rng.random() < 0.35:
            # the SAME dict object of an earlier set_params / copy(newparams) is applied again: to the same
            # object (p, q, p), to a copy, or to another object of the same class
            kd = rng.randrange(len(dict_ops))
            tgt_kind, content = dict_ops[kd]
            cands = [j for j, k_ in enumerate(kinds) if k_ == tgt_kind]
            i2 = rng.choice(cands)
            reach = subs[i2] + (i2,) if kinds[i2] == 'ffm' else (i2,)
            for n, v in content:
                for j in reach:
                    if n in CTOR_PARAMS.get(kinds[j], []) or (n == 'Phi0' and kinds[j] == 'ffm'):
                        cur[j][n] = v
            ops.append(['setref', i2, kd])
            continue
        if r < 0.6:
            # set_params on a flux model reaches all its profiles
            if kinds[i] == 'ffm':
                # the sub-objects of object i are the three before it
                pool = [(j, n) for j in subs[i] + (i,) for n in CTOR_PARAMS.get(kinds[j], []) + (['Phi0'] if kinds[j] == 'ffm' else [])]
            else:
                pool = [(i, n) for n in CTOR_PARAMS[kinds[i]]]
            if not pool:
                continue
            pick = rng.sample(pool, rng.randrange(1, min(3, len(pool)) + 1))
            pd = []
            for j, n in pick:
                v = float(new_value(rng, n, cur[j].get(n, 1.0)))
                cur[j][n] = v
                pd.append([n, v])
            if rng.random() < 0.15:
                pd.append(['bogus', 1.0])
            if rng.random() < 0.25:
                # arbitrary Python values: other numeric types, nan, not castable, array-valued (error paths)
                tagged = []
                for n, v in pd:
                    tag = rng.choice(['int', 'np64', 'zd', 'num', 'num', 'bad', 'arr', 'nan'] if n != 'bogus' else ['bad', 'arr', 'num'])
                    if tag == 'int':
                        v = float(round(v)) if abs(v) < 1e15 and round(v) != 0 else 3.0
                        for j in subs.get(i, ()) + (i,):
                            if n in cur[j] or n == 'Phi0':
                                cur[j][n] = v
                    tagged.append([n, tag, float('nan') if tag == 'nan' else v])
                ops.append(['setv', i, tagged])
                continue
            ops.append(['set', i, pd])
            dict_ops.append((kinds[i], pd))
        elif r < 0.8:
            tp = [j for j, k in enumerate(kinds) if k in T_KINDS]
            if rng.random() < 0.06:      # an object without `move` (Python: AttributeError, model: none)
                tp = [j for j, k in enumerate(kinds) if k not in T_KINDS and k != 'ffm'] or tp
            if not tp:
                continue
            j = rng.choice(tp)
            dt = rng.choice([1.0, -2.5, rng.uniform(-50, 50)])
            mu = rng.choice([None, None] + T_UNITS)       # move(dt, unit); the histories' own time unit is day
            fmu = ufac(mu, 'day') or 1.0
            if 't0' in cur[j]:
                cur[j]['t0'] += dt * fmu
            ops.append(['move', j, dt, mu])
        else:
            if kinds[i] == 'ffm':
                for j in subs[i]:
                    kinds.append(kinds[j])
                    cur.append(dict(cur[j]))
            kinds.append(kinds[i])
            cur.append(dict(cur[i]))
            jn = len(kinds) - 1
            if kinds[i] == 'ffm':
                subs[jn] = (jn - 3, jn - 2, jn - 1)
            if rng.random() < 0.4:          # copy(newparams)
                if kinds[i] == 'ffm':
                    pool = [(j, n) for j in subs[jn] + (jn,) for n in CTOR_PARAMS.get(kinds[j], []) + (['Phi0'] if kinds[j] == 'ffm' else [])]
                else:
                    pool = [(jn, n) for n in CTOR_PARAMS[kinds[i]]]
                pd = []
                for j, n in (rng.sample(pool, min(2, len(pool))) if pool else []):
                    if n in ('t_start', 't_stop') and n not in cur[j]:
                        cur[j][n] = -1.0 if n == 't_start' else 1.0
                    v = float(new_value(rng, n, cur[j].get(n, 1.0)))
                    cur[j][n] = v
                    pd.append([n, v])
                ops.append(['copyset', i, pd])
                dict_ops.append((kinds[i], pd))
            else:
                ops.append(['copy', i])
    return {'type': 'history', 'spec': spec, 'ops': ops}


def history_to_oracle_ops(h):
    """ops addressed to the root object only (for the update / copy oracles)"""
    root = 3 if h['spec']['kind'] == 'ffm' else 0
    out = []
    dcont = [op[2] for op in h['ops'] if op[0] in ('set', 'copyset')]
    for op in h['ops']:
        if op[0] == 'setv':
            if any(tag in ('bad', 'arr', 'nan') for _n, tag, _v in op[2]):
                break          # a raising / nan update: the oracles below are about regular updates
            if op[1] == root:
                out.append(['set', [[n, v] for n, _t, v in op[2]]])
        elif op[0] == 'setref' and op[1] == root:
            out.append(['set', [p for p in dcont[op[2]]]])
        elif op[0] == 'set' and op[1] == root:
            out.append(['set', [p for p in op[2]]])
        elif op[0] == 'move' and ((op[1] == root and h['spec']['kind'] in T_KINDS) or (root == 3 and op[1] == 2)):
            out.append(['move', op[2], op[3] if len(op) > 3 else None])
        elif op[0] == 'copy' and op[1] == root:
            out.append(['copy'])
        elif op[0] == 'copyset' and op[1] == root:
            out.append(['copyset', [p_ for p_ in op[2]]])
    return out


# ------------------------------------------------------------------------------------------

def _label(name, oc):
    if name == 'rv' and oc.get('pd'):
        return 'rv:stale'
    return name + (':' + oc['method'] if 'method' in oc else '')


def _sig(oracle, spec, res):
    import re
    k = spec.get('kind')
    if near1(spec):
        k = 'pl[0<|gamma-1|<1e-8]'
    if k == 'gauss' and spec['p'].get('tol') is not None:
        k = 'gauss[tol]'
    if k == 'ffm':
        k = '%s[%s,%s]' % (spec.get('cls', 'ffm'), spec['e']['kind'], spec['t']['kind'])
    m = re.search(r'raised (\w+)', res)
    mode = 'raises-' + m.group(1) if m else 'wrong-result'
    t = re.match(r'\[([\w-]+)\]', res)
    if t and t.group(1) != 'raises':
        mode = t.group(1)
        if mode.startswith('int-') and k == 'gauss[tol]':
            k = 'gauss'
    return 'C13/%s/%s/%s' % (oracle, k, mode)


def run(ctx):
    rng = ctx.rng
    ctx.rule = ('energy profiles: power law (gamma generic, = 1, 1 +- 1e-2..1e-6, 1 +- 1e-9..1e-15), cut-off, log-parabola, '
                'function-based; time profiles: unity, box, gaussian (default and explicit tol); intervals inside / across / '
                'outside the support; own and argument units from {GeV,TeV,PeV} x {s,day,yr}; factorized flux models; '
                'histories of set_params / move / copy of length <= 4 on profiles and flux models; a case is non-trivial '
                'when distinct by (kind, parameters, arguments / operations)')
    ctx.trusted_base += ['correspondence harness harness/props/c13.py (tolerances: values 1e-11, closed forms 1e-9, numeric '
                         'integrals 1e-6 relative)', 'astropy unit factors (unit.to) as plain numbers', 'scipy.special.erf values '
                         'passed to the model (the theorems assume only d/dx erf = 2/sqrt(pi) exp(-x^2))',
                         'scipy.integrate.quad in the generic get_integral (compared with Simpson/Gauss-Legendre sums)',
                         'IEEE rounding is outside the theorems (statements over the reals)']
    ctx.assumptions += ['energies and reference energies are positive; integration bounds ordered (lower <= upper)',
                        'sigma_t != 0, 0 < tol < 1 (model: gaussNewChecked = none outside; compared), t_start <= t_stop (tw >= 0; tw < 0 is a recorded finding)',
                        'parameter values are floats, not nan / None / arrays (float_cast and the != test of set_params are not modelled)',
                        'astropy unit equality `unit != self._unit` is represented as "no factor"; u.to(v) is a plain factor s_u/s_v',
                        'integration bounds t1 <= t2 (the test-suite pins the behaviour of the box for reversed bounds)']

    numeric, time_cases, outer_cases, histories, oracle_cases, model_calls = [], [], [], [], [], []

    # ---- energy profiles
    for _ in range(ctx.n(70, 1500)):
        spec, cls = gen_energy_spec(rng, kind=rng.choice(['pl', 'pl', 'pl', 'cutoff', 'cutoff', 'logpar', 'logpar', 'function', 'function', 'unityE', 'epeak']))
        ctx.count('energy:' + cls)
        E1, E2 = gen_energy_interval(rng, spec)
        # bounds on the boundary of the energy support: E1 = 0 for hard spectra, E2 = inf for soft ones, zero length
        idx = spec['p'].get('gamma', spec['p'].get('g'))
        rb = rng.random()
        bclass = 'interior'
        if spec['kind'] in ('pl', 'cutoff', 'function', 'unityE') and rb < 0.12 and (idx is None or idx < 0.95):
            E1, bclass = 0.0, 'E1=0'
        elif spec['kind'] == 'pl' and rb < 0.20 and idx > 1.05:
            E2, bclass = float('inf'), 'E2=inf'
        elif rb < 0.24:
            E2, bclass = E1, 'E1=E2'
        ctx.count('energy-bounds:' + bclass)
        au = rng.choice([None, None] + E_UNITS)
        f = ufac(au, spec['unit'])
        a1, a2 = (E1, E2) if f is None else (E1 / f, E2 / f)
        ctx.count('arg_unit:%s->%s' % (au, spec['unit']))
        if spec['kind'] not in ('function', 'unityE', 'epeak'):
            numeric.append({'type': 'numeric', 'op': 'call', 'spec': spec, 'x': a1, 'arg_unit': au})
            if bclass in ('interior', 'E1=E2') or spec['kind'] == 'pl':      # (the model has no closed form for the others)
                numeric.append({'type': 'numeric', 'op': 'int', 'spec': spec, 'x1': a1, 'x2': a2, 'arg_unit': au})
        oracle_cases.append(('integral_quad', dict({'spec': spec, 'x1': a1, 'x2': a2, 'arg_unit': au}, **({'rtol': 1e-2} if spec['kind'] == 'epeak' else {}))))
        mid = math.sqrt(E1 * E2) if bclass in ('interior', 'E1=E2') else (E2 / 3.0 if bclass == 'E1=0' else E1 * 10.0)
        oracle_cases.append(('additive', {'spec': spec, 'a': E1, 'b': mid, 'c': E2}))
        u1, u2 = rng.choice(E_UNITS), rng.choice(E_UNITS)
        g1 = float(unit(spec['unit']).to(unit(u1)))
        oracle_cases.append(('units', {'spec': spec, 'xs': [E1 * g1, mid * g1, E2 * g1], 'u1': u1, 'u2': u2}))

    # a fixed grid around gamma = 1 in every run (the branch condition of the closed form)
    for dg in (1e-3, -1e-3, 1e-4, -1e-5, 1e-6, 0.0):
        spec = {'kind': 'pl', 'p': {'E0': float(lg(rng, 0, 3)), 'gamma': 1.0 + dg}, 'unit': 'GeV'}
        E1 = spec['p']['E0'] * lg(rng, -1, 1)
        E2 = E1 * lg(rng, 1, 3)
        ctx.count('energy:gamma-grid')
        numeric.append({'type': 'numeric', 'op': 'int', 'spec': spec, 'x1': E1, 'x2': E2, 'arg_unit': None})
        oracle_cases.append(('integral_quad', {'spec': spec, 'x1': E1, 'x2': E2, 'arg_unit': None}))

    # the boundary of the energy support in every run: E1 = 0 for gamma < 1, E2 = inf for gamma > 1, divergent classes
    for g_, b1, b2 in ((0.5, 0.0, 1e3), (0.0, 0.0, 50.0), (-1.0, 0.0, 7.5), (0.9, 0.0, 1e5), (2.0, 10.0, float('inf')),
                       (3.5, 1e3, float('inf')), (2.0, 0.0, 10.0), (0.5, 1.0, float('inf')), (1.0, 5.0, 5.0)):
        spec = {'kind': 'pl', 'p': {'E0': float(lg(rng, 0, 3)), 'gamma': g_}, 'unit': rng.choice(E_UNITS)}
        ctx.count('energy:boundary-grid')
        numeric.append({'type': 'numeric', 'op': 'int', 'spec': spec, 'x1': b1, 'x2': b2, 'arg_unit': None})
        convergent = (b1 > 0 or g_ < 1) and (np.isfinite(b2) or g_ > 1)
        if convergent:
            oracle_cases.append(('integral_quad', {'spec': spec, 'x1': b1, 'x2': b2, 'arg_unit': None}))
            if b1 != b2:
                oracle_cases.append(('additive', {'spec': spec, 'a': b1, 'b': (b2 / 3 if np.isfinite(b2) else b1 * 10), 'c': b2}))

    # ---- time profiles
    for _ in range(ctx.n(60, 1200)):
        spec = gen_time_spec(rng)
        ctx.count('time:' + spec['kind'] + ('' if spec['kind'] != 'gauss' else (':tol=default' if spec['p']['tol'] is None else ':tol=explicit')))
        pts = time_points(rng, spec)
        au = rng.choice([None, None] + T_UNITS)
        f = ufac(au, spec['unit'])
        cvt = (lambda x: x) if f is None else (lambda x: x / f)
        for _ in range(3):
            i = rng.randrange(len(pts))
            j = rng.randrange(i, len(pts))
            if spec['kind'] != 'unityT':
                time_cases.append({'type': 'time', 'op': 'int', 'spec': spec, 'x1': cvt(pts[i]), 'x2': cvt(pts[j]), 'arg_unit': au})
                time_cases.append({'type': 'time', 'op': 'call', 'spec': spec, 'x': cvt(pts[i]), 'arg_unit': au})
                time_cases.append({'type': 'time', 'op': 'cdf', 'spec': spec, 'x': cvt(pts[j]), 'arg_unit': au})
                time_cases.append({'type': 'time', 'op': 'cdf', 'spec': spec, 'x': cvt(pts[0] if i % 2 else pts[-1]), 'arg_unit': au})
            oracle_cases.append(('integral_quad', {'spec': spec, 'x1': cvt(pts[i]), 'x2': cvt(pts[j]), 'arg_unit': au}))
            ctx.count('interval:' + _interval_class(spec, pts[i], pts[j]))
        if spec['kind'] != 'unityT':
            # the boundary of the time axis: integration bounds and evaluation points at -inf / +inf, zero-length interval
            ninf, pinf = float('-inf'), float('inf')
            lo_, hi_ = rng.choice([ninf, pts[0], pts[len(pts) // 2]]), rng.choice([pinf, pts[-1], pts[len(pts) // 2]])
            for x1_, x2_ in ((ninf, hi_), (lo_, pinf), (ninf, pinf), (pts[len(pts) // 2], pts[len(pts) // 2])):
                time_cases.append({'type': 'time', 'op': 'int', 'spec': spec, 'x1': x1_, 'x2': x2_, 'arg_unit': au})
                oracle_cases.append(('integral_quad', {'spec': spec, 'x1': x1_, 'x2': x2_, 'arg_unit': au}))
            oracle_cases.append(('additive', {'spec': spec, 'a': ninf, 'b': pts[len(pts) // 2], 'c': pinf}))
            for x_ in (ninf, pinf):
                time_cases.append({'type': 'time', 'op': 'call', 'spec': spec, 'x': x_, 'arg_unit': au})
                time_cases.append({'type': 'time', 'op': 'cdf', 'spec': spec, 'x': x_, 'arg_unit': au})
            ctx.count('time-bounds:infinite')
        i, j, k = sorted(rng.sample(range(len(pts)), 3))
        oracle_cases.append(('additive', {'spec': spec, 'a': pts[i], 'b': pts[j], 'c': pts[k]}))
        u1, u2 = rng.choice(T_UNITS), rng.choice(T_UNITS)
        g1 = float(unit(spec['unit']).to(unit(u1)))
        # points strictly between the special points (a value at a support edge is a jump: not unit-stable in floats)
        mids = [0.5 * (x + y) for x, y in zip(pts, pts[1:]) if y - x > 1e-6 * (abs(x) + abs(y) + 1e-3)]
        oracle_cases.append(('units', {'spec': spec, 'xs': sorted(rng.sample(mids, min(3, len(mids)))) if len(mids) >= 2 else [pts[0] - 1.0, pts[0] - 0.5],
                                       'u1': u1, 'u2': u2, 'g1': g1}))
        if spec['kind'] != 'unityT':
            oracle_cases.append(('cdf', {'spec': spec, 'ts': [pts[i], pts[j], pts[k]]}))
            oracle_cases.append(('rv', {'spec': spec, 'ts': mids[:6]}))
        oracle_cases.append(('total', {'spec': spec}))
        oracle_cases.append(('move_unit', {'spec': spec, 'dt': rng.choice([1.0, -2.5, rng.uniform(-20, 20)]), 'unit': rng.choice(T_UNITS)}))

    # ---- factorized flux models: product form, names, internal unit
    for _ in range(ctx.n(25, 400)):
        es, _ = gen_energy_spec(rng, kind=rng.choice(['pl', 'pl', 'cutoff', 'cutoff', 'logpar', 'logpar', 'unityE', 'function']))
        ts = gen_time_spec(rng)
        ss = rng.choice([{'kind': 'unityS'}, {'kind': 'point', 'p': {'ra': 1.25, 'dec': 0.5}}])
        spec = {'kind': 'ffm', 'p': {'Phi0': float(lg(rng, -14, 1))}, 's': ss, 'e': es, 't': ts}
        E1, E2 = gen_energy_interval(rng, es) if es['kind'] != 'unityE' else (1.0, 10.0)
        tp = time_points(rng, ts)
        c = {'type': 'outer', 'spec': spec, 'ra': [1.25, 0.3], 'dec': [0.5, 0.5], 'E': [E1, math.sqrt(E1 * E2), E2],
             't': rng.sample(tp, min(len(tp), 3))}
        outer_cases.append(c)
        oracle_cases.append(('product', {k: c[k] for k in ('spec', 'ra', 'dec', 'E', 't')}))
        oracle_cases.append(('names', {'spec': spec}))
        oracle_cases.append(('internal_unit', {'spec': dict(spec, s=dict(ss, unit=rng.choice([None, 'rad', 'deg'])), length_unit=rng.choice([None, 'cm', 'm', 'km']))}))
        ctx.count('ffm:%s,%s' % (es['kind'], ts['kind']))
        # the call itself: unit keyword arguments, None arguments, scalars; also for the point-like classes
        cls = rng.choice(['ffm', 'ffm', 'pffm', 'spffm'])
        mspec = dict(spec)
        if cls != 'ffm':
            mspec['cls'] = cls
            mspec['s'] = {'kind': 'point', 'p': {'ra': 1.25, 'dec': 0.5}}
            if cls == 'spffm':
                mspec['t'] = {'kind': 'unityT', 'p': {}, 'unit': ts['unit']}
        ctx.count('model-class:' + cls)
        tmids = [0.5 * (x + y) for x, y in zip(tp, tp[1:]) if y - x > 1e-6 * (abs(x) + abs(y) + 1e-3)] or [0.0, 1.0]
        ue, ut, ua = rng.choice([None] + E_UNITS), rng.choice([None] + T_UNITS), rng.choice([None, 'rad', 'deg'])
        fe, ft = ufac(ue, es.get('unit')), ufac(ut, ts['unit'])
        fa = None if ua in (None, 'rad') else float(unit(ua).to(unit('rad')))
        cv_ = lambda xs, f: list(xs) if f is None else [x / f for x in xs]  # noqa
        mc = {'spec': mspec, 'ra': cv_([1.25, 0.3], fa), 'dec': cv_([0.5, 0.5], fa), 'E': cv_(c['E'], fe),
              't': cv_(rng.sample(tmids, min(3, len(tmids))), ft), 'angle_unit': ua, 'energy_unit': ue, 'time_unit': ut,
              'nones': [[], ['ang'], ['E'], ['t'], ['ang', 'E', 't']]}
        oracle_cases.append(('model_call', mc))
        model_calls.append(mc)
        ctx.count('model-call-units:%s,%s' % (ue, ut))
        pool = [(n, es['p'][n]) for n in CTOR_PARAMS.get(es['kind'], [])] + [(n, mspec['t']['p'][n]) for n in ('t0', 'tw', 'sigma_t') if n in mspec['t']['p']] + [('Phi0', 1.0)]
        pick = rng.sample(pool, min(len(pool), 2))
        oracle_cases.append(('copy_api', {'spec': mspec, 'pd': [[n, float(new_value(rng, n, v))] for n, v in pick]}))
        oracle_cases.append(('updated_flag', {'spec': mspec, 'p': [[n, float(new_value(rng, n, v))] for n, v in pick]}))
        oracle_cases.append(('dict_purity', {'spec': mspec, 'p': [[n, float(new_value(rng, n, v))] for n, v in pick],
                                             'q': [[n, float(new_value(rng, n, v))] for n, v in pool]}))
        ctx.count('dict-reuse:model')
    oracle_cases.append(('copy_api', {'spec': {'kind': 'ffm', 'cls': 'default', 'p': {'Phi0': 2.5e-18}, 's': {'kind': 'unityS'}, 'e': {'kind': 'unityE', 'unit': 'GeV'},
                                               't': {'kind': 'unityT', 'p': {}, 'unit': 's'}}, 'pd': [['Phi0', 1e-17]]}))
    # copies of every kind of profile (incl. function-based and the unity profiles)
    for _ in range(ctx.n(24, 300)):
        if rng.random() < 0.6:
            sp, _c = gen_energy_spec(rng, kind=rng.choice(['pl', 'cutoff', 'logpar', 'function', 'function', 'unityE', 'epeak']))
        else:
            sp = rng.choice([gen_time_spec(rng), gen_time_spec(rng, kind='unityT'), {'kind': 'unityS'}, {'kind': 'point', 'p': {'ra': 0.3, 'dec': -0.2}}])
        pd = [[n, float(new_value(rng, n, sp.get('p', {}).get(n, 1.0)))] for n in CTOR_PARAMS.get(sp['kind'], [])[:2] if n not in ('t_start', 't_stop')]
        oracle_cases.append(('copy_api', {'spec': sp, 'pd': pd}))
        ctx.count('copy:' + sp['kind'])
        names_ = [n for n in CTOR_PARAMS.get(sp['kind'], []) if n not in ('t_start', 't_stop')]
        if names_:
            pp = [[n, float(new_value(rng, n, sp.get('p', {}).get(n, 1.0)))] for n in rng.sample(names_, rng.randrange(1, len(names_) + 1))]
            qq = [[n, float(new_value(rng, n, sp.get('p', {}).get(n, 1.0)))] for n in names_]
            oracle_cases.append(('dict_purity', {'spec': sp, 'p': pp + ([['bogus', 1.0]] if rng.random() < 0.2 else []), 'q': qq}))
            oracle_cases.append(('updated_flag', {'spec': sp, 'p': pp + ([['bogus', 1.0]] if rng.random() < 0.3 else [])}))
            oracle_cases.append(('updated_flag', {'spec': sp, 'p': [[n, sp['p'][n]] for n in names_ if n in sp.get('p', {})][:1] + [['bogus', 2.0]]}))
            ctx.count('dict-reuse:' + sp['kind'])
    oracle_cases.append(('getparam_none', {'spec': {'kind': 'pffm-noposition'}, 'Phi0': 2.5e-18}))
    # recorded behaviour outside the assumptions (open findings): negative box width, stale random variable
    oracle_cases.append(('neg_width', {'spec': {'kind': 'box', 'p': {'t0': 0.5, 'tw': -1.0}, 'unit': 'day'}, 'a': -5.0, 'b': 5.0}))
    oracle_cases.append(('rv', {'spec': {'kind': 'gauss', 'p': {'t0': 0.0, 'sigma_t': 1.0, 'tol': None}, 'unit': 'day'}, 'ts': [0.0, 1.0, 3.0], 'pd': [['sigma_t', 4.0]]}))

    # ---- directed histories: one per branch of the model that random histories may miss
    pl_ = {'kind': 'pl', 'p': {'E0': 10.0, 'gamma': 2.0}, 'unit': 'GeV'}
    box_ = {'kind': 'box', 'p': {'t0': 5.0, 'tw': 2.0}, 'unit': 'day'}
    ffm_ = {'kind': 'ffm', 'p': {'Phi0': 2.5e-18}, 's': {'kind': 'point', 'p': {'ra': 1.25, 'dec': 0.5}}, 'e': pl_, 't': box_}
    for spec_, ops_ in (
            (ffm_, [['setv', 3, [['Phi0', 'num', 1e-17], ['ra', 'int', 2.0], ['E0', 'num', 5.0], ['gamma', 'bad', 0.0], ['t0', 'num', 9.0]]]]),
            (ffm_, [['setv', 3, [['E0', 'arr', 0.0], ['tw', 'num', 1.0]]], ['setv', 3, [['tw', 'zd', 1.0], ['bogus', 'bad', 0.0]]]]),
            (pl_, [['move', 0, 1.0, None], ['setv', 0, [['E0', 'nan', float('nan')]]], ['setv', 0, [['E0', 'nan', float('nan')]]]]),
            (box_, [['setv', 0, [['t0', 'bad', 0.0], ['tw', 'num', 3.0]]], ['move', 0, 2.0, 'yr'], ['copyset', 0, [['tw', 0.5]]]]),
            (dict(ffm_, shared={'Phi0': 7.5e-12}), [['set', 4, [['gamma', 3.0], ['Phi0', 1.0]]], ['copy', 4], ['set', 3, [['gamma', 2.5]]]])):
        histories.append({'type': 'history', 'spec': spec_, 'ops': ops_})
    model_calls.append({'spec': {'kind': 'ffm', 'p': {'Phi0': 2.5e-18}, 's': {'kind': 'unityS'}, 'e': {'kind': 'unityE', 'p': {}, 'unit': 'TeV'},
                                 't': {'kind': 'unityT', 'p': {}, 'unit': 'yr'}}, 'ra': [0.1, 0.2], 'dec': [0.0, 0.0], 'E': [1.0, 2.0, 3.0], 't': [0.0],
                        'angle_unit': 'deg', 'energy_unit': 'PeV', 'time_unit': 's', 'nones': [[], ['E'], ['ang', 't']]})

    # ---- histories
    for _ in range(ctx.n(90, 2500)):
        h = gen_history(rng)
        histories.append(h)
        ctx.count('history:len=%d' % len(h['ops']))
        for op in h['ops']:
            ctx.count('op:' + op[0])
        oo = history_to_oracle_ops(h)
        oracle_cases.append(('update', {'spec': h['spec'], 'ops': oo}))
        oracle_cases.append(('copy', {'spec': h['spec'], 'ops': [o for o in oo if o[0] not in ('copy', 'copyset')] or [['set', [['Phi0' if h['spec']['kind'] == 'ffm' else (CTOR_PARAMS[h['spec']['kind']] or ['bogus'])[0], 7.5]]]]}))

    # ---- purity layer (argument arrays untouched; views / read-only / int / float32 / 0-d / scalars; repeatable)
    for _ in range(ctx.n(16, 250)):
        spec, cls = gen_energy_spec(rng, kind=rng.choice(['pl', 'cutoff', 'logpar', 'function', 'unityE']))
        sc = {'GeV': 1.0, 'TeV': 1e-3, 'PeV': 1e-6}[spec['unit']]
        E1, E2 = gen_energy_interval(rng, spec)
        own_edges = [E1, E1 ** 0.7 * E2 ** 0.3, math.sqrt(E1 * E2), E2]
        slow = spec['kind'] in ('cutoff', 'logpar', 'function')
        units_call = [None] + E_UNITS
        units_int = [None, rng.choice([x for x in E_UNITS if x != spec['unit']])] if slow else units_call
        ints = [3, 50, 700, 20000]
        for au in units_call:
            f = ufac(au, spec['unit'])
            ed = own_edges if f is None else [x / f for x in own_edges]
            ic = [ints] if f is None and spec['unit'] == 'GeV' else None
            oracle_cases.append(('purity', {'spec': spec, 'method': 'call', 'arg_unit': au, 'cols': [ed], 'icols': ic}))
            if au in units_int:
                oracle_cases.append(('purity', {'spec': spec, 'method': 'int', 'arg_unit': au, 'cols': [ed[:-1], ed[1:]], 'edges': ed,
                                                'icols': [ints[:-1], ints[1:]] if ic else None}))
            ctx.count('purity:energy-unit:%s' % au)
    for _ in range(ctx.n(16, 250)):
        spec = gen_time_spec(rng)
        pts = time_points(rng, spec)
        own_edges = sorted(rng.sample(pts, min(5, len(pts))))
        c0 = math.floor(spec['p'].get('t0', 0.0))
        ints = [c0 - 3, c0 - 1, c0, c0 + 1, c0 + 2, c0 + 5]
        for au in [None] + T_UNITS:
            f = ufac(au, spec['unit'])
            ed = own_edges if f is None else [x / f for x in own_edges]
            ic = f is None
            oracle_cases.append(('purity', {'spec': spec, 'method': 'call', 'arg_unit': au, 'cols': [ed], 'icols': [ints] if ic else None}))
            oracle_cases.append(('purity', {'spec': spec, 'method': 'int', 'arg_unit': au, 'cols': [ed[:-1], ed[1:]], 'edges': ed,
                                            'icols': [ints[:-1], ints[1:]] if ic else None}))
            if spec['kind'] != 'unityT':
                oracle_cases.append(('purity', {'spec': spec, 'method': 'cdf', 'arg_unit': au, 'cols': [ed], 'icols': [ints] if ic else None}))
            ctx.count('purity:time-unit:%s' % au)
    for au in (None, 'rad', 'deg'):
        for sp in ({'kind': 'point', 'p': {'ra': 1.25, 'dec': 0.5}}, {'kind': 'unityS'}):
            oracle_cases.append(('purity', {'spec': sp, 'method': 'call', 'arg_unit': au, 'cols': [[1.25, 0.3, 2.0], [0.5, 0.5, -0.25]],
                                            'icols': [[1, 0, 2], [0, 1, 0]]}))
    for c in outer_cases:
        oracle_cases.append(('purity_model', dict({k: c[k] for k in ('spec', 'ra', 'dec', 'E', 't')},
                                                  angle_unit=rng.choice([None, 'rad', 'deg']), energy_unit=rng.choice([None] + E_UNITS),
                                                  time_unit=rng.choice([None] + T_UNITS))))

    # ---- property oracles on the implementation
    for name, oc in oracle_cases:
        ctx.case(nontrivial=True, key=(name, oc), desc={'oracle': name, 'case': oc} if ctx.evaluations % 401 == 0 else None)
        ctx.count('oracle:' + name)
        res = ORACLES[name](ctx, oc)
        if res:
            ctx.violation(name, oc, res, signature=_sig(_label(name, oc), oc['spec'], res))

    # ---- correspondence
    suspicious = []
    reqs, impls = [], []
    for c in numeric:
        r, i = corr_numeric(c)
        reqs.append(r)
        impls.append(i)
    for c, i, m in zip(numeric, impls, ctx.driver('C13', reqs)):
        ctx.case(nontrivial=True, key=c, desc=c if ctx.evaluations % 503 == 0 else None)
        ctx.count('corr:energy-' + c['op'])
        BR['conv:' + ('none' if ufac(c.get('arg_unit'), c['spec'].get('unit')) is None else 'some')] += 1
        if c['op'] == 'int' and c['spec']['kind'] == 'pl':
            BR['plIntegral:' + ('gamma==1' if c['spec']['p']['gamma'] == 1 else 'else')] += 1
        d = cmp_numeric(c, i, m)
        if d:
            suspicious.append((c, i, m, d))
    for c, i, m, d in run_time_cases(ctx, time_cases):
        ctx.case(nontrivial=True, key=c)
        ctx.count('corr:time-' + c['op'])
        if d:
            suspicious.append((c, i, m, d))
    for c, d in _outer_cmp(ctx, outer_cases):
        ctx.case(nontrivial=True, key=c)
        ctx.count('corr:outer')
        if d:
            suspicious.append((c, None, None, d))
    for d in unit_model_cmp(ctx):
        suspicious.append(({'type': 'units', 'spec': {'kind': 'units'}}, None, None, d))
    for c, d in _model_call_cmp(ctx, model_calls):
        ctx.case(nontrivial=True, key=(c['spec'], c['E'], c['t'], c.get('energy_unit'), c.get('time_unit')))
        ctx.count('corr:model-call')
        if d:
            suspicious.append((dict(c, type='model_call'), None, None, d))
    # constructor of the gaussian: window vs model, and the domain 0 < tol < 1, sigma != 0 (model: none)
    gspecs = [gen_time_spec(rng, kind='gauss') for _ in range(ctx.n(30, 400))]
    for tol_, sg_ in ((1.0, 1.0), (2.0, 0.5), (0.5, 0.0), (1e-12, -1.5), (0.999, 3.0)):
        gspecs.append({'kind': 'gauss', 'p': {'t0': rng.choice([0.0, 58430.0]), 'sigma_t': sg_, 'tol': tol_}, 'unit': 'day'})
    glines = ['gnew %s %s %s' % (f2b(g_['p']['t0']), f2b(g_['p']['sigma_t']), f2b(1e-12 if g_['p']['tol'] is None else g_['p']['tol'])) for g_ in gspecs]
    for g_, o in zip(gspecs, ctx.driver('C13', glines)):
        ctx.case(nontrivial=True, key=('gnew', g_))
        import warnings
        with warnings.catch_warnings():
            warnings.simplefilter('ignore')
            with np.errstate(all='ignore'):
                pr = build(g_)
                w = [float(pr.t_start), float(pr.t_stop)]
                tot = float(pr.get_total_integral())
        if o == 'none':
            ctx.count('gauss-ctor:outside-domain')
            BR['gaussNewChecked:none'] += 1
            if np.isfinite(tot) and tot > 0 and w[0] < w[1]:
                suspicious.append((dict(type='gnew', spec=g_), w, o, 'gaussian constructor outside 0 < tol < 1, sigma != 0: implementation builds a '
                                   'regular profile (window %r, total %r), model: none' % (w, tot)))
        else:
            ctx.count('gauss-ctor:domain')
            BR['gaussNewChecked:some'] += 1
            mv = parse_flist(o)
            if not _close(w, mv[:2], group=True):
                suspicious.append((dict(type='gnew', spec=g_), w, mv[:2], 'gaussian constructor: implementation window %r, model %r' % (w, mv[:2])))
    # round 7: the scipy random variable of a time profile (utils/flux_model.py) vs Model/FluxRvR7
    from harness import c13_r7_fixtures as r7
    import sys as _sys
    r7.run_rv_cases(ctx, _sys.modules[__name__], BR, suspicious)
    all_lines, metas = [], []
    for h in histories:
        try:
            lines, impl, strict, objs = history_lines(h)
        except Exception as e:  # construction itself failed: the oracles report it
            suspicious.append((h, 'EXC:' + type(e).__name__, None, 'building the objects of the history raised %s: %s' % (type(e).__name__, e)))
            continue
        metas.append((h, len(all_lines), lines, impl, strict, objs))
        all_lines += lines
    outs = ctx.driver('C13', all_lines)
    for h, off, lines, impl, strict, objs in metas:
        ctx.case(nontrivial=True, key=h, desc=h if ctx.evaluations % 211 == 0 else None)
        ctx.count('corr:history')
        d = cmp_history(lines, impl, strict, outs[off:off + len(lines)], objs)
        if d:
            suspicious.append((h, None, None, d))

    # ---- disagreements: look for a failing input with the oracles, else report the relation
    seen = set()
    for c, i, m, d in suspicious:
        for name, oc in _oracle_cases_for(c):
            res = ORACLES[name](ctx, oc)
            if res:
                ctx.violation(name, oc, res, impl_output=i, model_output=m, signature=_sig(_label(name, oc), oc['spec'], res))
                break
        else:
            key = (c['type'], c.get('op'), c['spec']['kind'])
            if key in seen:
                continue
            seen.add(key)
            ctx.violation('corr', c, 'model and implementation disagree (%s) but no property oracle fails on this input' % d,
                          kind='correspondence', relation='tolerance ' + c['type'], impl_output=i, model_output=m,
                          signature='C13/corr/%s/%s/%s' % (c['type'], c.get('op', '-'), c['spec']['kind']), no_failing_input=True)
    ctx.extra['correspondence_disagreements'] = len(suspicious)
    for k_, v_ in SKIPPED.items():
        ctx.count(k_, v_)
    SKIPPED.clear()
    for b_ in BRANCHES:
        ctx.count('branch:' + b_, BR.get(b_, 0))
    unknown = sorted(set(BR) - set(BRANCHES))
    ctx.extra['zero_hit_branches'] = [b_ for b_ in BRANCHES if BR.get(b_, 0) == 0]
    ctx.extra['branches_not_addressable'] = BRANCHES_EXCLUDED
    if unknown:
        ctx.note('C13: branch labels counted but not declared: %r' % unknown)
    if ctx.extra['zero_hit_branches']:
        ctx.note('C13: model branches not reached by the correspondence in this run: %r' % ctx.extra['zero_hit_branches'])
    BR.clear()


def _interval_class(spec, a, b):
    k, p = spec['kind'], spec['p']
    if k == 'unityT':
        return 'unbounded-support'
    if k == 'box':
        s, e = p['t0'] - p['tw'] / 2, p['t0'] + p['tw'] / 2
    else:
        tol = 1e-12 if p['tol'] is None else p['tol']
        h = math.sqrt(-2 * p['sigma_t']**2 * math.log(tol))
        s, e = p['t0'] - h, p['t0'] + h
    if b < s or a > e:
        return 'outside'
    if s <= a and b <= e:
        return 'inside'
    return 'across'


def _oracle_cases_for(c):
    t = c['type']
    spec = c['spec']
    if t in ('numeric', 'time'):
        if c['op'] == 'int':
            yield 'integral_quad', {'spec': spec, 'x1': c['x1'], 'x2': c['x2'], 'arg_unit': c.get('arg_unit')}
        if c['op'] == 'cdf':
            f = ufac(c.get('arg_unit'), spec.get('unit'))
            yield 'cdf', {'spec': spec, 'ts': [c['x'] if f is None else c['x'] * f]}
        if c['op'] == 'call' and c.get('arg_unit'):
            yield 'units', {'spec': spec, 'xs': [c['x']], 'u1': c['arg_unit'], 'u2': spec['unit']}
    elif t == 'gnew':
        yield 'update', {'spec': spec, 'ops': [['set', [['sigma_t', spec['p']['sigma_t']]]]]}
    elif t == 'rv':
        if 'x' in c and spec['kind'] in ('box', 'gauss'):
            yield 'rv', {'spec': spec, 'ts': [c['x']], 'pd': c['pd']}
    elif t == 'model_call':
        yield 'model_call', {k_: v_ for k_, v_ in c.items() if k_ != 'type'}
    elif t == 'outer':
        yield 'product', {k: c[k] for k in ('spec', 'ra', 'dec', 'E', 't')}
        yield 'names', {'spec': spec}
    elif t == 'history':
        oo = history_to_oracle_ops(c)
        yield 'names', {'spec': spec}
        dcont = [op[2] for op in c['ops'] if op[0] in ('set', 'copyset')]
        for pc in dcont:
            yield 'updated_flag', {'spec': spec, 'p': pc}
        for k_, pc in enumerate(dcont):
            yield 'dict_purity', {'spec': spec, 'p': pc, 'q': dcont[(k_ + 1) % len(dcont)] if len(dcont) > 1 else []}
        yield 'update', {'spec': spec, 'ops': oo}
        yield 'copy', {'spec': spec, 'ops': [o for o in oo if o[0] not in ('copy', 'copyset')]}
        # single operations of the history, each on a fresh object
        for op in oo:
            yield 'update', {'spec': spec, 'ops': [op]}


MANIFEST = dict(
    text=('83 Lean theorems over the reals about Model/Flux.lean and Model/FluxRvR7.lean (scipy random variable of a time profile: wrapper = specification for the freeze constants of the source, density normalised for box / gaussian, stale-variable counterexample): power-law closed form = integral of the profile (HasDerivAt + FTC, both '
          'branches), box and gaussian closed forms = integral of the windowed profile values for every interval (gaussian for any erf with '
          'derivative 2/sqrt(pi) exp(-x^2); for constructed objects and after any history without window hypothesis), additivity, cdf = partial / '
          'total integral with total > 0, unit invariance with the unit as state (incl. the unit == own-unit branch), internal-flux-unit factors '
          'compose, FactorizedFluxModel.__call__ as modelled (per-argument unit conversion, None -> factor 1) = Phi0 x spatial x energy x time; '
          'MathFunction state machine: set_params / move = construction with the updated values, histories keep objects Fresh, updated = False '
          'means unchanged, re-applying a dictionary is idempotent, error paths of set_params with their post-state (prefix assigned, not atomic), '
          'delegation and get_param through a flux model, deep copy = same state + no shared cell for whole heap histories. The executable model '
          'is compared with the real classes on every run (values, integrals, cdf, windows, constructor domain, unit factors, flux-model calls '
          'with units / None, histories of set_params / move / copy incl. re-used dict objects, arbitrary Python values, shared profiles, '
          'function-based profiles); branch counters list model branches not reached; implementation-side oracles (Gauss-Legendre, additivity, '
          'units, product, update-vs-construct, copy, purity of array and dict arguments, argument forms, updated flag) search failing inputs.'),
    note=('Cut-off, log-parabola, function-based and Epeak profiles have no closed form in the code (numerical get_integral): compared with the '
          'model\'s Simpson sum / Gauss-Legendre only. erf is a hypothesis (IsErf, witness erfR). NaN / list-valued parameters, unit objects and '
          '_cfg as state, Photospline profiles are outside the model. Open findings: power-law cancellation near gamma = 1, box with negative '
          'width, stale frozen random variable, Epeak get_integral (numpy.trapz; fix ready).'),
    design='DESIGN.md section 4 C13; design.d/C13.md',
    technique='Lean 4 proof (real analysis: HasDerivAt, interval integrals; induction over operation lists on a heap model; Except-style '
              'post-states) + tolerance-based model/implementation correspondence with scipy erf passed in')
