"""C16 — the column container (skyllh.core.storage.DataFieldRecordArray) behaves like a plain table.

Correspondence: operation sequences on the real container vs. Model/Store.lean (Driver/C16.lean prints the
heap-layer state `stepH` and the plain-table state `stepT` after every step); exact comparison of what the
public accessors say (len, field_name_list, every column's dtype and values, `in`, indices) plus the
np.shares_memory graph against the model's `Loc` graph.
Property oracle (implementation only): the same sequence on a reference table held in a numpy structured
array (value semantics; a raising operation changes nothing)."""
import copy

import numpy as np

from harness import store_fixtures as sf
from harness.store_fixtures import UNIVERSE

MODEL_MODULES = ['SkyllhModel.Model.Store', 'SkyllhModel.Model.StoreIO']

DTS = ['b', 'i16', 'i64', 'f32', 'f64']


# ------------------------------------------------------------------------------------------
# generators

def gen_col(rng, n, dt=None):
    dt = dt or rng.choice(DTS)
    if dt == 'b':
        v = [rng.randrange(2) for _ in range(n)]
    else:
        lo, hi = rng.choice([(-3, 3), (-9, 9), (0, 2), (-99, 99)])
        v = [rng.randint(lo, hi) for _ in range(n)]
    return {'dt': dt, 'v': v}


def gen_sel(rng, n, valid=True):
    r = rng.random()
    if r < 0.45:
        m = [1 if rng.random() < rng.choice([0.2, 0.5, 0.9]) else 0 for _ in range(n)]
        if not valid:
            m = m + [1] if rng.random() < 0.5 or not m else m[:-1]
        return {'k': 'm', 'v': m}
    k = rng.choice([0, 1, 1, 2, 3, n, n + 2])
    if n == 0:
        v = [] if valid else [0]
    else:
        v = [rng.randrange(-n, n) for _ in range(k)]
        if not valid:
            v.insert(rng.randrange(len(v) + 1), rng.choice([n, -n - 1, n + 5]))
    return {'k': 'i', 'v': v}


def npos(sel, n):
    return sum(sel['v']) if sel['k'] == 'm' else len(sel['v'])


def gen_new(rng, nrows=None, nfields=None):
    n = rng.choice([0, 1, 2, 3, 3, 5, 8, 13, 20, 50]) if nrows is None else nrows
    k = rng.randrange(1, 6) if nfields is None else nfields
    names = rng.sample(range(len(UNIVERSE)), k)
    return {'op': 'new', 'cols': [[nm, gen_col(rng, n)] for nm in names], 'nocopy': rng.random() < 0.3}


def ref_legal(tabs, op):
    """the reference-world counterpart of store_fixtures.legal"""
    if op['op'] != 'setSel':
        return True
    t, d = tabs[op['c']], tabs[op['d']]
    cs = [id(t.cells[n]) for n in t.names]
    if op['c'] == op['d']:
        return len(set(cs)) == len(cs)
    return not (set(cs) & set(id(d.cells[n]) for n in d.names))


def gen_sequence(rng, length):
    """random, mostly valid operation sequence; the reference tables are advanced alongside to know the state"""
    tabs, ops = [], []

    def emit(op):
        if not ref_legal(tabs, op):
            return
        ops.append(op)
        sf.ref_apply(tabs, op)

    emit(gen_new(rng))
    if rng.random() < 0.6:
        # a second table with (mostly) the same fields, so append / set_selection have a partner
        cols = [[UNIVERSE.index(nm), gen_col(rng, rng.choice([0, 1, 2, 4]), None if rng.random() < 0.5 else sf.dtname(a.dtype))]
                for nm, a in tabs[0].pairs()]
        if rng.random() < 0.2 and len(cols) > 1:
            cols.pop(rng.randrange(len(cols)))
        if rng.random() < 0.3:
            extra = [i for i in range(len(UNIVERSE)) if i not in [c[0] for c in cols]]
            n0 = len(cols[0][1]['v'])
            cols.append([rng.choice(extra), gen_col(rng, n0)])
        n0 = len(cols[0][1]['v'])
        for c in cols:
            c[1] = gen_col(rng, n0, c[1]['dt'])
        emit({'op': 'new', 'cols': cols})
    while len(ops) < length:
        c = rng.randrange(len(tabs))
        t = tabs[c]
        have = [UNIVERSE.index(nm) for nm in t.names]
        other = [i for i in range(len(UNIVERSE)) if i not in have]
        bad = rng.random() < 0.12
        anyname = lambda: rng.choice(other if (bad and other) or not have else have)   # noqa: E731
        newname = lambda: rng.choice(have if (bad and have) or not other else other)   # noqa: E731
        k = rng.choice(['append', 'append', 'appendField', 'setItem', 'setItem', 'removeField', 'rename', 'rename',
                        'tidyUp', 'getSel', 'getSel', 'setSel', 'setSel', 'sortBy', 'sortBy', 'copy', 'setDtype',
                        'convert', 'indices', 'indices', 'new', 'appendFieldFrom', 'setItemFrom', 'setItemFrom', 'newShared'])
        if k in ('getSel', 'copy', 'new', 'newShared') and len(tabs) >= 6:
            k = 'indices'
        if k == 'append':
            # partners having all fields of t (unless a bad one is wanted); bounded growth
            cand = [i for i, d in enumerate(tabs) if all(nm in d.names for nm in t.names)]
            if bad or not cand:
                cand = list(range(len(tabs)))
            d = rng.choice(cand)
            if t.n + tabs[d].n > 120:
                continue
            emit({'op': 'append', 'c': c, 'd': d})
        elif k == 'appendField':
            emit({'op': 'appendField', 'c': c, 'n': newname(), 'col': gen_col(rng, t.n + (1 if bad and rng.random() < 0.5 else 0))})
        elif k == 'setItem':
            emit({'op': 'setItem', 'c': c, 'n': rng.choice(have + other[:1]) if have else newname(),
                  'col': gen_col(rng, t.n + (1 if bad else 0))})
        elif k == 'removeField':
            emit({'op': 'removeField', 'c': c, 'n': anyname()})
        elif k == 'rename':
            m = rng.choice([1, 1, 2, 3])
            olds = rng.sample(range(len(UNIVERSE)), m) if bad or not have else \
                (rng.sample(have, min(m, len(have))) + ([rng.choice(other)] if other and rng.random() < 0.3 else []))
            rng.shuffle(olds)
            news = [rng.choice(other) if other and rng.random() < 0.8 else rng.randrange(len(UNIVERSE)) for _ in olds]
            emit({'op': 'rename', 'c': c, 'convs': [[o, n] for o, n in zip(olds, news)], 'must': rng.random() < 0.5})
        elif k == 'tidyUp':
            keep = [i for i in range(len(UNIVERSE)) if rng.random() < 0.6]
            emit({'op': 'tidyUp', 'c': c, 'keep': keep})
        elif k == 'getSel':
            emit({'op': 'getSel', 'c': c, 'sel': gen_sel(rng, t.n, valid=not bad), 'via_getitem': rng.random() < 0.5})
        elif k == 'setSel':
            sel = gen_sel(rng, t.n, valid=not (bad and rng.random() < 0.5))
            k_pos = npos(sel, t.n)
            cand = [i for i, d in enumerate(tabs) if all(nm in d.names for nm in t.names) and d.n in (k_pos, 1)]
            if bad or not cand:
                if rng.random() < 0.7 and len(tabs) < 6 and t.names:
                    # make a fitting source on the fly
                    src = {'op': 'new', 'cols': [[UNIVERSE.index(nm), gen_col(rng, k_pos)] for nm in t.names]}
                    if bad and len(src['cols']) > 1:
                        src['cols'].pop(rng.randrange(len(src['cols'])))
                    emit(src)
                    cand = [len(tabs) - 1]
                else:
                    cand = list(range(len(tabs)))
            emit({'op': 'setSel', 'c': c, 'sel': sel, 'd': rng.choice(cand), 'via_setitem': rng.random() < 0.5})
        elif k == 'sortBy':
            emit({'op': 'sortBy', 'c': c, 'n': anyname()})
        elif k == 'copy':
            keep = None if rng.random() < 0.5 else [i for i in range(len(UNIVERSE)) if rng.random() < 0.6]
            emit({'op': 'copy', 'c': c, 'keep': keep})
        elif k == 'setDtype':
            emit({'op': 'setDtype', 'c': c, 'n': anyname(), 'dt': rng.choice(DTS)})
        elif k == 'convert':
            m = rng.choice([1, 2])
            olds = rng.sample(DTS, m)
            emit({'op': 'convert', 'c': c, 'convs': [[o, rng.choice(DTS)] for o in olds],
                  'exc': [i for i in have if rng.random() < 0.3]})
        elif k == 'indices':
            emit({'op': 'indices', 'c': c})
        elif k == 'new':
            emit(gen_new(rng))
        elif k in ('appendFieldFrom', 'setItemFrom'):
            # the handed-in array IS a column of the same table or of another live table (same length preferred)
            cand = [(i, UNIVERSE.index(nm)) for i, d in enumerate(tabs) for nm in d.names if bad or d.n == t.n]
            if not cand:
                continue
            d, m = rng.choice(cand)
            n = newname() if k == 'appendFieldFrom' else (rng.choice(have + other[:1]) if have else newname())
            emit({'op': k, 'c': c, 'n': n, 'd': d, 'm': m})
        elif k == 'newShared':
            emit({'op': 'newShared', 'd': c, 'm': anyname()})
    return ops


# the finite alphabet of the bounded-exhaustive enumeration (container -1 = the most recent one)
EXH_INIT = [
    {'op': 'new', 'cols': [[0, {'dt': 'i64', 'v': [2, 1]}], [1, {'dt': 'f32', 'v': [5, 6]}]]},
    {'op': 'new', 'cols': [[0, {'dt': 'i16', 'v': [7]}]]},
]
EXH_ALPHABET = [
    {'op': 'append', 'c': 0, 'd': 0},
    {'op': 'append', 'c': 0, 'd': 1},                                   # partner misses a field: KeyError
    {'op': 'indices', 'c': 0},
    {'op': 'getSel', 'c': 0, 'sel': {'k': 'i', 'v': [-1, 0]}},
    {'op': 'setSel', 'c': 0, 'sel': {'k': 'i', 'v': [0]}, 'd': 1},      # partner misses a field: KeyError
    {'op': 'setSel', 'c': 0, 'sel': {'k': 'i', 'v': [1, 0]}, 'd': -1},
    {'op': 'sortBy', 'c': 0, 'n': 0},
    {'op': 'rename', 'c': 0, 'convs': [[0, 2], [7, 3]], 'must': True},  # second field missing: KeyError
    {'op': 'rename', 'c': 0, 'convs': [[1, 0]], 'must': False},         # collision with an existing name
    {'op': 'removeField', 'c': 0, 'n': 1},
    {'op': 'setItem', 'c': 0, 'n': 1, 'col': {'dt': 'b', 'v': [1, 0]}},
    {'op': 'copy', 'c': 0, 'keep': [1]},
    {'op': 'appendFieldFrom', 'c': 0, 'n': 2, 'd': 0, 'm': 0},          # a column of the table itself handed in again
    {'op': 'setItemFrom', 'c': 0, 'n': 1, 'd': -1, 'm': 0},             # a column of another live table handed in
    {'op': 'newShared', 'd': 0, 'm': 0},                                # the caller keeps t[0] (copy=False constructor)
]


def resolve(op, nconts):
    if op.get('d', 0) == -1:
        op = dict(op)
        op['d'] = nconts - 1
    return op


# ------------------------------------------------------------------------------------------
# property oracle: implementation vs. reference table

def _bytes(arr):
    return (str(arr.dtype), arr.shape, np.ascontiguousarray(arr).tobytes())


def table_check(case):
    """None | (mode, opname, step, text)"""
    conts, tabs, held = [], [], []
    for k, op in enumerate(case['ops']):
        try:
            op = resolve(op, len(conts))
            if not sf.legal(conts, op):
                return None      # outside the model (see store_fixtures.legal)
            # arrays the caller legitimately holds: handed in / kept earlier, and the columns of all containers
            before = [('caller-held array #%d' % i, a, _bytes(a)) for i, a in enumerate(held)]
            tgt = op.get('c') if op['op'] not in ('getSel', 'copy', 'new', 'newShared') else None
            tgt_arrays = sf.cont_arrays(conts[tgt]) if tgt is not None and 0 <= tgt < len(conts) else []
            for ci, a in enumerate(conts):
                if ci != tgt:
                    before += [('column %r of container %d' % (n, ci), a[n], _bytes(a[n])) for n in a.field_name_list if n in a]
            ri = sf.impl_apply(conts, op, held)
            impl_perm = ri[1][1] if (op['op'] == 'sortBy' and ri[0] == 'ok') else None
            rr = sf.ref_apply(tabs, op, impl_out=impl_perm)
        except (IndexError, AssertionError):
            return None          # malformed (shrunk) case
        name = op['op']
        where = 'step %d (%s)' % (k, sf.op_line(op, impl_perm))
        # every other table and every caller-held array is byte-identical unless the operation writes through
        for what, arr, b in before:
            if _bytes(arr) != b:
                if name == 'setSel' and sf.shares([arr], tgt_arrays):
                    continue     # set_selection is documented to assign into the arrays of its target
                return ('modified-in-place', name, k, '%s: %s was modified in place (%r -> %r) although %s rebinds its columns' % (
                    where, what, np.frombuffer(b[2], dtype=arr.dtype).tolist()[:8], arr.tolist()[:8], name))
        if rr == ('err', 'perm'):
            return ('bad-permutation', name, k, '%s: sort_by_field returned %r which is not a sorting permutation of the key column' % (where, impl_perm))
        if ri[0] != rr[0] or (ri[0] == 'err' and ri[1] != rr[1]):
            mode = ('raises-' + ri[1]) if ri[0] == 'err' else 'no-raise'
            return (mode, name, k, '%s: the container answers %r, a plain table answers %r' % (where, ri, rr))
        if ri[0] == 'ok' and ri[1] != rr[1]:
            return ('wrong-result', name, k, '%s: returned %r, a plain table returns %r' % (where, ri[1], rr[1]))
        for ci, (a, t) in enumerate(zip(conts, tabs)):
            got, want = sf.snap(a), t.snap()
            d = sf.snap_diff(got, want)
            if d:
                mode = sf.diff_mode(d, got)
                if ri[0] == 'err':
                    mode = 'changed-on-error/' + mode
                return (mode, name, k, '%s: container %d differs from the plain table in %r after %s: container %r, table %r' % (
                    where, ci, d, 'the failed operation' if ri[0] == 'err' else 'the operation', got[d], want[d]))
        # memory sharing: exactly the slots that were bound to one handed-in array object
        sh = sorted(sorted(p) for p in sf.sharing(conts))
        cells = {}
        for ci, t in enumerate(tabs):
            for n in t.names:
                if t.cells[n].a.size:
                    cells.setdefault(id(t.cells[n]), []).append([ci, n])
        want_sh = sorted(sorted([v[i], v[j]]) for v in cells.values() for i in range(len(v)) for j in range(i + 1, len(v)))
        if sh != want_sh:
            return ('shared-memory', name, k, '%s: columns sharing memory: %r, expected from the arrays handed in: %r' % (where, sh[:3], want_sh[:3]))
    return None


def o_table(ctx, case):
    r = table_check(case)
    return None if r is None else r[3]


def shrink(case, mode):
    r = table_check(case)
    if r is None:
        return case
    ops = list(case['ops'][:r[2] + 1])
    i = len(ops) - 2
    while i >= 0:
        cand = ops[:i] + ops[i + 1:]
        # removing a container-creating op shifts the ids of later containers: only try when nothing refers past it
        rr = None
        if ops[i]['op'] not in ('new', 'getSel', 'copy'):
            rr = table_check({'ops': cand})
        if rr is not None and rr[0] == mode:
            ops = cand
        i -= 1
    return {'ops': ops}


# ------------------------------------------------------------------------------------------
# correspondence: implementation vs. Lean model

def corr_prepare(ops):
    """run one linear sequence on the implementation; returns (request lines, per-step records)"""
    conts, lines, recs = [], ['reset'], []
    for op in ops:
        op = resolve(op, len(conts))
        if not sf.legal(conts, op):
            break
        ri = sf.impl_apply(conts, op)
        perm = ri[1][1] if (op['op'] == 'sortBy' and ri[0] == 'ok') else None
        lines.append(sf.op_line(op, perm))
        recs.append((op, ri, [sf.snap(a) for a in conts], sf.sharing(conts)))
    return lines, recs


def corr_eval(lines, recs, out):
    taint = [False]
    for k, ((op, ri, snaps, share), ans) in enumerate(zip(recs, out[1:])):
        d = compare_step(op, ri, snaps, share, ans, taint)
        if d:
            return 'step %d (%s): %s' % (k, lines[k + 1], d)
    return None


def corr_sequence(ctx, ops):
    """run one linear sequence on the implementation and on the model; returns None | text"""
    lines, recs = corr_prepare(ops)
    return corr_eval(lines, recs, ctx.driver('C16', lines))


def compare_step(op, ri, snaps, share, ans, taint=None):
    """taint: one-element list, set once a set_selection wrote through a shared location: from then on the plain-table
    layer (handed-in arrays by value) is no longer the reference, only the heap layer is"""
    taint = taint if taint is not None else [False]
    if ans == 'bad-op':
        return 'driver does not understand the request'
    head, hd, td = ans.split(' | ')
    hres, tres = [sf.parse_res(x.split('=', 1)[1], op['op']) for x in head.split(' ')]
    ri = tuple(ri)
    for nm, mr in (('heap model', hres),):
        if (ri[0], list(ri[1]) if ri[0] == 'ok' else ri[1]) != (mr[0], mr[1]):
            # the heap model returns the cached index array as it is; same values
            return 'implementation answers %r, %s answers %r' % (ri, nm, mr)
    hs, locs = sf.parse_H(hd)
    ts = sf.parse_T(td)
    if len(hs) != len(snaps) or len(ts) != len(snaps):
        return 'number of containers: implementation %d, heap model %d, table model %d' % (len(snaps), len(hs), len(ts))
    byloc = {}
    for ci, nm, loc in locs:
        byloc.setdefault(loc, []).append([ci, nm])
    if op['op'] == 'setSel' and any(len(v) > 1 for v in byloc.values()):
        taint[0] = True
    shared = taint[0]
    for ci, (g, h, t) in enumerate(zip(snaps, hs, ts)):
        d = sf.snap_diff(g, h)
        if d:
            return 'container %d, %r: implementation %r, heap model %r' % (ci, d, g[d], h[d])
        # the plain-table layer takes handed-in arrays by value: it is the reference only while no location is shared
        d = None if shared else sf.snap_diff(g, t)
        if d:
            return 'container %d, %r: implementation %r, table model %r' % (ci, d, g[d], t[d])
    empty = set((ci, c[0]) for ci, g in enumerate(snaps) for c in g['cols'] if c[2] is not None and len(c[2]) == 0)
    pred = sorted(sorted([v[i], v[j]]) for v in byloc.values() for i in range(len(v)) for j in range(i + 1, len(v))
                  if (v[i][0], v[i][1]) not in empty)
    if sorted(sorted(p) for p in share) != pred:
        return 'memory sharing between columns: implementation %r, heap model predicts %r' % (share[:3], pred[:3])
    return None


def o_corr(ctx, case):
    return corr_sequence(ctx, case['ops'])


ORACLES = {'table': o_table, 'corr': o_corr}


# ------------------------------------------------------------------------------------------

def exhaustive(ctx, depth, alphabet):
    """depth-first enumeration of all sequences over the alphabet up to `depth`, sharing prefixes:
    the implementation state is deep-copied per node, the model state is saved with push/pop.
    One driver batch per first letter (bounds the memory)."""
    bad = []
    for first in range(len(alphabet)):
        bad += _exh_chunk(ctx, depth, alphabet, first)
    return bad


def _exh_chunk(ctx, depth, alphabet, first):
    conts = []
    lines = ['reset']
    nodes = []        # (path, op, ri, snaps, share) in the order of the op lines
    for op in EXH_INIT:
        ri = sf.impl_apply(conts, op)
        lines.append(sf.op_line(op))
        nodes.append(((), op, ri, [sf.snap(a) for a in conts], sf.sharing(conts)))

    def rec(conts, path):
        if len(path) == depth:
            return
        for ai, op0 in enumerate(alphabet):
            if not path and ai != first:
                continue
            cs = copy.deepcopy(conts)
            op = resolve(op0, len(cs))
            if not sf.legal(cs, op):
                ctx.count('exhaustive:skipped(set_selection source shares memory with target)')
                continue
            ri = sf.impl_apply(cs, op)
            perm = ri[1][1] if (op['op'] == 'sortBy' and ri[0] == 'ok') else None
            lines.append('push')
            lines.append(sf.op_line(op, perm))
            p = path + (ai,)
            nodes.append((p, op, ri, [sf.snap(a) for a in cs], sf.sharing(cs)))
            if len(cs) <= 5:
                rec(cs, p)
            lines.append('pop')
    rec(conts, ())
    out = [a for a, l in zip(ctx.driver('C16', lines), lines) if l not in ('reset', 'push', 'pop')]
    assert len(out) == len(nodes)
    bad = []
    tainted = {(): False}
    for (path, op, ri, snaps, share), ans in zip(nodes, out):
        taint = [tainted.get(path[:-1], False)] if path else [False]
        if not path and first:
            continue
        ctx.count('exhaustive:len=%d' % len(path))
        ctx.case(key=('exh', len(alphabet), path), desc={'exhaustive_path': [alphabet[i]['op'] for i in path]} if len(path) == depth and ctx.evaluations % 40001 == 0 else None)
        d = compare_step(op, ri, snaps, share, ans, taint)
        tainted[path] = taint[0]
        if d:
            bad.append((path, d))
    return bad


def path_case(path, alphabet):
    return {'ops': EXH_INIT + [alphabet[i] for i in path]}


def report(ctx, case, d):
    """a model/implementation disagreement: look for a failing input with the property oracle"""
    r = table_check(case)
    if r is not None:
        case = shrink(case, r[0])
        r = table_check(case) or r
        ctx.violation('table', case, r[3], signature='C16/%s/%s' % (r[1], r[0]))
    else:
        ctx.violation('corr', case, 'model and implementation disagree (%s) but the reference table agrees with the implementation' % d,
                      kind='correspondence', relation='exact: public accessors + memory sharing, per step',
                      signature='C16/corr/' + case['ops'][-1]['op'], no_failing_input=True)


def run(ctx):
    rng = ctx.rng
    ctx.rule = ('operation sequences over the public methods of DataFieldRecordArray (append, append_field, __setitem__, '
                'remove_field, rename_fields, tidy_up, get_selection/__getitem__, set_selection/__setitem__, sort_by_field, copy, '
                'set_field_dtype, convert_dtypes, indices, constructor) on 1..6 containers with 0..50 rows, 1..5 fields of '
                'bool/int16/int64/float32/float64; ~12% of the operations are invalid on purpose (missing field, wrong length, '
                'bad index); append_field / __setitem__ / constructor(copy=False) also with an array that already is a column of the same or of '
                'another live container or that the caller keeps. Bounded-exhaustive: all sequences over a 15-letter alphabet of concrete operations; random: '
                'lengths up to 40. Distinct = distinct operation sequence.')
    ctx.trusted_base += ['correspondence harness harness/props/c16.py + harness/store_fixtures.py (exact comparison)',
                         'numpy fancy indexing / np.append promotion / astype as modelled in Model/Store.lean (compared on every run)',
                         'values are small integers: value conversion between the five dtypes is the identity except towards bool']
    ctx.assumptions += ['the source of a set_selection does not share memory with its target (numpy read-after-write order is not modelled)',
                        'no NaN in sort keys; conversions dicts have distinct old names (a Python dict)']
    # ---- bounded-exhaustive histories
    depth = ctx.n(4, 5)
    alphabet = EXH_ALPHABET
    bad = [(p, d, alphabet) for p, d in exhaustive(ctx, depth, alphabet)]
    ctx.extra['exhaustive_depth'] = depth
    ctx.extra['exhaustive_alphabet'] = len(alphabet)
    if ctx.thorough:
        # length 6 (the bound of the quantifier) over 9 letters (append, selection, in-place assignment, sort, raising rename, remove, and the three that hand in shared arrays)
        small = [EXH_ALPHABET[i] for i in (0, 3, 5, 6, 7, 9, 12, 13, 14)]
        bad += [(p, d, small) for p, d in exhaustive(ctx, 6, small)]
        ctx.extra['exhaustive_depth_small_alphabet'] = 6
        ctx.extra['exhaustive_small_alphabet'] = len(small)
    seen = set()
    for path, d, alph in sorted(bad, key=lambda x: len(x[0])):
        case = path_case(path, alph)
        r = table_check(case)
        sig = (r[1], r[0]) if r else ('corr', alph[path[-1]]['op'])
        if sig in seen:
            continue
        seen.add(sig)
        report(ctx, case, d)
    # ---- random sequences (correspondence + oracle)
    n_seq = ctx.n(150, 3000)
    disagreements = len(bad)
    batch, all_lines = [], []
    for i in range(n_seq):
        length = rng.choice([3, 6, 6, 10, 20, 40])
        ops = gen_sequence(rng, length)
        case = {'ops': ops}
        for op in ops:
            ctx.count('op:' + op['op'])
        ctx.count('random:len<=%d' % (10 if len(ops) <= 10 else 20 if len(ops) <= 20 else 40))
        ctx.case(key=('rand', ops), desc=case if i % 499 == 0 and len(ops) <= 6 else None)
        r = table_check(case)
        if r is not None:
            small = shrink(case, r[0])
            r2 = table_check(small) or r
            ctx.violation('table', small, r2[3], signature='C16/%s/%s' % (r2[1], r2[0]))
        lines, recs = corr_prepare(ops)
        batch.append((case, r, lines, recs, len(all_lines)))
        all_lines += lines
    out = ctx.driver('C16', all_lines)
    for case, r, lines, recs, off in batch:
        d = corr_eval(lines, recs, out[off:off + len(lines)])
        if d:
            disagreements += 1
            if r is None:
                report(ctx, case, d)
    ctx.extra['correspondence_disagreements'] = disagreements


MANIFEST = dict(
    text=('Lean theorems on a heap model of DataFieldRecordArray (heap of column arrays, containers = name -> location plus the '
          'three caches _field_name_list/_len/_indices maintained as coded): for every operation sequence the heap layer refines a '
          'plain table (c16_refines), the invariant (equal column lengths, field list = dict keys, indices absent or range(len), no '
          'location shared between two slots) is preserved (c16_inv_step), selections and copies are fresh (c16_selection_fresh, '
          'c16_copy_fresh). Arrays handed in by the caller may already be columns elsewhere: in any state every operation except '
          'set_selection leaves all existing arrays untouched (c16_rebind_ops_frame) and, without write-through, the plain tables are still '
          'refined (c16_refines_shared). The executable model is compared after every step with the real container (public accessors + '
          'np.shares_memory) on bounded-exhaustive and random operation sequences; a numpy-structured-array reference table is the '
          'failing-input oracle.'),
    note=('Values are small integers (dtype conversion modelled only as far as which column gets which dtype); set_selection whose source shares '
          'memory with its target is outside the model; numpy primitives (fancy indexing, np.append promotion, argsort) are modelled and compared, not verified.'),
    design='DESIGN.md section 4 C16',
    technique='Lean 4 refinement proof (heap layer vs. plain table, induction over operation lists) + exact model/implementation correspondence')
