"""C16 — the column container (skyllh.core.storage.DataFieldRecordArray) behaves like a plain table.

Correspondence: operation sequences on the real container vs. Model/Store.lean (Driver/C16.lean prints the
heap-layer state `stepH` and the plain-table state `stepT` after every step); exact comparison of what the
public accessors say (len, field_name_list, every column's dtype and values, `in`, indices) plus the
np.shares_memory graph against the model's `Loc` graph.
Property oracle (implementation only): the same sequence on a reference table held in a numpy structured
array (value semantics; a raising operation changes nothing)."""
import copy

import numpy as np

from harness import c16_r7_fixtures as r7
from harness import store_fixtures as sf
from harness.store_fixtures import UNIVERSE

MODEL_MODULES = ['SkyllhModel.Model.Store', 'SkyllhModel.Model.StoreIO', 'SkyllhModel.Model.StoreR7']

S = 'skyllh/core/storage.py::DataFieldRecordArray.'
# Python callable -> the executable Lean definitions mirroring it (compared with it on every run)
MODEL_MAP = {
    S + '__init__': ['Store.ctorLoop', 'Store.ctorField', 'Store.ctorLen', 'Store.ctorKept', 'Store.ctorConv', 'Store.ctorUpd',
                     'Store.ctorDict', 'Store.ctorTable', 'Store.stepCtorH', 'Store.stepCtorT', 'Store.sameKind', 'Store.tableOp'],
    'skyllh/core/storage.py::DictDataTableAccessor.get_length': ['Store.dictLength'],
    S + '__contains__': ['Store.dhas'],
    S + '__getitem__': ['Store.readField', 'Store.viewCont'],
    S + '__setitem__': ['Store.setItemCol', 'Store.tableOp', 'Store.stepX'],
    S + '__len__': ['Store.Cont'],
    S + 'field_name_list': ['Store.namesUpd'],
    S + 'indices': ['Store.idxUpd'],
    S + 'append': ['Store.appendCol', 'Store.npAppend', 'Store.promote', 'Store.tableOp'],
    S + 'append_field': ['Store.tableOp', 'Store.bindNew'],
    S + 'as_numpy_record_array': ['Store.asRecord', 'Store.recordCol'],
    S + 'copy': ['Store.copyCols', 'Store.ctorTable'],
    S + 'remove_field': ['Store.dpop', 'Store.tableOp'],
    S + 'set_field_dtype': ['Store.setDtypeCol', 'Store.castCol'],
    S + 'convert_dtypes': ['Store.convertCol', 'Store.castCol'],
    S + 'get_selection': ['Store.selColE', 'Store.selCol', 'Store.selPositions', 'Store.gatherE'],
    S + 'set_selection': ['Store.srcCol', 'Store.putCol', 'Store.putSel', 'Store.scatter', 'Store.roBlocked', 'Store.stepXR'],
    S + 'rename_fields': ['Store.renameLoop'],
    S + 'tidy_up': ['Store.tableOp'],
    S + 'sort_by_field': ['Store.sortCol', 'Store.isPerm', 'Store.nondecr'],
}


def generated(ctx):
    """signature defaults of the constructor / copy / rename_fields and the keyword sets of the two internal constructor calls,
    read from the current source (Props/C16.lean: c16_ctor_defaults_for_current_source)"""
    return r7.generated_text(ctx)

DTS = ['b', 'i16', 'i64', 'f32', 'f64']


# ------------------------------------------------------------------------------------------
# generators

def gen_col(rng, n, dt=None):
    dt = dt or rng.choice(DTS)
    if dt == 'b':
        v = [rng.randrange(2) for _ in range(n)]
    else:
        lo, hi = rng.choice([(-3, 3), (-9, 9), (0, 2), (-99, 99)])
        v = [rng.randint(lo, hi) for _ in range(n)]
    col = {'dt': dt, 'v': v}
    if rng.random() < 0.3:
        col['layout'] = rng.choice(['strided', 'reversed', 'struct'])      # memory layout of the array handed in
    return col


def gen_sel(rng, n, valid=True):
    r = rng.random()
    if r < 0.45:
        m = [1 if rng.random() < rng.choice([0.2, 0.5, 0.9]) else 0 for _ in range(n)]
        if not valid:
            m = m + [1] if rng.random() < 0.5 or not m else m[:-1]
        return {'k': 'm', 'v': m}
    k = rng.choice([0, 1, 1, 2, 3, n, n + 2])
    if n == 0:
        v = [] if valid else [0]
    else:
        v = [rng.randrange(-n, n) for _ in range(k)]
        if not valid:
            v.insert(rng.randrange(len(v) + 1), rng.choice([n, -n - 1, n + 5]))
    return {'k': 'i', 'v': v}


def npos(sel, n):
    return sum(sel['v']) if sel['k'] == 'm' else len(sel['v'])


# pairs (a, b) of universe indices with name a a substring of name b
SUBSTR = [(i, j) for i, a in enumerate(UNIVERSE) for j, b in enumerate(UNIVERSE) if i != j and a in b]


def gen_keep_arg(rng, have):
    """keep_fields in its documented forms: list / tuple of names, or one name as a plain str — preferably a name that
    contains (or is contained in) the name of another field of the table"""
    form = rng.choice(['list', 'list', 'tuple', 'str', 'str'])
    if form == 'str':
        rel = [j for i, j in SUBSTR if i in have and j in have] + [i for i, j in SUBSTR if i in have and j in have]
        pool = rel if rel and rng.random() < 0.8 else (have or list(range(len(UNIVERSE))))
        return [rng.choice(pool)], 'str'
    return [i for i in range(len(UNIVERSE)) if rng.random() < 0.6], form


def gen_new(rng, nrows=None, nfields=None):
    n = rng.choice([0, 1, 2, 3, 3, 5, 8, 13, 20, 50]) if nrows is None else nrows
    k = rng.randrange(1, 6) if nfields is None else nfields
    names = rng.sample(range(len(UNIVERSE)), k)
    if k >= 2 and rng.random() < 0.5:
        names[:2] = list(rng.choice(SUBSTR))          # two fields one of whose names is a substring of the other
        names = list(dict.fromkeys(names))
    cols = [[nm, gen_col(rng, n)] for nm in names]
    if len(cols) > 1 and rng.random() < 0.08:
        # constructor with field arrays of different lengths: 1 vs n, n vs 1, m vs n (must raise for copy=True and copy=False)
        i = rng.randrange(len(cols))
        m = rng.choice([1, 1, n + 1, max(0, n - 1), n + 3])
        if m == n:
            m = n + 1
        cols[i][1] = gen_col(rng, m, cols[i][1]['dt'])
    return {'op': 'new', 'cols': cols, 'nocopy': rng.random() < 0.3}


def ref_legal(tabs, op):
    """the reference-world counterpart of store_fixtures.legal"""
    if op['op'] != 'setSel':
        return True
    t, d = tabs[op['c']], tabs[op['d']]
    cs = [id(t.cells[n]) for n in t.names]
    if op['c'] == op['d']:
        return len(set(cs)) == len(cs)
    return not (set(cs) & set(id(d.cells[n]) for n in d.names))


def gen_sequence(rng, length):
    """random, mostly valid operation sequence; the reference tables are advanced alongside to know the state"""
    tabs, ops = [], []

    def emit(op):
        if not ref_legal(tabs, op):
            return
        ops.append(op)
        r7.ref_apply(tabs, op)

    while not tabs:
        emit(gen_new(rng))          # (a constructor call with unequal lengths raises and creates nothing)
    if rng.random() < 0.6:
        # a second table with (mostly) the same fields, so append / set_selection have a partner
        cols = [[UNIVERSE.index(nm), gen_col(rng, rng.choice([0, 1, 2, 4]), None if rng.random() < 0.5 else sf.dtname(a.dtype))]
                for nm, a in tabs[0].pairs()]
        if rng.random() < 0.2 and len(cols) > 1:
            cols.pop(rng.randrange(len(cols)))
        if rng.random() < 0.3:
            extra = [i for i in range(len(UNIVERSE)) if i not in [c[0] for c in cols]]
            n0 = len(cols[0][1]['v'])
            cols.append([rng.choice(extra), gen_col(rng, n0)])
        n0 = len(cols[0][1]['v'])
        for c in cols:
            c[1] = gen_col(rng, n0, c[1]['dt'])
        emit({'op': 'new', 'cols': cols})
    while len(ops) < length:
        c = rng.randrange(len(tabs))
        t = tabs[c]
        have = [UNIVERSE.index(nm) for nm in t.names]
        other = [i for i in range(len(UNIVERSE)) if i not in have]
        bad = rng.random() < 0.12
        anyname = lambda: rng.choice(other if (bad and other) or not have else have)   # noqa: E731
        newname = lambda: rng.choice(have if (bad and have) or not other else other)   # noqa: E731
        k = rng.choice(['append', 'append', 'appendField', 'setItem', 'setItem', 'removeField', 'rename', 'rename',
                        'tidyUp', 'getSel', 'getSel', 'setSel', 'setSel', 'sortBy', 'sortBy', 'copy', 'setDtype',
                        'convert', 'indices', 'indices', 'new', 'ctor', 'ctor', 'appendFieldFrom', 'setItemFrom', 'setItemFrom', 'newShared', 'freeze', 'poke', 'poke'])
        if k in ('getSel', 'copy', 'new', 'newShared', 'ctor') and len(tabs) >= 6:
            k = 'indices'
        if k == 'append':
            # partners having all fields of t (unless a bad one is wanted); bounded growth
            cand = [i for i, d in enumerate(tabs) if all(nm in d.names for nm in t.names)]
            if bad or not cand:
                cand = list(range(len(tabs)))
            d = rng.choice(cand)
            if t.n + tabs[d].n > 120:
                continue
            emit({'op': 'append', 'c': c, 'd': d})
        elif k == 'appendField':
            fault = rng.choice(['name', 'length', 'length', 'both']) if bad else None
            nm_ = rng.choice(have) if (fault in ('name', 'both') and have) else (rng.choice(other) if other else rng.choice(have))
            emit({'op': 'appendField', 'c': c, 'n': nm_, 'col': gen_col(rng, t.n + (rng.choice([1, 2]) if fault in ('length', 'both') else 0))})
        elif k == 'setItem':
            emit({'op': 'setItem', 'c': c, 'n': rng.choice(have + other[:1]) if have else newname(),
                  'col': gen_col(rng, t.n + (1 if bad else 0))})
        elif k == 'removeField':
            emit({'op': 'removeField', 'c': c, 'n': anyname()})
        elif k == 'rename':
            m = rng.choice([1, 1, 2, 3])
            olds = rng.sample(range(len(UNIVERSE)), m) if bad or not have else \
                (rng.sample(have, min(m, len(have))) + ([rng.choice(other)] if other and rng.random() < 0.3 else []))
            rng.shuffle(olds)
            news = [rng.choice(other) if other and rng.random() < 0.8 else rng.randrange(len(UNIVERSE)) for _ in olds]
            if have and len(other) >= 2 and rng.random() < 0.3:
                # a chain inside one dict: the new name of an entry is the old name of a later entry and no field before the
                # call (membership is decided against the field list as it was before the call: no chaining)
                b_, c_ = rng.sample(other, 2)
                olds, news = [rng.choice(have), b_], [b_, c_]
            emit({'op': 'rename', 'c': c, 'convs': [[o, n] for o, n in zip(olds, news)], 'must': rng.random() < 0.5})
        elif k == 'tidyUp':
            keep, form = gen_keep_arg(rng, have)
            emit({'op': 'tidyUp', 'c': c, 'keep': keep, 'form': form})
        elif k == 'getSel':
            emit({'op': 'getSel', 'c': c, 'sel': gen_sel(rng, t.n, valid=not bad), 'via_getitem': rng.random() < 0.5})
        elif k == 'setSel':
            sel = gen_sel(rng, t.n, valid=not (bad and rng.random() < 0.5))
            k_pos = npos(sel, t.n)
            cand = [i for i, d in enumerate(tabs) if all(nm in d.names for nm in t.names) and d.n in (k_pos, 1)]
            if bad or not cand:
                if rng.random() < 0.7 and len(tabs) < 6 and t.names:
                    # make a fitting source on the fly
                    src = {'op': 'new', 'cols': [[UNIVERSE.index(nm), gen_col(rng, k_pos)] for nm in t.names]}
                    if bad and len(src['cols']) > 1:
                        src['cols'].pop(rng.randrange(len(src['cols'])))
                    emit(src)
                    cand = [len(tabs) - 1]
                else:
                    cand = list(range(len(tabs)))
            emit({'op': 'setSel', 'c': c, 'sel': sel, 'd': rng.choice(cand), 'via_setitem': rng.random() < 0.5})
        elif k == 'sortBy':
            emit({'op': 'sortBy', 'c': c, 'n': anyname()})
        elif k == 'copy':
            (keep, form) = (None, None) if rng.random() < 0.4 else gen_keep_arg(rng, have)
            emit({'op': 'copy', 'c': c, 'keep': keep, 'form': form, 'via_ctor': rng.random() < 0.4})
        elif k == 'setDtype':
            emit({'op': 'setDtype', 'c': c, 'n': anyname(), 'dt': rng.choice(DTS)})
        elif k == 'convert':
            m = rng.choice([1, 2])
            olds = rng.sample(DTS, m)
            emit({'op': 'convert', 'c': c, 'convs': [[o, rng.choice(DTS)] for o in olds],
                  'exc': [i for i in have if rng.random() < 0.3], 'form': rng.choice(['list', 'tuple'])})
        elif k == 'indices':
            emit({'op': 'indices', 'c': c})
        elif k == 'new':
            emit(gen_new(rng))
        elif k == 'ctor':
            # the constructor with its options on a live container (copy=False: the new table holds the same arrays)
            emit(r7.gen_ctor_op(rng, c, have))
        elif k in ('appendFieldFrom', 'setItemFrom'):
            # the handed-in array IS a column of the same table or of another live table (same length preferred)
            cand = [(i, UNIVERSE.index(nm)) for i, d in enumerate(tabs) for nm in d.names if bad or d.n == t.n]
            if not cand:
                continue
            d, m = rng.choice(cand)
            if k == 'appendFieldFrom':
                n = rng.choice(have) if (bad and have and rng.random() < 0.4) else (rng.choice(other) if other else rng.choice(have))
            else:
                n = rng.choice(have + other[:1]) if have else newname()
            emit({'op': k, 'c': c, 'n': n, 'd': d, 'm': m})
        elif k == 'newShared':
            emit({'op': 'newShared', 'd': c, 'm': anyname()})
        elif k == 'poke':
            # the caller writes into the array it got from __getitem__
            emit({'op': 'poke', 'd': c, 'm': anyname(), 'k': rng.randrange(0, t.n + (2 if bad else 0) + (0 if t.n else 1)) if (t.n or bad) else 0,
                  'v': rng.randint(-9, 9)})
        elif k == 'freeze':
            if have:
                emit({'op': 'freeze', 'd': c, 'm': rng.choice(have)})     # this column becomes a read-only array
    return ops


# the finite alphabet of the bounded-exhaustive enumeration (container -1 = the most recent one)
EXH_INIT = [
    {'op': 'new', 'cols': [[0, {'dt': 'i64', 'v': [2, 1]}], [1, {'dt': 'f32', 'v': [5, 6]}]]},
    {'op': 'new', 'cols': [[0, {'dt': 'i16', 'v': [7]}]]},
]
EXH_ALPHABET = [
    {'op': 'append', 'c': 0, 'd': 0},
    {'op': 'append', 'c': 0, 'd': 1},                                   # partner misses a field: KeyError
    {'op': 'indices', 'c': 0},
    {'op': 'getSel', 'c': 0, 'sel': {'k': 'i', 'v': [-1, 0]}},
    {'op': 'setSel', 'c': 0, 'sel': {'k': 'i', 'v': [0]}, 'd': 1},      # partner misses a field: KeyError
    {'op': 'setSel', 'c': 0, 'sel': {'k': 'i', 'v': [1, 0]}, 'd': -1},
    {'op': 'sortBy', 'c': 0, 'n': 0},
    {'op': 'rename', 'c': 0, 'convs': [[0, 2], [7, 3]], 'must': True},  # second field missing: KeyError
    {'op': 'rename', 'c': 0, 'convs': [[1, 0]], 'must': False},         # collision with an existing name
    {'op': 'removeField', 'c': 0, 'n': 1},
    {'op': 'setItem', 'c': 0, 'n': 1, 'col': {'dt': 'b', 'v': [1, 0]}},
    {'op': 'copy', 'c': 0, 'keep': [1]},
    {'op': 'appendFieldFrom', 'c': 0, 'n': 2, 'd': 0, 'm': 0},          # a column of the table itself handed in again
    {'op': 'setItemFrom', 'c': 0, 'n': 1, 'd': -1, 'm': 0},             # a column of another live table handed in
    {'op': 'newShared', 'd': 0, 'm': 0},                                # the caller keeps t[0] (copy=False constructor)
]


# every operation kind, failing variants included (used to depth 3 / 4)
EXH_FULL = EXH_ALPHABET + [
    {'op': 'setDtype', 'c': 0, 'n': 0, 'dt': 'f32'},
    {'op': 'setDtype', 'c': 0, 'n': 0, 'dt': 'i64'},                    # same dtype: astype(copy=False) keeps the array object
    {'op': 'tidyUp', 'c': 0, 'keep': [0, 2]},
    {'op': 'convert', 'c': 0, 'convs': [['f32', 'f64'], ['i64', 'i16']], 'exc': []},
    {'op': 'getSel', 'c': 0, 'sel': {'k': 'm', 'v': [1, 0]}},           # mask: raises unless the table has two rows
    {'op': 'appendField', 'c': 0, 'n': 4, 'col': {'dt': 'b', 'v': [1, 0]}},      # sin_dec next to dec
    {'op': 'copy', 'c': 0, 'keep': None},
    {'op': 'freeze', 'd': 0, 'm': 0},                                   # column 0 becomes a read-only array
    {'op': 'new', 'cols': [[0, {'dt': 'i64', 'v': [1, 2, 3]}], [1, {'dt': 'f32', 'v': [4]}]]},   # unequal lengths: raises
    {'op': 'sortBy', 'c': 0, 'n': 5},                                   # missing key field: raises
    {'op': 'poke', 'd': 0, 'm': 0, 'k': 1, 'v': 9},                     # the caller writes into t['ra'] (live array)
    {'op': 'tidyUp', 'c': 0, 'keep': [4], 'form': 'str'},               # one name as a plain str (sin_dec; dec is a substring)
    {'op': 'copy', 'c': 0, 'keep': [5], 'form': 'str', 'via_ctor': True},   # true_ra as a plain str through the constructor
    {'op': 'rename', 'c': 0, 'convs': [[0, 5], [1, 4]], 'must': False},  # ra -> true_ra, dec -> sin_dec
    {'op': 'tidyUp', 'c': 0, 'keep': [1, 0], 'form': 'tuple'},
    {'op': 'rename', 'c': 0, 'convs': [[0, 2], [2, 3]], 'must': False},  # a chain in one dict (ra -> time, time -> run): not chained
    # the constructor with options on the live table: 'ra' is the same array object in both, 'dec' converted (fresh), others dropped
    {'op': 'ctor', 'd': 0, 'keep': [1, 0], 'keep_form': 'tuple', 'convs': [['f32', 'f64'], ['b', 'i16']], 'exc': None, 'exc_form': None, 'copy': False},
]
# a second start: three rows with a bool and a float64 column, and an empty partner
EXH_INIT_B = [
    {'op': 'new', 'cols': [[0, {'dt': 'f64', 'v': [2, 1, 2]}], [1, {'dt': 'b', 'v': [1, 0, 1]}]], 'nocopy': True},
    {'op': 'new', 'cols': [[0, {'dt': 'i16', 'v': []}], [1, {'dt': 'f32', 'v': []}]]},
]


def resolve(op, nconts):
    if op.get('d', 0) == -1:
        op = dict(op)
        op['d'] = nconts - 1
    return op


# ------------------------------------------------------------------------------------------
# property oracle: implementation vs. reference table

def _bytes(arr):
    return (str(arr.dtype), arr.shape, np.ascontiguousarray(arr).tobytes())


STRUCTURAL = ('new', 'getSel', 'copy', 'newShared', 'poke', 'ctor')


def table_check(case):
    """None | (mode, opname, step, text)"""
    conts, tabs, rows, held = [], [], [], []
    for k, op in enumerate(case['ops']):
        try:
            op = resolve(op, len(conts))
            if not sf.legal(conts, op):
                return None      # outside the model (see store_fixtures.legal)
            # arrays the caller legitimately holds: handed in / kept earlier, and the columns of all other containers
            before = [('caller-held array #%d' % i, a, _bytes(a)) for i, a in enumerate(held)]
            tgt = op.get('c') if op['op'] not in STRUCTURAL + ('freeze',) else None
            tgt_arrays = sf.cont_arrays(conts[tgt]) if tgt is not None and 0 <= tgt < len(conts) else []
            order_before = list(conts[tgt].field_name_list) if tgt is not None and 0 <= tgt < len(conts) else None
            for ci, a in enumerate(conts):
                if ci != tgt:
                    before += [('column %r of container %d' % (n, ci), a[n], _bytes(a[n])) for n in a.field_name_list if n in a]
            blocked = (op['op'] == 'setSel' and 0 <= op['c'] < len(tabs)
                       and any(tabs[op['c']].cells[nm].ro for nm in tabs[op['c']].names))
            if op['op'] == 'poke' and 0 <= op['d'] < len(tabs):
                nm_ = UNIVERSE[op['m']]
                blocked = nm_ in tabs[op['d']].names and tabs[op['d']].cells[nm_].ro
                tgt_arrays = [conts[op['d']][nm_]] if nm_ in conts[op['d']] else []
            ri = r7.impl_apply(conts, op, held)
            impl_perm = ri[1][1] if (op['op'] == 'sortBy' and ri[0] == 'ok') else None
            rr = r7.ref_apply(tabs, op, impl_out=impl_perm)
            rw = r7.row_apply(rows, op, impl_out=impl_perm, blocked=blocked, impl_ok=(ri[0] == 'ok'))
            if op['op'] == 'setSel' and rr[0] == 'ok':
                for ci in sf.written_shared(tabs, op['c']):
                    rows[ci] = None      # the row store has value semantics: these tables are no longer comparable
            if op['op'] == 'poke' and rr[0] == 'ok':
                for ci in sf.written_shared(tabs, op['d'], only=UNIVERSE[op['m']]):
                    rows[ci] = None
        except (IndexError, AssertionError):
            return None          # malformed (shrunk) case
        except KeyError:
            if op['op'] == 'freeze':
                return None
            raise
        name = op['op']
        where = 'step %d (%s)' % (k, r7.op_line(op, impl_perm))
        # every other table and every caller-held array is byte-identical unless the operation writes through
        for what, arr, b in before:
            if _bytes(arr) != b:
                if name in ('setSel', 'poke') and ri[0] == 'ok' and sf.shares([arr], tgt_arrays):
                    continue     # set_selection is documented to assign into the arrays of its target
                return ('modified-in-place', name, k, '%s: %s was modified in place (%r -> %r) although %s %s' % (
                    where, what, np.frombuffer(b[2], dtype=arr.dtype).tolist()[:8], arr.tolist()[:8], name,
                    'raised' if ri[0] == 'err' else 'rebinds its columns'))
        if rr == ('err', 'perm'):
            return ('bad-permutation', name, k, '%s: sort_by_field returned %r which is not a sorting permutation of the key column' % (where, impl_perm))
        for refname, r_ in (('the table of array cells', rr), ('the row store (numpy structured array)', rw)):
            if r_ is None:
                continue
            if ri[0] != r_[0] or (ri[0] == 'err' and not sf.err_match(ri[1], r_[1])):
                mode = ('raises-' + ri[1]) if ri[0] == 'err' else 'no-raise'
                return (mode, name, k, '%s: the container answers %r, %s answers %r' % (where, ri, refname, r_))
            if ri[0] == 'ok' and ri[1] != r_[1]:
                return ('wrong-result', name, k, '%s: returned %r, %s returns %r' % (where, ri[1], refname, r_[1]))
        for ci, a in enumerate(conts):
            got = sf.snap(a)
            for refname, want in (('the table of array cells', tabs[ci].snap()),
                                  ('the row store (numpy structured array)', rows[ci].snap() if rows[ci] is not None else None)):
                if want is None:
                    continue
                d = sf.snap_diff(got, want)
                if d:
                    mode = sf.diff_mode(d, got)
                    if ri[0] == 'err':
                        mode = 'changed-on-error/' + mode
                    return (mode, name, k, '%s: container %d differs from %s in %r after %s: container %r, reference %r' % (
                        where, ci, refname, d, 'the failed operation' if ri[0] == 'err' else 'the operation', got[d], want[d]))
        # field order: operations that do not rename keep the relative order of the surviving fields
        if order_before is not None and name != 'rename':
            now = [n for n in conts[tgt].field_name_list if n in order_before]
            was = [n for n in order_before if n in now]
            if now != was:
                return ('field-order', name, k, '%s: the relative order of the fields changed from %r to %r' % (where, was, now))
        # memory sharing: never more than the slots that were bound to one handed-in array object
        sh = set(tuple(sorted([tuple(p[0]), tuple(p[1])])) for p in sf.sharing(conts))
        cells = {}
        for ci, t in enumerate(tabs):
            for n in t.names:
                if t.cells[n].a.size:
                    cells.setdefault(id(t.cells[n]), []).append([ci, n])
        want_sh = _pairs(cells.values())
        if not sh <= want_sh:
            return ('shared-memory', name, k, '%s: columns share memory that were never bound to one array: %r' % (where, sorted(sh - want_sh)[:3]))
        if sh != want_sh:
            DIAG['less_sharing_than_model'] += 1
    return None


def o_table(ctx, case):
    r = table_check(case)
    return None if r is None else r[3]


def shrink(case, mode):
    r = table_check(case)
    if r is None:
        return case
    ops = list(case['ops'][:r[2] + 1])
    i = len(ops) - 2
    while i >= 0:
        cand = ops[:i] + ops[i + 1:]
        # removing a container-creating op shifts the ids of later containers: only try when nothing refers past it
        rr = None
        if ops[i]['op'] not in ('new', 'getSel', 'copy', 'ctor'):
            rr = table_check({'ops': cand})
        if rr is not None and rr[0] == mode:
            ops = cand
        i -= 1
    return {'ops': ops}


# ------------------------------------------------------------------------------------------
# correspondence: implementation vs. Lean model

def corr_prepare(ops):
    """run one linear sequence on the implementation; returns (request lines, per-step records)"""
    conts, lines, recs = [], ['reset'], []
    for op in ops:
        op = resolve(op, len(conts))
        if not sf.legal(conts, op):
            break
        ri = r7.impl_apply(conts, op)
        perm = ri[1][1] if (op['op'] == 'sortBy' and ri[0] == 'ok') else None
        lines.append(r7.op_line(op, perm))
        recs.append((op, ri, [sf.snap(a) for a in conts], sf.sharing(conts)))
    return lines, recs


def corr_prepare_rec(ops):
    """corr_prepare + at the end of the history one read-only `record i` request per container
    (as_numpy_record_array vs. asRecord of the heap model); returns (lines, recs, [implementation's record arrays])"""
    conts, lines, recs = [], ['reset'], []
    for op in ops:
        op = resolve(op, len(conts))
        if not sf.legal(conts, op):
            break
        ri = r7.impl_apply(conts, op)
        perm = ri[1][1] if (op['op'] == 'sortBy' and ri[0] == 'ok') else None
        lines.append(r7.op_line(op, perm))
        recs.append((op, ri, [sf.snap(a) for a in conts], sf.sharing(conts)))
    rec_impl = []
    for ci, a in enumerate(conts):
        if all(n in a for n in a.field_name_list):
            lines.append('record %d' % ci)
            rec_impl.append(r7.record_snap(a))
    return lines, recs, rec_impl


def corr_eval(lines, recs, out):
    taint = set()
    for k, ((op, ri, snaps, share), ans) in enumerate(zip(recs, out[1:])):
        d = compare_step(op, ri, snaps, share, ans, taint)
        if d:
            return 'step %d (%s): %s' % (k, lines[k + 1], d)
    return None


def corr_sequence(ctx, ops):
    """run one linear sequence on the implementation and on the model; returns None | text"""
    lines, recs = corr_prepare(ops)
    return corr_eval(lines, recs, ctx.driver('C16', lines))


DIAG = {'less_sharing_than_model': 0, 'double_fault_other_exception': 0}
ACC_BAD = []      # exhaustive nodes at which a read-only accessor (str, as_numpy_record_array, ...) misbehaved


def _pairs(groups):
    return set(tuple(sorted([tuple(v[i]), tuple(v[j])])) for v in groups for i in range(len(v)) for j in range(i + 1, len(v)))


def compare_step(op, ri, snaps, share, ans, taint=None):
    """taint: set of container ids whose plain-table reading is no longer the reference (a set_selection wrote through a
    location bound in more than one slot of / derived into this container); the heap layer always is."""
    taint = taint if taint is not None else set()
    k = op['op']
    if ans == 'bad-op':
        return 'driver does not understand the request'
    if k == 'freeze':
        # (freezing a column that does not exist: KeyError from __getitem__ on both sides)
        ok = (ans == 'ok' and ri[0] == 'ok') or (ans == 'no-such-column' and ri[0] == 'err')
        return None if ok else 'freeze: implementation %r, model answers %r' % (ri, ans)
    head, hd, td = ans.split(' | ')
    hres, tres = [sf.parse_res(x.split('=', 1)[1], k) for x in head.split(' ')]
    ri = (ri[0], list(ri[1]) if ri[0] == 'ok' else ri[1])
    hs, locs = sf.parse_H(hd)
    ts = sf.parse_T(td)
    byloc = {}
    for ci, nm, loc in locs:
        byloc.setdefault(loc, []).append([ci, nm])
    # ---- which containers the plain tables still describe
    src = [op[x] for x in ('c', 'd') if isinstance(op.get(x), int)]
    dirty_in = any(i in taint for i in src)
    if k == 'poke':
        dirty_in = False        # (the outcome of a caller's write does not depend on values)
    if ri[0] == 'ok':
        if k == 'setSel':
            for ci, nm, loc in locs:
                if ci == op['c'] and len(byloc[loc]) > 1:
                    taint.update(x[0] for x in byloc[loc])
        if k == 'poke':
            for ci, nm, loc in locs:
                if ci == op['d'] and nm == UNIVERSE[op['m']] and len(byloc[loc]) > 1:
                    taint.update(x[0] for x in byloc[loc])
        if dirty_in:
            if k in ('getSel', 'copy', 'newShared', 'ctor'):
                taint.add(len(hs) - 1)
            elif k not in ('indices',):
                taint.add(op['c'])
    for nm, mr in (('heap model', hres), ('table model', tres)):
        if nm == 'table model' and dirty_in:
            continue
        if ri != (mr[0], mr[1]):
            if (ri[0] == 'err' and mr[0] == 'err' and k in ('appendField', 'appendFieldFrom')
                    and {ri[1], mr[1]} == {'key', 'value'}):
                DIAG['double_fault_other_exception'] += 1      # two independent guards fail: either exception is fine
                continue
            return 'implementation answers %r, %s answers %r' % (ri, nm, mr)
    if len(hs) != len(snaps) or len(ts) != len(snaps):
        return 'number of containers: implementation %d, heap model %d, table model %d' % (len(snaps), len(hs), len(ts))
    for ci, (g, h, t) in enumerate(zip(snaps, hs, ts)):
        d = sf.snap_diff(g, h)
        if d:
            return 'container %d, %r: implementation %r, heap model %r' % (ci, d, g[d], h[d])
        d = None if ci in taint else sf.snap_diff(g, t)
        if d:
            return 'container %d, %r: implementation %r, table model %r' % (ci, d, g[d], t[d])
    empty = set((ci, c[0]) for ci, g in enumerate(snaps) for c in g['cols'] if c[2] is not None and len(c[2]) == 0)
    pred = set(p for p in _pairs(byloc.values()) if p[0] not in empty and p[1] not in empty)
    got = set(tuple(sorted([tuple(a), tuple(b)])) for a, b in share)
    if not got <= pred:
        return 'columns share memory that the heap model keeps apart: %r (model: %r)' % (sorted(got - pred)[:3], sorted(pred)[:3])
    if got != pred:
        DIAG['less_sharing_than_model'] += 1     # e.g. a method that copies its input: allowed by the property
    return None


def o_corr(ctx, case):
    return corr_sequence(ctx, case['ops'])


def o_accessors(ctx, case):
    r = r7.accessors_after_each_step(case['ops'], resolve)
    return None if r is None else r[2]


def shrink_accessors(case, mode):
    r = r7.accessors_after_each_step(case['ops'], resolve)
    if r is None:
        return case
    ops = list(case['ops'][:r[1] + 1])
    i = len(ops) - 1
    while i >= 0:
        cand = ops[:i] + ops[i + 1:]
        rr = r7.accessors_after_each_step(cand, resolve) if ops[i]['op'] not in ('new', 'getSel', 'copy', 'ctor') or i == len(ops) - 1 else None
        if rr is not None and rr[0] == mode:
            ops = cand
        i -= 1
    return {'ops': ops}


def report_accessors(ctx, case, seen):
    r = r7.accessors_after_each_step(case['ops'], resolve)
    if r is None or r[0] in seen:
        return
    seen.add(r[0])
    small = shrink_accessors(case, r[0])
    r2 = r7.accessors_after_each_step(small['ops'], resolve) or r
    ctx.violation('accessors', small, r2[2], signature='C16/accessors/%s' % r2[0])


ORACLES = {'table': o_table, 'corr': o_corr, 'ctor': r7.o_ctor, 'ctor_corr': r7.o_ctor_corr, 'accessors': o_accessors}


# ------------------------------------------------------------------------------------------

def exhaustive(ctx, depth, alphabet, init=None):
    """depth-first enumeration of all sequences over the alphabet up to `depth`, sharing prefixes:
    the implementation state is deep-copied per node, the model state is saved with push/pop.
    The enumeration is cut by first letter; the chunks are sent to the driver in batches of at most ~60 k nodes
    (one driver start costs 0.5 s; the batches bound the memory)."""
    init = init or EXH_INIT
    bad, pend, npend = [], [], 0

    def flush():
        if not pend:
            return
        all_lines = [l for lines, _, _ in pend for l in lines]
        answers = ctx.driver('C16', all_lines)
        off = 0
        for lines, nodes, first in pend:
            bad.extend(_exh_eval(ctx, depth, alphabet, first, init, lines, nodes, answers[off:off + len(lines)]))
            off += len(lines)
        del pend[:]

    for first in range(len(alphabet)):
        lines, nodes = _exh_chunk(ctx, depth, alphabet, first, init)
        pend.append((lines, nodes, first))
        npend += len(nodes)
        if npend > 60000:
            flush()
            npend = 0
    flush()
    return bad


def _exh_chunk(ctx, depth, alphabet, first, init):
    conts = []
    lines = ['reset']
    nodes = []        # (path, op, ri, snaps, share) in the order of the op lines
    for op in init:
        ri = r7.impl_apply(conts, op)
        lines.append(r7.op_line(op))
        nodes.append(((), op, ri, [sf.snap(a) for a in conts], sf.sharing(conts)))

    def rec(conts, path):
        if len(path) == depth:
            return
        for ai, op0 in enumerate(alphabet):
            if not path and ai != first:
                continue
            cs = sf.clone(conts)
            op = resolve(op0, len(cs))
            if not sf.legal(cs, op):
                ctx.count('exhaustive:skipped(set_selection source shares memory with target)')
                continue
            ri = r7.impl_apply(cs, op)
            # (accessors at the nodes up to length 4 — all nodes of the quick tier; deeper nodes are covered by the random histories)
            for ci_ in (set([len(cs) - 1] + ([op['c']] if isinstance(op.get('c'), int) and 0 <= op['c'] < len(cs) else []))
                        if len(path) < 4 else ()):
                ra = r7.accessor_check(cs[ci_])
                if ra is not None:
                    ACC_BAD.append((path + (ai,), alphabet, init))
                    ctx.count('accessors:failed')
                else:
                    ctx.count('accessors:checked')
            perm = ri[1][1] if (op['op'] == 'sortBy' and ri[0] == 'ok') else None
            lines.append('push')
            lines.append(r7.op_line(op, perm))
            p = path + (ai,)
            nodes.append((p, op, ri, [sf.snap(a) for a in cs], sf.sharing(cs)))
            if len(cs) <= 5:
                rec(cs, p)
            lines.append('pop')
    rec(conts, ())
    return lines, nodes


def _exh_eval(ctx, depth, alphabet, first, init, lines, nodes, answers):
    out = [a for a, l in zip(answers, lines) if l not in ('reset', 'push', 'pop')]
    assert len(out) == len(nodes)
    bad = []
    tainted = {(): set()}
    for (path, op, ri, snaps, share), ans in zip(nodes, out):
        taint = set(tainted.get(path[:-1], set())) if path else set()
        ctx.count('outcome:%s:%s' % (op['op'], ri[0] if ri[0] == 'ok' else 'err-' + str(ri[1])))
        if not path and first:
            continue
        ctx.count('exhaustive:len=%d' % len(path))
        ctx.case(key=('exh', len(alphabet), init[0]['cols'][0][1]['dt'], path), desc={'exhaustive_path': [alphabet[i]['op'] for i in path]} if len(path) == depth and ctx.evaluations % 40001 == 0 else None)
        d = compare_step(op, ri, snaps, share, ans, taint)
        tainted[path] = taint
        if d:
            bad.append((path, d))
    return bad


def path_case(path, alphabet, init=None):
    return {'ops': (init or EXH_INIT) + [alphabet[i] for i in path]}


def report(ctx, case, d):
    """a model/implementation disagreement: look for a failing input with the property oracle"""
    r = table_check(case)
    if r is not None:
        case = shrink(case, r[0])
        r = table_check(case) or r
        ctx.violation('table', case, r[3], signature='C16/%s/%s' % (r[1], r[0]))
    else:
        ctx.violation('corr', case, 'model and implementation disagree (%s) but the reference table agrees with the implementation' % d,
                      kind='correspondence', relation='exact: public accessors + memory sharing, per step',
                      signature='C16/corr/' + case['ops'][-1]['op'], no_failing_input=True)


def run(ctx):
    rng = ctx.rng
    ctx.rule = ('operation sequences over the public methods of DataFieldRecordArray (append, append_field, __setitem__, '
                'remove_field, rename_fields, tidy_up, get_selection/__getitem__, set_selection/__setitem__, sort_by_field, copy, '
                'set_field_dtype, convert_dtypes, indices, constructor) on 1..6 containers with 0..50 rows, 1..5 fields of '
                'bool/int16/int64/float32/float64; ~12% of the operations are invalid on purpose (missing field, wrong length, '
                'bad index); append_field / __setitem__ / constructor(copy=False) also with an array that already is a column of the same or of '
                'another live container or that the caller keeps; the constructor with its options (keep_fields, dtype_conversions, except fields, copy '
                'given / omitted) on a dict (values of unequal lengths included), a structured ndarray, a live container (also inside histories); '
                'str / as_numpy_record_array / get_field_dtype / sizeof on every container after every step. Bounded-exhaustive: all sequences over a 15-letter alphabet of concrete operations; random: '
                'lengths up to 40. Distinct = distinct operation sequence.')
    ctx.trusted_base += ['correspondence harness harness/props/c16.py + harness/store_fixtures.py (exact comparison)',
                         'numpy fancy indexing / np.append promotion / astype as modelled in Model/Store.lean (compared on every run)',
                         'values are small integers: value conversion between the five dtypes is the identity except towards bool',
                         "np.can_cast(..., 'same_kind') on the five dtypes as tabulated in Model/StoreR7.lean sameKind (np.copyto in the constructor; compared on every run)",
                         'harness/c16_r7_fixtures.py (constructor cases, ast extraction of defaults / cache writers, accessor oracle)']
    ctx.assumptions += ['the source of a set_selection does not share memory with its target (numpy read-after-write order is not modelled)',
                        'no NaN in sort keys; conversions dicts have distinct old names (a Python dict)']
    # ---- bounded-exhaustive histories
    depth = ctx.n(4, 5)
    # quick: 12 of the 15 core letters (the other three are in EXH_FULL); thorough: all 15
    alphabet = EXH_ALPHABET if ctx.thorough else [EXH_ALPHABET[i] for i in (0, 1, 2, 3, 4, 5, 6, 7, 9, 12, 13, 14)]
    bad = [(p, d, alphabet, EXH_INIT) for p, d in exhaustive(ctx, depth, alphabet)]
    # every operation kind (dtype conversion, tidy_up, masks, fresh append_field, copy(), read-only, failing constructor / sort)
    if ctx.thorough:
        dfull = 3
        bad += [(p, d, EXH_FULL, EXH_INIT) for p, d in exhaustive(ctx, dfull, EXH_FULL)]
    else:
        # quick: all pairs over the full alphabet, all triples over the letters outside the core + four core letters
        dfull = 2
        bad += [(p, d, EXH_FULL, EXH_INIT) for p, d in exhaustive(ctx, 2, EXH_FULL)]
        extra = EXH_FULL[len(EXH_ALPHABET):] + [EXH_ALPHABET[i] for i in (0, 5, 6, 9)]
        bad += [(p, d, extra, EXH_INIT) for p, d in exhaustive(ctx, 3, extra)]
        ctx.extra['exhaustive_extra_alphabet_depth3'] = len(extra)
    ctx.extra['exhaustive_depth'] = depth
    ctx.extra['exhaustive_alphabet'] = len(alphabet)
    ctx.extra['exhaustive_full_alphabet'] = len(EXH_FULL)
    ctx.extra['exhaustive_full_depth'] = dfull
    if ctx.thorough:
        # length 6 (the bound of the quantifier) over 9 letters (append, selection, in-place assignment, sort, raising rename, remove, and the three that hand in shared arrays)
        small = [EXH_ALPHABET[i] for i in (0, 3, 5, 6, 7, 9, 12, 13, 14)]
        bad += [(p, d, small, EXH_INIT) for p, d in exhaustive(ctx, 6, small)]
        # second start (3 rows, bool / float64 columns, constructor with copy=False, empty partner)
        bad += [(p, d, EXH_FULL, EXH_INIT_B) for p, d in exhaustive(ctx, 3, EXH_FULL, EXH_INIT_B)]
        ctx.extra['exhaustive_depth_small_alphabet'] = 6
        ctx.extra['exhaustive_small_alphabet'] = len(small)
    seen = set()
    for path, d, alph, init in sorted(bad, key=lambda x: len(x[0])):
        case = path_case(path, alph, init)
        r = table_check(case)
        sig = (r[1], r[0]) if r else ('corr', alph[path[-1]]['op'])
        if sig in seen:
            continue
        seen.add(sig)
        report(ctx, case, d)
    # ---- read-only accessors (str, as_numpy_record_array, get_field_dtype, sizeof) at the nodes of the enumeration
    acc_seen = set()
    for path, alph, init in sorted(ACC_BAD, key=lambda x: len(x[0]))[:50]:
        report_accessors(ctx, path_case(path, alph, init), acc_seen)
    del ACC_BAD[:]
    # ---- random sequences (correspondence + oracle)
    n_seq = ctx.n(150, 3000)
    disagreements = len(bad)
    batch, all_lines = [], []
    for i in range(n_seq):
        length = rng.choice([3, 6, 6, 10, 20, 40])
        ops = gen_sequence(rng, length)
        case = {'ops': ops}
        for op in ops:
            ctx.count('op:' + op['op'])
        ctx.count('random:len<=%d' % (10 if len(ops) <= 10 else 20 if len(ops) <= 20 else 40))
        ctx.case(key=('rand', ops), desc=case if i % 499 == 0 and len(ops) <= 6 else None)
        r = table_check(case)
        if r is not None:
            small = shrink(case, r[0])
            r2 = table_check(small) or r
            ctx.violation('table', small, r2[3], signature='C16/%s/%s' % (r2[1], r2[0]))
        report_accessors(ctx, case, acc_seen)
        ctx.count('accessors:random histories')
        lines, recs, rec_impl = corr_prepare_rec(ops)
        for (op_, ri_, _, _) in recs:
            ctx.count('outcome:%s:%s' % (op_['op'], ri_[0] if ri_[0] == 'ok' else 'err-' + str(ri_[1])))
            if 'sel' in op_:
                ctx.count('branch:selection by %s' % ('mask' if op_['sel']['k'] == 'm' else 'index array'))
            if op_.get('form'):
                ctx.count('branch:name argument as %s' % op_['form'])
            for col_ in ([op_['col']] if 'col' in op_ else [c_[1] for c_ in op_.get('cols', [])]):
                ctx.count('branch:handed-in array layout %s' % col_.get('layout', 'contiguous'))
            if op_['op'] == 'new':
                ctx.count('branch:constructor copy=%s' % (not op_.get('nocopy')))
        batch.append((case, r, lines, recs, len(all_lines), rec_impl))
        all_lines += lines
    out = ctx.driver('C16', all_lines)
    for case, r, lines, recs, off, rec_impl in batch:
        d = corr_eval(lines, recs, out[off:off + len(lines)])
        if not d:
            drec = None
            for impl_rec, ans in zip(rec_impl, out[off + len(lines) - len(rec_impl):off + len(lines)]):
                ctx.count('outcome:record:%s' % impl_rec[0])
                drec = drec or r7.record_compare(impl_rec, ans)
            if drec:
                # as_numpy_record_array disagrees with asRecord: the accessor oracle names the failing input
                disagreements += 1
                if r7.accessors_after_each_step(case['ops'], resolve) is not None:
                    report_accessors(ctx, case, acc_seen)
                elif 'record' not in acc_seen:
                    acc_seen.add('record')
                    ctx.violation('corr', case, 'model and implementation disagree (%s) but the accessor oracle is silent' % drec,
                                  kind='correspondence', relation='exact: fields, dtypes, values, length of the record array',
                                  signature='C16/corr/record', no_failing_input=True)
        if d:
            disagreements += 1
            if r is None:
                report(ctx, case, d)
    # ---- round 7: the constructor with its options (keep_fields, dtype_conversions, except fields, copy) on dict /
    #      structured ndarray / DataFieldRecordArray input, against Model/StoreR7.lean (ctorLoop) and the plain-table oracle
    disagreements += r7.run_ctor(ctx, ctx.n(600, 12000))
    ctx.extra['correspondence_disagreements'] = disagreements
    # every outcome class of every modelled operation: an un-hit branch of the model is an untied branch
    expected = {
        'new': ['ok', 'err-value'], 'append': ['ok', 'err-key'], 'appendField': ['ok', 'err-key', 'err-value'],
        'setItem': ['ok', 'err-value'], 'removeField': ['ok', 'err-key'], 'rename': ['ok', 'err-key'], 'tidyUp': ['ok'],
        'getSel': ['ok', 'err-idxval'], 'setSel': ['ok', 'err-key', 'err-idxval'], 'sortBy': ['ok', 'err-key'], 'copy': ['ok'],
        'setDtype': ['ok', 'err-key'], 'convert': ['ok'], 'indices': ['ok'], 'appendFieldFrom': ['ok', 'err-key', 'err-value'],
        'setItemFrom': ['ok', 'err-key', 'err-value'], 'newShared': ['ok', 'err-key'], 'freeze': ['ok', 'err-key'],
        'poke': ['ok', 'err-key', 'err-index', 'err-value'], 'ctor': ['ok', 'err-type']}
    ctx.extra['zero_hit_branches'] = ['%s:%s' % (o, r_) for o, rs in expected.items() for r_ in rs
                                      if ctx.counters.get('outcome:%s:%s' % (o, r_), 0) == 0]
    ctx.extra['diagnostics'] = dict(DIAG)


MANIFEST = dict(
    text=('Lean theorems on a heap model of DataFieldRecordArray (heap of column arrays, containers = name -> location plus the '
          'three caches _field_name_list/_len/_indices maintained as coded): for every operation sequence the heap layer refines a '
          'plain table (c16_refines), the invariant (equal column lengths, field list = dict keys, indices absent or range(len), no '
          'location shared between two slots) is preserved (c16_inv_step), selections and copies are fresh (c16_selection_fresh, '
          'c16_copy_fresh). Arrays handed in by the caller may already be columns elsewhere: in any state every operation except '
          'set_selection leaves all existing arrays untouched (c16_rebind_ops_frame) and, without write-through, the plain tables are still '
          'refined (c16_refines_shared). Row-level theorems independent of the bookkeeping: sorting permutes rows (c16_sort_rows, c16_isPerm_perm), selections gather rows, append concatenates rows, set_selection replaces exactly the selected rows in every column, copy equals its origin, rename keeps all columns; pre-fix sequential executors with proved counterexamples. The executable model is compared after every step with the real container (public accessors + '
          'np.shares_memory) on bounded-exhaustive and random operation sequences; a numpy-structured-array reference table is the '
          'failing-input oracle. Round 7: the field loop of the constructor with keep_fields / dtype_conversions / except fields / copy as coded '
          '(ctorLoop): result = copy(keep) then convert_dtypes, well formed, provenance (c16_ctor_spec, c16_ctor_wf, c16_ctor_prov, '
          'c16_ctor_no_error), as an operation of a history (c16_ctor_op_refines, c16_ctor_op_frame), as_numpy_record_array = the plain table '
          '(c16_record_array_is_table); the defaults of the public parameters and the copy flag in effect inside copy() are regenerated from the '
          'ast of the current source (c16_ctor_defaults_for_current_source); the per-method writers of the state attributes are evidence only.'),
    note=('Values are small integers (dtype conversion modelled only as far as which column gets which dtype); set_selection whose source shares '
          'memory with its target is outside the model; numpy primitives (fancy indexing, np.append promotion, argsort) are modelled and compared, not verified.'),
    design='DESIGN.md section 4 C16',
    technique='Lean 4 refinement proof (heap layer vs. plain table, induction over operation lists) + exact model/implementation correspondence')
