"""C17 — data loading returns every row once, identically across modes and formats.

Correspondence: the real file loaders (`NPYFileLoader` in both efficiency modes, `ParquetFileLoader`,
`TextFileLoader`) and `Dataset.load_and_prepare_data` vs. Model/Load.lean (Driver/C17.lean); exact
comparison of length, field set, dtypes and cell bit patterns (field order is a diagnostic only).
Property oracles (implementation only): memory mode == time mode, all formats == npy, brute-force
reference (column = concatenation of the files' columns, converted), data-set level requirements
(required analysis fields present, nothing but required/kept fields, content = renamed file column,
missing field/file -> error).
"""
import contextlib
import os
import pickle
import shutil
import tempfile
import warnings

import numpy as np

from harness import extract
from harness.core import MachineryError, f2b, b2f

from harness import c17_r7_fixtures as r7

MODEL_MODULES = ['SkyllhModel.Model.Load', 'SkyllhModel.Model.LoadI3', 'SkyllhModel.Model.LoadDispatchR7']

# Python callables with an executable Lean counterpart that run(ctx) compares with the real callable on every run
MODEL_MAP = {
    'skyllh/core/storage.py::NPYFileLoader._load_file_memory_efficiently': ['Load.loadFileMem', 'Load.memRows', 'Load.assignRow'],
    'skyllh/core/storage.py::NPYFileLoader._load_file_time_efficiently': ['Load.loadFileTime', 'Load.ctorNd'],
    'skyllh/core/storage.py::NPYFileLoader.load_data': ['Load.npyLoad', 'Load.appendAll'],
    'skyllh/core/storage.py::ParquetFileLoader.load_data': ['Load.parquetLoad', 'Load.pqRead', 'Load.pqAll', 'Load.ctorPq'],
    'skyllh/core/storage.py::PKLFileLoader.load_data': ['Load.pklLoad', 'Load.pklObjects'],
    'skyllh/core/storage.py::TextFileLoader.load_data': ['Load.csvLoad'],
    'skyllh/core/storage.py::TextFileLoader._load_file': ['Load.csvLoadFile', 'LoadR7.headerSelect', 'LoadR7.usecolsGo'],
    'skyllh/core/storage.py::TextFileLoader._extract_column_names': ['LoadR7.extractColumnNames', 'LoadR7.stripBy', 'LoadR7.splitWs',
                                                                     'LoadR7.splitSep'],
    'skyllh/core/storage.py::create_FileLoader': ['LoadR7.createLoader', 'LoadR7.firstMatch', 'LoadR7.sortedKeys', 'LoadR7.fmtMatches'],
    'skyllh/core/storage.py::register_FileLoader': ['LoadR7.registerLoader', 'LoadR7.registerGo'],
    'skyllh/core/storage.py::DataFieldRecordArray.__init__': ['Load.ctorNd', 'Load.ctorPq', 'Load.selected', 'Load.targetDt', 'Load.isKept'],
    'skyllh/core/storage.py::DataFieldRecordArray.append': ['Load.appendArr'],
    'skyllh/core/storage.py::DataFieldRecordArray.rename_fields': ['Load.renameFields', 'Load.renameGo'],
    'skyllh/core/dataset.py::Dataset.load_data': ['Load.loadData', 'Load.keepExp', 'Load.keepMc', 'Load.new2orig', 'Load.excOrig'],
    'skyllh/core/dataset.py::Dataset.load_and_prepare_data': ['Load.loadAndPrepare', 'Load.loadAndPrepareS', 'Load.tidyUp', 'Load.mergeTables'],
    'skyllh/core/dataset.py::assert_data_format': ['Load.assertFormat', 'Load.missingKeys'],
    'skyllh/core/dataset.py::Dataset.get_abs_pathfilename_list': ['Load.getAbsPaths', 'Load.absPathsGo'],
    'skyllh/core/dataset.py::Dataset.exp_pathfilename_list': ['Load.defineCopy'],
    'skyllh/core/dataset.py::Dataset.mc_pathfilename_list': ['Load.defineCopy'],
    'skyllh/core/datafields.py::DataFieldStages.or_check': ['Load.orCheck'],
    'skyllh/i3/dataset.py::I3Dataset.load_grl': ['Load.loadGrl', 'Load.sortByField'],
    'skyllh/i3/dataset.py::I3Dataset.load_data': ['Load.i3LoadAndPrepare'],
    'skyllh/i3/dataset.py::I3Dataset.prepare_data': ['Load.i3Prepare', 'Load.i3Livetime', 'Load.i3Select', 'Load.timeMaskGo', 'Load.runMask',
                                                     'Load.applyMask', 'Load.addSin'],
    'skyllh/i3/dataset.py::I3Dataset.grl_pathfilename_list': ['Load.defineCopy'],
}

DT = {'f8': np.float64, 'f4': np.float32, 'i8': np.int64, 'i4': np.int32}
CODE = {np.dtype(v).str: k for k, v in DT.items()}
NAN8, NAN4 = 0x7ff8000000000000, 0x7fc00000
RECORDED = {'bs': 4096, 'stages': [1, 2, 4, 8],
            'registry': [['.npy', 'NPYFileLoader'], ['.parquet', 'ParquetFileLoader'], ['.pkl', 'PKLFileLoader'],
                         ['.csv', 'TextFileLoader']],
            'text_defaults': ['#', None]}


# ------------------------------------------------------------------------------------------
# constants read from the current source

_CONSTS = {}


def source_constants(ctx=None):
    if ctx is None and 'v' in _CONSTS:
        return dict(_CONSTS['v'])
    out = _source_constants(ctx)
    _CONSTS['v'] = dict(out)
    return out


def _source_constants(ctx=None):
    out = dict(RECORDED)
    fallbacks = []
    try:
        import ast
        fn = extract.find_func(extract.find_class(extract.parse('skyllh/core/storage.py'), 'NPYFileLoader'),
                               '_load_file_memory_efficiently')
        # the block size is the right operand of the only `%` in the method (a literal, or a local assigned
        # a literal once) - independent of the name of the local
        mods = [n.right for n in ast.walk(fn) if isinstance(n, ast.BinOp) and isinstance(n.op, ast.Mod)]
        if len(mods) != 1:
            raise ValueError('bs')
        node = mods[0]
        if isinstance(node, ast.Name):
            vals = [n.value for n in ast.walk(fn) if isinstance(n, ast.Assign) and len(n.targets) == 1
                    and isinstance(n.targets[0], ast.Name) and n.targets[0].id == node.id]
            if len(vals) != 1:
                raise ValueError('bs')
            node = vals[0]
        bsv = extract.literal(node)
        if not isinstance(bsv, int):
            raise ValueError('bs')
        out['bs'] = bsv
    except Exception:  # noqa
        fallbacks.append('bs')
    try:
        st = [extract.class_attr('skyllh/core/datafields.py', 'DataFieldStages', a)
              for a in ('DATAPREPARATION_EXP', 'DATAPREPARATION_MC', 'ANALYSIS_EXP', 'ANALYSIS_MC')]
        if not all(isinstance(s, int) and s >= 0 for s in st):
            raise ValueError('stages')
        out['stages'] = st
    except Exception:  # noqa
        fallbacks.append('stages')
    try:
        # the module-level `register_FileLoader([...], Cls)` calls of storage.py, in source order
        import ast
        reg = []
        for node in extract.parse('skyllh/core/storage.py').body:
            call = node.value if isinstance(node, ast.Expr) and isinstance(node.value, ast.Call) else None
            if call is None or not isinstance(call.func, ast.Name) or call.func.id != 'register_FileLoader':
                continue
            args = list(call.args) + [None, None]
            kw = {k.arg: k.value for k in call.keywords}
            fm = extract.literal(kw.get('formats', args[0]))
            cl = kw.get('fileloader_cls', args[1])
            if isinstance(fm, str):
                fm = [fm]
            if not (isinstance(fm, (list, tuple)) and all(isinstance(f, str) and f.isascii() for f in fm)) or not isinstance(cl, ast.Name):
                raise ValueError('registry')
            reg += [[f, cl.id] for f in fm]
        if not reg:
            raise ValueError('registry')
        out['registry'] = reg
    except Exception:  # noqa
        fallbacks.append('registry')
    try:
        td = [extract.arg_default('skyllh/core/storage.py', 'TextFileLoader', '__init__', a)
              for a in ('header_comment', 'header_separator')]
        if not (isinstance(td[0], str) and (td[1] is None or isinstance(td[1], str))):
            raise ValueError('text_defaults')
        out['text_defaults'] = td
    except Exception:  # noqa
        fallbacks.append('text_defaults')
    if ctx is not None:
        for f in fallbacks:
            ctx.proof['generated_fallbacks'].append('C17.' + f)
            ctx.note('C17: could not read %s from the source, using the recorded value %r' % (f, RECORDED[f]))
    return out


def _lean_str(x):
    """a Python str as the model's list of code points"""
    return '[' + ', '.join(str(ord(ch)) for ch in x) + ']'


def generated(ctx):
    c = source_constants(ctx)
    s = c['stages']
    reg = ', '.join('(%s, "%s")' % (_lean_str(f), cl) for f, cl in c['registry'])
    hc, hs = c['text_defaults']
    return ('/- generated by harness/props/c17.py from skyllh/core/storage.py and skyllh/core/datafields.py -/\n'
            'import SkyllhModel.Model.Load\n'
            'import SkyllhModel.Model.LoadDispatchR7\n'
            'namespace Gen.C17\n'
            '/-- `bs` of NPYFileLoader._load_file_memory_efficiently -/\n'
            'def reopenBlock : Nat := %d\n'
            '/-- DataFieldStages.DATAPREPARATION_EXP, DATAPREPARATION_MC, ANALYSIS_EXP, ANALYSIS_MC -/\n'
            'def stages : Load.Stages := ⟨%d, %d, %d, %d⟩\n'
            '/-- the module-level `register_FileLoader(formats, cls)` calls of storage.py, in source order\n'
            '    (format as code points, class name): %s -/\n'
            'def loaderRegistry : List (LoadR7.Str × String) := [%s]\n'
            '/-- defaults of TextFileLoader.__init__: header_comment, header_separator (none = None: whitespace) -/\n'
            'def headerComment : LoadR7.Str := %s\n'
            'def headerSeparator : Option LoadR7.Str := %s\n'
            'end Gen.C17\n' % (c['bs'], s[0], s[1], s[2], s[3], ' '.join(f for f, _ in c['registry']), reg, _lean_str(hc),
                               'none' if hs is None else 'some ' + _lean_str(hs)))


# ------------------------------------------------------------------------------------------
# tables

_SPECIAL8 = [0.0, -0.0, float('inf'), float('-inf'), 1e-310, 5e-324, 3.5e38, -1e39, 1.0000000596046448,
             1.7976931348623157e308, float('nan'), 16777217.0]


def make_table(spec):
    """structured ndarray from a small JSON-able description."""
    schema = [(n, DT[d]) for n, d in spec['schema']]
    if 'cols' in spec:
        n = len(next(iter(spec['cols'].values()))) if spec['cols'] else 0
        arr = np.zeros(n, dtype=schema)
        for name, _ in spec['schema']:
            arr[name] = np.array([float(x) if isinstance(x, str) else x for x in spec['cols'][name]])
        return arr
    n = spec['n']
    rs = np.random.RandomState(spec['seed'])
    arr = np.zeros(n, dtype=schema)
    for name, d in spec['schema']:
        if d in ('f8', 'f4'):
            x = rs.standard_normal(n) * 10.0 ** rs.randint(-3, 4, size=n)
            k = rs.random_sample(n) < (0.0 if spec.get('tame') else 0.25)
            x[k] = np.array(_SPECIAL8)[rs.randint(0, len(_SPECIAL8), size=int(k.sum()))]
            with warnings.catch_warnings():
                warnings.simplefilter('ignore')
                arr[name] = x.astype(DT[d])
        elif d == 'i8':
            lim = 2 ** 31 if spec.get('small_ints', True) else 2 ** 52
            arr[name] = rs.randint(-lim, lim, size=n, dtype=np.int64)
        else:
            arr[name] = rs.randint(-2 ** 31, 2 ** 31, size=n, dtype=np.int64).astype(np.int32)
    # a row counter makes every row distinguishable
    if 'rowid' in arr.dtype.names:
        arr['rowid'] = np.arange(n) + 100000 * spec.get('fileno', 0)
    return arr


def cells_of(col):
    """numpy column -> list of ints (value for ints, IEEE bit pattern for floats, NaN canonical)."""
    col = np.ascontiguousarray(col)
    s = col.dtype.str
    if s == '<f8':
        v = col.view(np.uint64).copy()
        v[np.isnan(col)] = NAN8
        return v.tolist()
    if s == '<f4':
        v = col.view(np.uint32).copy()
        v[np.isnan(col)] = NAN4
        return v.tolist()
    return col.tolist()


def write_file(arr, path, fmt):
    if fmt == 'npy':
        np.save(path, arr)
    elif fmt == 'c17npy':
        with open(path, 'wb') as f:
            np.save(f, arr)
    elif fmt == 'pkl':
        with open(path, 'wb') as f:
            pickle.dump(arr, f)
    elif fmt == 'parquet':
        import pyarrow as pa
        import pyarrow.parquet as pq
        pq.write_table(pa.table({n: np.ascontiguousarray(arr[n]) for n in arr.dtype.names}), path)
    elif fmt == 'csv':
        with open(path, 'w') as f:
            f.write('# ' + ' '.join(arr.dtype.names) + '\n')
            for r in arr.tolist():
                f.write(' '.join(repr(float(x)) for x in r) + '\n')
    else:
        raise ValueError(fmt)


@contextlib.contextmanager
def workdir():
    d = tempfile.mkdtemp(prefix='C17_run_', dir='/tmp')
    try:
        yield d
    finally:
        shutil.rmtree(d, ignore_errors=True)


_FILE_NO = __import__('itertools').count()


SUB_PATH_FMT = 'sets/v{version:d}'       # root_dir of the generated data sets = <base_path>/sets/v1


def materialise(d, files, fmt, tag='f', kinds=None):
    """write the described files; returns (paths, arrays) — arrays[i] is None for a missing file.
    kinds[i] == 'rel': the file lives under the data set's root directory and is *listed* by its name relative
    to it (sometimes with a sub directory); 'abs' (default): listed by an absolute name in another directory."""
    paths, arrs = [], []
    for i, spec in enumerate(files):
        name = '%s%d_%d.%s' % (tag, i, next(_FILE_NO), fmt)
        kind = kinds[i] if kinds else 'abs'
        if kind == 'rel':
            listed = name if i % 2 == 0 else os.path.join('part', name)
            p = os.path.join(d, SUB_PATH_FMT.format(version=1), listed)
        else:
            listed = p = os.path.join(d, 'elsewhere', name) if kinds else os.path.join(d, name)
        os.makedirs(os.path.dirname(p), exist_ok=True)
        if spec.get('missing'):
            arrs.append(None)
        else:
            a = make_table(spec)
            write_file(a, p, fmt)
            arrs.append(a)
        paths.append(listed)
    return paths, arrs


# ------------------------------------------------------------------------------------------
# running the implementation

# Python exception type of every error class of the model (the relation between an error of the
# implementation and an error of the model is "same exception type"; message texts are not looked at)
PYTYPE = {'fileMissing': 'RuntimeError', 'keyError': 'KeyError', 'indexError': 'IndexError', 'noColumns': 'ValueError',
          'schemaMismatch': 'ValueError', 'noLivetime': 'ValueError', 'castKind': 'TypeError', 'castOverflow': 'OverflowError',
          'uninit': 'MODEL-ONLY', 'zeroDivision': 'ZeroDivisionError'}


def classify_exc(e):
    for t in (KeyError, IndexError, RuntimeError, TypeError, OverflowError, ZeroDivisionError, ValueError):
        if isinstance(e, t):       # pyarrow.ArrowInvalid is a ValueError
            return t.__name__
    return 'EXC:' + type(e).__name__


def np_conv(conv):
    return None if conv is None else {np.dtype(DT[a]): np.dtype(DT[b]) for a, b in conv}


def canon(r):
    """DataFieldRecordArray -> ('ok', len, {name: (dtcode, cells)}, [names in order])"""
    fields = {}
    for n in r.field_name_list:
        col = r[n]
        code = CODE.get(col.dtype.str, col.dtype.str)
        fields[n] = (code, cells_of(col))
    return ('ok', len(r), fields, list(r.field_name_list))


FORMS = {'list': list, 'tuple': tuple, 'ndarray': lambda xs: np.array(list(xs), dtype=object) if xs else np.array([], dtype=object)}


def arg_forms(case):
    """the forms in which the arguments of one call are handed over (a generated dimension of every load case):
    keep_fields / except fields as list, tuple (a 1-element one also as plain str), the dtype_conversions values
    as numpy.dtype, scalar type or dtype string, the path list as list or tuple; derived from the case itself so
    that a replay uses the same forms."""
    import hashlib
    h = int(hashlib.sha1(repr(sorted((k, repr(v)) for k, v in case.items() if k != 'files')).encode()).hexdigest(), 16)
    return {'keep': ['list', 'tuple', 'str1'][h % 3], 'exc': ['list', 'tuple', 'str1'][(h // 3) % 3],
            'convval': ['dtype', 'type', 'str'][(h // 9) % 3], 'paths': ['list', 'tuple'][(h // 27) % 2]}


def _form(xs, how):
    if xs is None or isinstance(xs, str):
        return xs
    if how == 'str1':
        return xs[0] if len(xs) == 1 else list(xs)
    return FORMS[how](xs)


def np_conv_form(conv, how):
    if conv is None:
        return None
    val = {'dtype': lambda d: np.dtype(DT[d]), 'type': lambda d: DT[d], 'str': lambda d: np.dtype(DT[d]).str}[how]
    return {np.dtype(DT[a]): val(b) for a, b in conv}


def impl_load(paths, fmt, mode, keep, conv, exc, forms=None):
    from skyllh.core.storage import create_FileLoader
    forms = forms or {'keep': 'list', 'exc': 'list', 'convval': 'dtype', 'paths': 'list'}
    with warnings.catch_warnings():
        warnings.simplefilter('ignore')
        try:
            fl = create_FileLoader(FORMS[forms['paths']](paths))
            kw = dict(keep_fields=_form(keep, forms['keep']), dtype_conversions=np_conv_form(conv, forms['convval']),
                      dtype_conversion_except_fields=_form(exc, forms['exc']))
            if fmt == 'npy':
                kw['efficiency_mode'] = mode
            r = fl.load_data(**kw)
        except Exception as e:  # noqa
            return ('err', classify_exc(e), '%s: %s' % (type(e).__name__, str(e)[:200]))
    return canon(r)


LEGIT = ('RuntimeError', 'KeyError', 'ValueError')


def _multi(case):
    """the input has a missing file among several files: more than one legitimate error."""
    files = case.get('files', []) + case.get('exp', []) + case.get('mc', [])
    return len(files) > 1 and any(f.get('missing') for f in files)


def same(a, b, several_errors=False):
    """the property-level relation between two canonical results (field order ignored).  Errors are related
    by exception type; when the input has more than one defect (`several_errors`: a missing file next to other
    files) which of the legitimate errors is raised first is not part of the property."""
    if a[0] != b[0]:
        return False
    if a[0] == 'err':
        return a[1] == b[1] or (several_errors and a[1] in LEGIT and b[1] in LEGIT)
    return a[1] == b[1] and a[2] == b[2]


def brief(a):
    if a[0] == 'err':
        return 'error %s' % (a[2] if len(a) > 2 else a[1])
    return 'len=%d %s' % (a[1], {n: (d, c[:6] + (['…'] if len(c) > 6 else [])) for n, (d, c) in a[2].items()})


def first_diff(a, b):
    if a[0] != b[0] or a[0] == 'err':
        return '%s vs %s' % (brief(a), brief(b))
    if a[1] != b[1]:
        return 'length %d vs %d' % (a[1], b[1])
    if set(a[2]) != set(b[2]):
        return 'fields %s vs %s' % (sorted(a[2]), sorted(b[2]))
    for n in a[2]:
        if a[2][n][0] != b[2][n][0]:
            return 'dtype of %s: %s vs %s' % (n, a[2][n][0], b[2][n][0])
        ca, cb = a[2][n][1], b[2][n][1]
        if len(ca) != len(cb):
            return 'field %s has %d vs %d cells' % (n, len(ca), len(cb))
        for i, (x, y) in enumerate(zip(ca, cb)):
            if x != y:
                return 'field %s row %d: %r vs %r' % (n, i, x, y)
    return 'equal'


# ------------------------------------------------------------------------------------------
# the model side

def file_token(arr):
    if arr is None:
        return '!'
    names = arr.dtype.names
    sch = ','.join('%s:%s' % (n, CODE[arr.dtype[n].str]) for n in names) if names else '_'
    cols = [cells_of(arr[n]) for n in names]
    rows = [','.join(map(str, r)) for r in zip(*cols)] if cols else []
    return ';'.join([sch] + rows)


def files_token(arrs):
    return '|'.join(file_token(a) for a in arrs) if arrs else '-'


def names_token(xs, none='*'):
    if xs is None:
        return none
    return ','.join(xs) if xs else '-'


def pairs_token(ps):
    ps = list(ps)
    return ','.join('%s:%s' % (a, b) for a, b in ps) if ps else '-'


def parse_arr(tok):
    if tok == 'none':
        return None
    parts = tok.split('/')
    fields, order = {}, []
    for p in parts[1:]:
        n, d, cs = p.split(':')
        cells = [int(x) for x in cs.split(',')] if cs else []
        if d == 'f8':
            cells = [NAN8 if (c & 0x7ff0000000000000) == 0x7ff0000000000000 and (c & 0xfffffffffffff) else c for c in cells]
        elif d == 'f4':
            cells = [NAN4 if (c & 0x7f800000) == 0x7f800000 and (c & 0x7fffff) else c for c in cells]
        fields[n] = (d, cells)
        order.append(n)
    return ('ok', int(parts[0]), fields, order)


def parse_load_answer(line):
    if line.startswith('err '):
        return ('err', PYTYPE.get(line[4:].strip(), line[4:].strip()), 'model ' + line)
    if line.startswith('ok '):
        return parse_arr(line[3:].strip())
    raise ValueError('driver answer %r' % line[:80])


def load_request(case, arrs, bs):
    return 'load %s %s %d %s %s %s %s' % (
        case['fmt'], case['mode'], bs, files_token(arrs), names_token(case['keep']),
        pairs_token(case['conv'] or []), names_token(case['exc'] or [], none='-'))


# ------------------------------------------------------------------------------------------
# brute-force reference for a loader call (the statement of the property, in numpy)

def reference_load(arrs, keep, conv, exc, fmt):
    """every row of every file once, in file order, restricted to keep, converted."""
    conv = dict(conv or [])
    exc = exc or []
    # errors are reported for the first offending file, in list order
    for a in arrs:
        if a is None:
            return ('err', 'RuntimeError', 'reference: a listed file does not exist')
        if fmt == 'csv' and not [n for n in a.dtype.names if keep is None or n in keep]:
            return ('err', 'ValueError', 'reference: no column selected')
    first = arrs[0]
    fields = {}
    names = [n for n in first.dtype.names if keep is None or n in keep]
    for n in names:
        parts = []
        for a in arrs:
            if n not in a.dtype.names:
                return None        # files with different field sets: outside the reference
            d = CODE[a.dtype[n].str]
            t = d if (n in exc or d not in conv) else conv[d]
            with warnings.catch_warnings():
                warnings.simplefilter('ignore')
                parts.append(a[n].astype(DT[t]))
        col = np.concatenate(parts) if len(parts) > 1 else parts[0]
        fields[n] = (CODE[col.dtype.str], cells_of(col))
    ln = sum(len(a) for a in arrs) if names else 0
    return ('ok', ln, fields, names)


# ------------------------------------------------------------------------------------------
# oracles: (ctx, case) -> None | failure text           (implementation only, except `corr*`)

def o_modes(ctx, case):
    """memory-efficient and time-efficient loading give the same result."""
    with workdir() as d:
        paths, arrs = materialise(d, case['files'], 'npy')
        fm = case.get('forms')
        a = impl_load(paths, 'npy', 'time', case['keep'], case['conv'], case['exc'], fm)
        b = impl_load(paths, 'npy', 'memory', case['keep'], case['conv'], case['exc'], fm)
    if not same(a, b):
        return 'efficiency modes differ (time vs memory%s): %s' % (
            '' if not fm else '; arguments handed over as %r' % fm, first_diff(a, b))
    return None


def o_reference(ctx, case):
    """the loader returns every row once, in file order, kept fields only, converted."""
    fmt = case['fmt']
    with workdir() as d:
        paths, arrs = materialise(d, case['files'], fmt)
        a = impl_load(paths, fmt, case.get('mode', 'time'), case['keep'], case['conv'], case['exc'], case.get('forms'))
    ref = reference_load(arrs, case['keep'], case['conv'], case['exc'], fmt)
    if ref is None:
        return None
    if not same(a, ref, _multi(case)):
        return '%s loader (%s%s) differs from the reference (every row once in file order, kept fields, converted): %s' % (
            fmt, case.get('mode', 'time'), '' if not case.get('forms') else '; arguments handed over as %r' % case['forms'],
            first_diff(a, ref))
    return None


def _pkl_as_table(obj, keep, conv, exc, nfiles):
    from skyllh.core.storage import DataFieldRecordArray
    if nfiles == 1:
        objs = [obj]
    else:
        if not isinstance(obj, list) or len(obj) != nfiles:
            return ('err', 'EXC:pkl', 'pkl loader returned %r for %d files' % (type(obj), nfiles))
        objs = obj
    kw = dict(keep_fields=keep, dtype_conversions=np_conv(conv), dtype_conversion_except_fields=exc)
    with warnings.catch_warnings():
        warnings.simplefilter('ignore')
        try:
            r = DataFieldRecordArray(objs[0], **kw)
            for o in objs[1:]:
                r.append(DataFieldRecordArray(o, **kw))
        except Exception as e:  # noqa
            return ('err', classify_exc(e), '%s: %s' % (type(e).__name__, e))
    return canon(r)


def _load_selection_empty(case):
    """some listed text file has no column named in keep_fields (the text loader refuses that)."""
    keep = case['keep']
    return any(not [n for n, _ in f['schema'] if keep is None or n in keep] for f in case['files'] if not f.get('missing'))


def _csv_selection(case):
    """every file of the data set holds at least one of the fields the data set asks the loader for."""
    st = source_constants()['stages']
    merged = _merged(case)
    inv_e = {v: k for k, v in case['eren']}
    inv_m = {v: k for k, v in case['mren']}
    want_e = [n for n, s in merged.items() if s & (st[0] | st[2])] + list(case['keep'])
    want_m = [n for n, s in merged.items() if s & (st[0] | st[1] | st[2] | st[3])] + list(case['keep'])
    orig_e = {inv_e.get(n, n) for n in want_e}
    orig_m = orig_e | {inv_m.get(n, n) for n in want_m}
    for files, orig in ((case['exp'], orig_e), (case['mc'], orig_m)):
        for f in files:
            if not f.get('missing') and not [n for n, _ in f['schema'] if n in orig]:
                return False
    return True


def o_formats(ctx, case):
    """all supported formats holding the same table load identically."""
    from skyllh.core.storage import create_FileLoader
    res = {}
    all_f8 = all(dt == 'f8' for f in case['files'] if not f.get('missing') for _, dt in f['schema'])
    fmts = ['npy', 'parquet', 'pkl'] + (['csv'] if all_f8 else [])
    with workdir() as d:
        for fmt in fmts:
            paths, arrs = materialise(d, case['files'], fmt)
            if fmt == 'pkl':
                try:
                    obj = create_FileLoader(paths).load_data()
                    res[fmt] = _pkl_as_table(obj, case['keep'], case['conv'], case['exc'], len(paths))
                except Exception as e:  # noqa
                    res[fmt] = ('err', classify_exc(e), '%s: %s' % (type(e).__name__, e))
            else:
                res[fmt] = impl_load(paths, fmt, 'time', case['keep'], case['conv'], case['exc'])
    base = res['npy']
    for fmt in fmts[1:]:
        if fmt == 'csv' and res['csv'][0] == 'err' and res['csv'][1] == 'ValueError' and _load_selection_empty(case):
            continue      # the text loader refuses an empty column selection (documented ValueError;
            #               the `reference` oracle checks that it does so only then)
        if not same(base, res[fmt], _multi(case)):
            return 'format %s differs from npy on the same table: %s' % (fmt, first_diff(res[fmt], base))
    return None


def o_writeable(ctx, case):
    """the loaded fields are writable arrays for every format and file count (as for the npy loader)."""
    bad = []
    with workdir() as d, warnings.catch_warnings():
        warnings.simplefilter('ignore')
        from skyllh.core.storage import create_FileLoader
        all_f8 = all(dt == 'f8' for f in case['files'] for _, dt in f['schema'])
        for fmt in ['npy', 'parquet'] + (['csv'] if all_f8 else []):
            paths, arrs = materialise(d, case['files'], fmt)
            kw = dict(keep_fields=case['keep'], dtype_conversions=np_conv(case['conv']),
                      dtype_conversion_except_fields=case['exc'])
            try:
                r = create_FileLoader(paths).load_data(**kw)
            except Exception:  # noqa   (errors are the business of the other oracles)
                continue
            for n in r.field_name_list:
                if not r[n].flags.writeable:
                    bad.append('%s:%s' % (fmt, n))
    if bad:
        return 'read-only field arrays (format:field) %s for %d file(s), conversions %r; the npy loader returns writable arrays' % (
            bad, len(case['files']), case['conv'])
    return None


def o_reuse(ctx, case):
    """objects re-used across calls and arrays handed out: the same FileLoader object loaded twice gives equal,
    independent results (no shared memory; writing into the first result changes neither the second nor the file);
    the same Dataset object loaded twice likewise; mutable arguments are not modified."""
    from skyllh.core.storage import create_FileLoader
    fmt = case['fmt']
    with workdir() as d, warnings.catch_warnings():
        warnings.simplefilter('ignore')
        paths, arrs = materialise(d, case['files'], fmt)
        keep = None if case['keep'] is None else list(case['keep'])
        exc = None if case['exc'] is None else list(case['exc'])
        conv = np_conv(case['conv'])
        snap = (_snapshot(keep), _snapshot(exc), _snapshot(conv), list(paths))
        fl = create_FileLoader(paths)
        kw = dict(keep_fields=keep, dtype_conversions=conv, dtype_conversion_except_fields=exc)
        if fmt == 'npy':
            kw['efficiency_mode'] = case.get('mode', 'time')
        try:
            r1 = fl.load_data(**kw)
        except Exception:  # noqa  (errors: other oracles)
            return None
        c1 = canon(r1)
        if (_snapshot(keep), _snapshot(exc), _snapshot(conv), list(paths)) != snap:
            return 'load_data modified one of its arguments (keep_fields / except fields / conversions / path list): %r' % (
                (keep, exc, conv, paths),)
        r2 = fl.load_data(**kw)
        for n in r1.field_name_list:
            if n in r2 and np.shares_memory(r1[n], r2[n]):
                return 'field %s of two loads of the same %s loader object shares memory' % (n, fmt)
        for n in r1.field_name_list:       # scribble over the first result
            if r1[n].flags.writeable and len(r1[n]):
                r1[n][...] = 0
        if not same(canon(r2), c1):
            return 'writing into the result of the first load changed the result of the second load of the same loader object: %s' % (
                first_diff(canon(r2), c1))
        r3 = create_FileLoader(paths).load_data(**kw)
        if not same(canon(r3), c1):
            return 'loading a file again after writing into an earlier result gives another table (file modified through a live view?): %s' % (
                first_diff(canon(r3), c1))
    return None


def o_csv_options(ctx, case):
    """text loader options: another comment character for the header; a file without header line is a ValueError."""
    from skyllh.core.storage import create_FileLoader
    with workdir() as d, warnings.catch_warnings():
        warnings.simplefilter('ignore')
        paths, arrs = materialise(d, case['files'], 'npy')
        want = impl_load(paths, 'npy', 'time', case['keep'], None, None)
        pp, nohdr = [], []
        for i, a in enumerate(arrs):
            for lst, hdr in ((pp, '%% %s\n' % ' '.join(a.dtype.names)), (nohdr, None)):
                pth = os.path.join(d, 'opt%d_%d.csv' % (i, len(lst) + 10 * (hdr is None)))
                with open(pth, 'w') as f:
                    if hdr:
                        f.write(hdr)
                    for r in a.tolist():
                        f.write(' '.join(repr(float(x)) for x in r) + '\n')
                lst.append(pth)
        try:
            got = canon(create_FileLoader(pp, header_comment='%').load_data(keep_fields=case['keep']))
        except Exception as e:  # noqa
            got = ('err', classify_exc(e), '%s: %s' % (type(e).__name__, str(e)[:160]))
        if not (got[0] == 'err' and got[1] == 'ValueError' and _load_selection_empty(case)) and not same(got, want):
            return 'text file with header_comment=\'%%\' differs from the same table as npy: %s' % first_diff(got, want)
        try:
            create_FileLoader(nohdr).load_data()
            return 'a text file without a header line was loaded without an error'
        except ValueError:
            pass
        except Exception as e:  # noqa
            if len(arrs[0]) or not isinstance(e, IndexError):
                return 'a text file without a header line raises %s, not ValueError' % type(e).__name__
    return None


def o_csv_comma(ctx, case):
    """a comma separated text file (header_separator=',') holds the same table as the blank separated one."""
    from skyllh.core.storage import create_FileLoader
    with workdir() as d, warnings.catch_warnings():
        warnings.simplefilter('ignore')
        paths, arrs = materialise(d, case['files'], 'npy')
        want = impl_load(paths, 'npy', 'time', case['keep'], None, None)
        cpaths = []
        for i, a in enumerate(arrs):
            pth = os.path.join(d, 'comma%d.csv' % i)
            with open(pth, 'w') as f:
                f.write('# ' + ','.join(a.dtype.names) + '\n')
                for r in a.tolist():
                    f.write(','.join(repr(float(x)) for x in r) + '\n')
            cpaths.append(pth)
        try:
            got = canon(create_FileLoader(cpaths, header_separator=',').load_data(keep_fields=case['keep']))
        except Exception as e:  # noqa
            got = ('err', type(e).__name__, '%s: %s' % (type(e).__name__, str(e)[:160]))
    if got[0] == 'err' and got[1] == 'ValueError' and _load_selection_empty(case):
        return None       # the text loader refuses an empty column selection (see `reference`)
    if not same(got, want):
        return 'comma separated text file(s) loaded with header_separator=\',\' differ from the same table as npy: %s' % first_diff(got, want)
    return None


def o_str_args(ctx, case):
    """documented argument forms: a str for keep_fields / dtc_except_fields means the one-element list,
    efficiency_mode=None means 'time', keep_fields=None means no extra field, livetime= overrides."""
    with workdir() as d, warnings.catch_warnings():
        warnings.simplefilter('ignore')
        # loader level: keep_fields as str
        files = case['exp'] or case['mc']
        live = [f for f in files if not f.get('missing')]
        if live and len(live) == len(files):
            name = live[0]['schema'][0][0]
            for fmt in ('npy', 'parquet'):
                paths, _ = materialise(d, files, fmt)
                a = impl_load(paths, fmt, 'time', [name], case['conv'], None)
                b = impl_load(paths, fmt, 'time', name, case['conv'], None)
                if not same(a, b):
                    return '%s loader: keep_fields=%r differs from keep_fields=[%r]: %s' % (fmt, name, name, first_diff(b, a))
            paths, _ = materialise(d, files, 'npy')
            a = impl_load(paths, 'npy', 'time', None, case['conv'], [name])
            b = impl_load(paths, 'npy', 'time', None, case['conv'], name)
            c = impl_load(paths, 'npy', None, None, case['conv'], [name])
            if not same(a, b):
                return 'npy loader: dtype_conversion_except_fields=%r differs from [%r]: %s' % (name, name, first_diff(b, a))
            if not same(a, c):
                return 'npy loader: efficiency_mode=None differs from \'time\': %s' % first_diff(c, a)
            for bad, want in (('fast', 'ValueError'), (3, 'TypeError')):
                e = impl_load(paths, 'npy', bad, None, None, None)
                if e[0] != 'err' or e[1] != want:
                    return 'npy loader: efficiency_mode=%r is not refused with %s: %r' % (bad, want, e[:3])
        # data-set level
        merged = _merged(case)
        for name in list(merged) + list(case['keep']):
            ds = build_dataset(d, case, 'npy')[0]
            a = call_dataset(ds, dict(case, exc=[name]), list(case['keep']), 'time')
            ds = build_dataset(d, case, 'npy')[0]
            b = call_dataset(ds, dict(case, exc=name), list(case['keep']), 'time')
            if not same_ds(a, b):
                return 'Dataset.load_and_prepare_data: dtc_except_fields=%r differs from dtc_except_fields=[%r] (conversions %r): %s' % (
                    name, name, case['conv'], diff_ds(b, a))
        ds = build_dataset(d, case, 'npy')[0]
        a = call_dataset(ds, case, list(case['keep']), 'time')
        ds = build_dataset(d, case, 'npy')[0]
        b = call_dataset(ds, case, list(case['keep']), None)
        if not same_ds(a, b):
            return 'Dataset.load_and_prepare_data: efficiency_mode=None differs from \'time\': %s' % diff_ds(b, a)
        if not case['keep']:
            ds = build_dataset(d, case, 'npy')[0]
            try:
                data = ds.load_and_prepare_data(keep_fields=None, dtc_dict=np_conv(case['conv']), dtc_except_fields=case['exc'])
                b = ('ok', None if data.exp is None else canon(data.exp), None if data.mc is None else canon(data.mc))
            except Exception as e:  # noqa
                b = ('err', classify_exc(e), '%s: %s' % (type(e).__name__, str(e)[:160]))
            if not same_ds(a, b):
                return 'Dataset.load_and_prepare_data: keep_fields=None differs from keep_fields=[]: %s' % diff_ds(b, a)
        if a[0] == 'ok':
            ds = build_dataset(d, case, 'npy')[0]
            data = ds.load_and_prepare_data(livetime=3.25, keep_fields=list(case['keep']), dtc_dict=np_conv(case['conv']),
                                            dtc_except_fields=case['exc'])
            if data.livetime != 3.25:
                return 'load_and_prepare_data(livetime=3.25) returned data with livetime %r' % (data.livetime,)
    return None


def o_pkl_dataset(ctx, case):
    """a data set whose files are .pkl files holding the same tables loads like the npy data set."""
    a = impl_dataset(case, 'npy', 'time')
    b = impl_dataset(case, 'pkl', 'time')
    if not same_ds(a, b):
        return 'Dataset.load_and_prepare_data on .pkl files (%d exp, %d mc; pickled structured ndarrays) differs from the same tables as .npy: %s' % (
            len(case['exp']), len(case['mc']), diff_ds(b, a))
    return None


# ---- data-set level

def make_config(d, table):
    from skyllh.core.config import Config
    cfg = Config()
    cfg['datafields'] = dict((k, int(v)) for k, v in table)
    cfg['repository']['download_from_origin'] = False
    cfg['repository']['base_path'] = d
    return cfg


def build_dataset(d, case, fmt, cfg=None):
    from skyllh.core.dataset import Dataset
    if cfg is None:
        cfg = make_config(d, case['cfg'])
    pk = case.get('pathkind') or {}
    epaths, earrs = materialise(d, case['exp'], fmt, 'e', pk.get('exp'))
    mpaths, marrs = materialise(d, case['mc'], fmt, 'm', pk.get('mc'))
    ds = Dataset(cfg=cfg, name='c17', exp_pathfilenames=epaths, mc_pathfilenames=mpaths,
                 livetime=(1.0 if case['livetime'] else None), default_sub_path_fmt=SUB_PATH_FMT, version=1)
    ds.datafields = dict((k, int(v)) for k, v in case['ds'])
    ds.exp_field_name_renaming_dict = dict(case['eren'])
    ds.mc_field_name_renaming_dict = dict(case['mren'])
    for op in case['prep']:
        ds.add_data_preparation(_prep_func(op))
    return ds, earrs, marrs


def _prep_func(op):
    kind, which = op[0], op[1]

    def f(data):
        arr = data.mc if which == 'm' else data.exp
        if arr is None:
            raise KeyError('no %s data' % which)
        if kind == 'dup':
            arr.append_field(op[3], arr[op[2]].copy())
        else:
            arr.remove_field(op[2])
    f.__name__ = '%s_%s' % (kind, which)
    return f


_REC = []
_REC_CLS = []


def _recording_format():
    """a file format `.c17npy` registered through skyllh's public `register_FileLoader`: an NPYFileLoader
    that records the keep_fields it is asked for (however the call is spelled)."""
    if not _REC_CLS:
        import inspect
        from skyllh.core import storage

        class RecordingNPYFileLoader(storage.NPYFileLoader):
            def load_data(self, *args, **kwargs):
                ba = inspect.signature(storage.NPYFileLoader.load_data).bind(self, *args, **kwargs)
                kf = ba.arguments.get('keep_fields')
                _REC.append(sorted(set([kf] if isinstance(kf, str) else (kf or []))))
                return super().load_data(*args, **kwargs)
        storage.register_FileLoader(['.c17npy'], RecordingNPYFileLoader)
        _REC_CLS.append(RecordingNPYFileLoader)
    return 'c17npy'


def impl_dataset(case, fmt, mode, record=None):
    from harness.core import MachineryError, f2b, b2f
    if record is not None and fmt == 'npy':
        fmt = _recording_format()
        del _REC[:]
    keep = list(case['keep'])
    exc = None if case['exc'] is None else list(case['exc'])
    with workdir() as d, warnings.catch_warnings():
        warnings.simplefilter('ignore')
        try:
            ds, earrs, marrs = build_dataset(d, case, fmt)
        except Exception as e:  # noqa
            raise MachineryError('C17 fixture: cannot build the data set: %s: %s' % (type(e).__name__, e))
        try:
            data = ds.load_and_prepare_data(
                keep_fields=keep, dtc_dict=np_conv(case['conv']),
                dtc_except_fields=exc, efficiency_mode=mode)
            res = ('ok', None if data.exp is None else canon(data.exp), None if data.mc is None else canon(data.mc))
        except Exception as e:  # noqa
            res = ('err', classify_exc(e), '%s: %s' % (type(e).__name__, str(e)[:200]))
    if keep != list(case['keep']) or exc != (None if case['exc'] is None else list(case['exc'])):
        res = ('err', 'ARGUMENT-MODIFIED', 'load_and_prepare_data modified its keep_fields / dtc_except_fields argument: %r %r' % (keep, exc))
    if record is not None and fmt == 'c17npy':
        record.extend(_REC)
        if res[0] == 'ok' and len(record) != (1 if case['exp'] else 0) + (1 if case['mc'] else 0):
            raise MachineryError('C17: the recording file loader saw %d load_data calls for a data set with %s exp and %s mc files'
                                 % (len(record), len(case['exp']), len(case['mc'])))
    return res


def same_ds(a, b, several_errors=False):
    if a[0] != b[0]:
        return False
    if a[0] == 'err':
        return a[1] == b[1] or (several_errors and a[1] in LEGIT and b[1] in LEGIT)
    for x, y in ((a[1], b[1]), (a[2], b[2])):
        if (x is None) != (y is None):
            return False
        if x is not None and not same(x, y):
            return False
    return True


def diff_ds(a, b):
    if a[0] != b[0] or a[0] == 'err':
        return '%s vs %s' % (a[:3] if a[0] == 'err' else 'ok', b[:3] if b[0] == 'err' else 'ok')
    for nm, x, y in (('exp', a[1], b[1]), ('mc', a[2], b[2])):
        if (x is None) != (y is None):
            return '%s data: %s vs %s' % (nm, 'None' if x is None else 'table', 'None' if y is None else 'table')
        if x is not None and not same(x, y):
            return '%s data: %s' % (nm, first_diff(x, y))
    return 'equal'


# ---- histories of loads on ONE Config (and on one Dataset object)

def call_dataset(ds, c, keep, mode, method='prepare'):
    with warnings.catch_warnings():
        warnings.simplefilter('ignore')
        try:
            kw = dict(keep_fields=keep, dtc_dict=np_conv(c['conv']), dtc_except_fields=c['exc'],
                      efficiency_mode=mode)      # the caller's own list objects are handed over (and snapshotted)
            data = ds.load_data(**kw) if method == 'load' else ds.load_and_prepare_data(**kw)
            return ('ok', None if data.exp is None else canon(data.exp), None if data.mc is None else canon(data.mc))
        except Exception as e:  # noqa
            return ('err', classify_exc(e), '%s: %s' % (type(e).__name__, str(e)[:200]))


def _snapshot(obj):
    """deep, comparable snapshot of a Config / dict (values that are not containers by repr)."""
    if isinstance(obj, dict):
        return ('dict', [(repr(k), _snapshot(v)) for k, v in obj.items()])
    if isinstance(obj, (list, tuple)):
        return (type(obj).__name__, [_snapshot(v) for v in obj])
    return repr(obj)


def run_history(case, with_fresh=True):
    """executes the steps of a history on one Config; returns per step
    (result, cfg['datafields'] after the step, config changed?, data set changed?, fresh-config result)."""
    fmt = case['fmt']
    out = []
    with workdir() as d:
        cfg = make_config(d, case['cfg'])
        objs = [build_dataset(d, dict(c, cfg=case['cfg']), fmt, cfg=cfg)[0] for c in case['datasets']]
        tables = [list(c['ds']) for c in case['datasets']]
        if case.get('share_ren'):
            shared_e, shared_m = dict(case['datasets'][0]['eren']), dict(case['datasets'][0]['mren'])
            for o in objs:
                o.exp_field_name_renaming_dict = shared_e
                o.mc_field_name_renaming_dict = shared_m
        for stp in case['steps']:
            i = stp['ds']
            c = case['datasets'][i]
            ds = objs[i]
            if 'table' in stp:
                tables[i] = [list(x) for x in stp['table']]
                ds.datafields = dict((k, int(v)) for k, v in tables[i])
            keep = list(stp.get('keep', c['keep']))
            c = dict(c, exc=None if c['exc'] is None else list(c['exc']))
            snap_cfg = _snapshot(cfg)
            snap_ds = _snapshot([ds.datafields, ds.exp_field_name_renaming_dict, ds.mc_field_name_renaming_dict, keep, c['exc']])
            res = call_dataset(ds, c, keep, c['mode'], stp.get('method', 'prepare'))
            cfg_changed = None if _snapshot(cfg) == snap_cfg else 'cfg[\'datafields\'] = %r' % dict(cfg['datafields'])
            ds_changed = _snapshot([ds.datafields, ds.exp_field_name_renaming_dict, ds.mc_field_name_renaming_dict, keep, c['exc']]) != snap_ds
            fresh = None
            if with_fresh:
                c2 = dict(c, cfg=case['cfg'], ds=tables[i])
                ds2 = build_dataset(d, c2, fmt)[0]
                fresh = call_dataset(ds2, c, list(keep), c['mode'], stp.get('method', 'prepare'))
            out.append((res, [[k, int(v)] for k, v in cfg['datafields'].items()], cfg_changed, ds_changed, fresh,
                        tables[i], list(keep)))
    return out


def o_history(ctx, case):
    """loads on one shared Config / one Dataset object: (1) the Config (deep snapshot) and the data set's own
    tables are not modified by a load, (2) every load equals the same load on a fresh Config and a fresh
    Dataset object, (3) repeating a load on the same Dataset object gives the identical result."""
    return o_history_from(case, run_history(case))


def o_history_from(case, steps):
    seen = {}
    for n, (stp, (res, cfgtab, cfg_changed, ds_changed, fresh, table, keep)) in enumerate(zip(case['steps'], steps)):
        what = 'step %d (data set %d, %s, keep_fields=%r, data-set level table %r)' % (
            n, stp['ds'], 'load_data' if stp.get('method') == 'load' else 'load_and_prepare_data', keep, table)
        if cfg_changed:
            return '%s modified the shared Config: configuration-level table was %r, now %s' % (what, dict(case['cfg']), cfg_changed)
        if ds_changed:
            return '%s modified the Dataset\'s own datafields / renaming dictionaries / the keep_fields argument' % what
        if not same_ds(res, fresh):
            return '%s differs from the same load on a fresh Config: %s' % (what, diff_ds(res, fresh))
        key = repr((stp['ds'], stp.get('method', 'prepare'), keep, table))
        if key in seen and not same_ds(res, seen[key][1]):
            return '%s differs from the identical earlier step %d on the same Dataset object: %s' % (
                what, seen[key][0], diff_ds(res, seen[key][1]))
        seen.setdefault(key, (n, res))
    return None


def o_corr_history(ctx, case):
    """model (pure: every load on the initial configuration table) vs the real history."""
    consts = source_constants()
    steps = run_history(case, with_fresh=False)
    reqs = history_requests(case, consts)
    answers = ctx.driver('C17', [r for r in reqs if r])
    return _compare_history(case, steps, reqs, answers)


def history_requests(case, consts):
    """one `dss` request per load_and_prepare_data step (None for plain load_data steps)."""
    reqs = []
    tables = [list(c['ds']) for c in case['datasets']]
    for stp in case['steps']:
        i = stp['ds']
        c = case['datasets'][i]
        if 'table' in stp:
            tables[i] = [list(x) for x in stp['table']]
        if stp.get('method') == 'load':
            reqs.append(None)
            continue
        c2 = dict(c, cfg=case['cfg'], ds=tables[i], keep=stp.get('keep', c['keep']), fmt=case['fmt'])
        earrs = [None if f.get('missing') else make_table(f) for f in c['exp']]
        marrs = [None if f.get('missing') else make_table(f) for f in c['mc']]
        r = ds_request(c2, earrs, marrs, consts)
        toks = r.split(' ')
        assert toks[0] == 'ds' and toks[5] == 'merged'
        reqs.append(' '.join(['dss'] + toks[1:5] + toks[6:]))
    return reqs


def _compare_history(case, steps, reqs, answers):
    it = iter(answers)
    for n, (stp, st, r) in enumerate(zip(case['steps'], steps, reqs)):
        if r is None:
            continue
        ans = next(it)
        cfgtok, rest = ans.split(' ', 1)
        model_cfg = dict((a, int(b)) for a, b in (x.split(':') for x in cfgtok[4:].split(',') if x != '-'))
        if dict((k, v) for k, v in st[1]) != model_cfg:
            return 'step %d: cfg[\'datafields\'] after the load is %r, model (frame: unchanged) %r' % (n, dict(st[1]), model_cfg)
        model = parse_ds_answer(rest)
        if not same_ds(st[0], model):
            return 'step %d (data set %d) on the shared Config differs from the model: %s' % (n, stp['ds'], diff_ds(st[0], model))
    return None


def gen_history(rng, ctx, consts):
    fmt = rng.choice(['npy', 'npy', 'parquet'])
    a = gen_ds_case(rng, ctx, consts, fmt)
    st = consts['stages']
    names = [n for n, _ in a['cfg']]
    # data set A always has a data-set level table: a new analysis field and/or an override
    tab = dict(a['ds'])
    tab.setdefault(rng.choice(['ds_a', 'ds_b']), rng.choice([st[2], st[2] | st[3], st[3]]))
    if rng.random() < 0.5 and names:
        tab[rng.choice(names)] = rng.choice([0, st[2], st[3], st[0]])
    a['ds'] = [list(x) for x in tab.items()]
    # make A's files hold A's data-set level fields (so that A itself loads)
    for part in ('exp', 'mc'):
        for f in a[part]:
            if not f.get('missing'):
                have = [n for n, _ in f['schema']]
                for n in tab:
                    if n not in have and n not in dict(a['eren']).values() and n not in dict(a['mren']).values():
                        f['schema'].append([n, 'f8'])
    if rng.random() < 0.5:
        a['prep'] = []
    cases = [a]
    for _ in range(rng.choice([1, 1, 2])):
        b = gen_ds_case(rng, ctx, consts, fmt)
        b['cfg'] = a['cfg']
        b['prep'] = []
        if rng.random() < 0.6:
            b['ds'] = []
        # B's files follow the shared configuration-level table
        wanted = [n for n, s in dict(a['cfg']).items() if s] + [n for n, _ in b['ds']]
        for part, inv in (('exp', {v: k for k, v in b['eren']}), ('mc', {v: k for k, v in b['mren']})):
            for f in b[part]:
                if not f.get('missing'):
                    have = [n for n, _ in f['schema']]
                    for n in wanted:
                        if inv.get(n, n) not in have and rng.random() < 0.9:
                            f['schema'].append([inv.get(n, n), 'f8'])
                            have.append(inv.get(n, n))
        cases.append(b)
    cfg_table = a['cfg']
    for c in cases:
        c.pop('cfg', None)
        c.pop('fmt', None)
    steps = [{'ds': 0}, {'ds': 1}, {'ds': 0}]
    extra = []
    for _ in range(rng.choice([1, 2, 3])):
        r = rng.random()
        i = rng.randrange(len(cases))
        if r < 0.3:
            extra.append({'ds': i, 'keep': [n for n in ['x', 'rowid', 'junk1', 'ds_a'] if rng.random() < 0.4]})
        elif r < 0.6:
            extra.append({'ds': i, 'table': [] if rng.random() < 0.6 else [['ds_c', st[2]]]})
        elif r < 0.8:
            extra.append({'ds': i, 'method': 'load'})
        else:
            extra.append({'ds': i})
    share = rng.random() < 0.3
    if share:       # one dictionary object for all data sets (DatasetCollection.set_exp_field_name_renaming_dict does that)
        for c in cases[1:]:
            c['eren'], c['mren'] = cases[0]['eren'], cases[0]['mren']
    return {'fmt': fmt, 'cfg': cfg_table, 'datasets': cases, 'steps': steps + extra, 'share_ren': share}


def _merged(case):
    m = dict((k, int(v)) for k, v in case['cfg'])
    m.update(dict((k, int(v)) for k, v in case['ds']))
    return m


def o_dataset(ctx, case):
    """Dataset.load_and_prepare_data: required analysis fields present, only required/kept fields,
    content = the file column carrying that name after renaming (rows once, in order), missing
    field / file -> error, no error otherwise; identical for both modes."""
    st = source_constants()['stages']
    fmt = case.get('fmt', 'npy')
    res = impl_dataset(case, fmt, case.get('mode', 'time'))
    merged = _merged(case)
    req = {'e': [k for k, s in merged.items() if s & st[2]],
           'm': [k for k, s in merged.items() if s & (st[2] | st[3])]}
    rens = {'e': dict(case['eren']), 'm': dict(case['mren'])}
    files = {'e': case['exp'], 'm': case['mc']}
    missing_file = any(f.get('missing') for f in case['exp'] + case['mc'])
    conv = dict(case['conv'] or [])
    exc = case['exc'] or []
    # --- what the statement says must be in the result
    expect_err = None
    expected = {}
    for w in 'em':
        if not files[w]:
            expected[w] = None
            continue
        if missing_file:
            continue
        arrs = [make_table(f) for f in files[w]]
        names0 = arrs[0].dtype.names
        if any(a.dtype.names != names0 for a in arrs):
            return None          # differing file layouts: only the correspondence looks at these
        tab = {}
        ambiguous = set()
        for f in names0:
            r = rens[w].get(f, f)
            if r in tab:
                ambiguous.add(r)
            if f not in rens[w] and f in rens[w].values():
                # the file has a field literally called like the *new* name of a dictionary entry: which of
                # the two carries the name is not defined by the statement
                ambiguous.add(f)
            d = CODE[arrs[0].dtype[f].str]
            t = d if (r in exc or d not in conv) else conv[d]
            with warnings.catch_warnings():
                warnings.simplefilter('ignore')
                tab[r] = np.concatenate([a[f].astype(DT[t]) for a in arrs])
        prep_ok = True
        for op in case['prep']:
            if op[1] != w:
                continue
            if op[0] == 'dup':
                if op[2] not in tab or op[3] in tab:
                    prep_ok = False
                    break
                tab[op[3]] = tab[op[2]]
                if op[2] in ambiguous:
                    ambiguous.add(op[3])
            else:
                if op[2] not in tab:
                    prep_ok = False
                    break
                del tab[op[2]]
        if not prep_ok:
            return None          # an invalid preparation function: any error is legitimate
        if ambiguous & set(req[w]):
            return None
        miss = [r for r in req[w] if r not in tab]
        if miss:
            expect_err = 'required field(s) %s of the %s data are in no file and not created by the preparation' % (
                miss, 'exp' if w == 'e' else 'mc')
        expected[w] = (tab, ambiguous)
    if missing_file:
        expect_err = 'a listed data file does not exist'
    if not case['livetime'] and expect_err is None:
        expect_err = 'no livetime'
    if expect_err is not None:
        if res[0] != 'err':
            return 'load_and_prepare_data returned normally although %s' % expect_err
        # the error must be one of the documented ones: RuntimeError (file), KeyError (field), ValueError (livetime,
        # refused selection / schema of a text or parquet file) - not an incidental crash
        if res[1] not in ('RuntimeError', 'KeyError', 'ValueError'):
            return 'load_and_prepare_data failed with an undocumented exception (%s) where %s' % (res[2], expect_err)
        if missing_file is False and 'required field' in expect_err and res[1] not in ('KeyError', 'ValueError'):
            return 'a missing required field is reported as %s, not as KeyError' % res[2]
        return None
    if res[0] == 'err' and res[1] == 'KeyError' and any(exp_w is not None and exp_w[1] for exp_w in expected.values()):
        return None              # two file fields carry the same name after renaming: rename_fields refuses (KeyError)
    if res[0] == 'err' and res[1] == 'ValueError' and fmt == 'csv' and not _csv_selection(case):
        return None              # the text loader refuses an empty column selection (documented ValueError)
    if res[0] == 'err':
        # fields needed by a preparation function must be declared with a DATAPREPARATION stage; the
        # generator does so, hence every error here is spurious
        return 'load_and_prepare_data raised %s although every required field and file is present' % res[2]
    for w, got in (('e', res[1]), ('m', res[2])):
        exp_w = expected[w]
        nm = 'exp' if w == 'e' else 'mc'
        if exp_w is None:
            if got is not None:
                return '%s data returned without %s files' % (nm, nm)
            continue
        if got is None:
            return 'no %s data returned' % nm
        tab, ambiguous = exp_w
        for r in req[w]:
            if r not in got[2]:
                return 'field "%s", required for the analysis stage, is missing in the prepared %s data (fields: %s)' % (
                    r, nm, sorted(got[2]))
        allowed = set(req[w]) | set(case['keep'])
        extra = [n for n in got[2] if n not in allowed]
        if extra:
            return 'prepared %s data keeps field(s) %s that are neither required nor requested' % (nm, extra)
        for r in case['keep']:
            if r in tab and r not in got[2] and r not in ambiguous:
                return 'requested field "%s" is in the %s files but not in the prepared data' % (r, nm)
        nrows = len(next(iter(tab.values()))) if tab else 0
        if got[2] and got[1] != nrows:
            return '%s data has length %d, the files hold %d rows' % (nm, got[1], nrows)
        for r, (d, cells) in got[2].items():
            if r in ambiguous or r not in tab:
                continue
            want = (CODE[tab[r].dtype.str], cells_of(tab[r]))
            if (d, cells) != want:
                return '%s field "%s" differs from the file column it is loaded from: %s' % (
                    nm, r, first_diff(('ok', got[1], {r: (d, cells)}), ('ok', got[1], {r: want})))
    if fmt == 'npy':
        other = impl_dataset(case, 'npy', 'memory' if case.get('mode', 'time') == 'time' else 'time')
        if not same_ds(res, other):
            return 'load_and_prepare_data differs between the efficiency modes: %s' % diff_ds(res, other)
    return None


def o_stage_check(ctx, case):
    """or_check / get_joint_names on ints: a field is listed iff its stage shares a bit with stages."""
    from skyllh.core.datafields import DataFields, DataFieldStages
    s, ss = case['stage'], case['stages']
    want = (s & ss) != 0
    if bool(DataFieldStages.or_check(s, ss)) != want:
        return 'or_check(%d, %d) = %s' % (s, ss, not want)
    bits = [b for b in (1, 2, 4, 8, 16) if ss & b]
    if bits and bool(DataFieldStages.or_check(s, bits)) != want:
        return 'or_check(%d, %r) = %s' % (s, bits, not want)
    for seq in ([ss & 5, ss & 10], (ss & 3, ss & 12), [ss]):
        if bool(DataFieldStages.or_check(s, seq)) != want:
            return 'or_check(%d, %r) = %s (sequence of multi-bit stages)' % (s, seq, not want)
    got = DataFields.get_joint_names({'a': s, 'b': 0, 'c': ss}, ss)
    if got != (['a'] if want else []) + (['c'] if ss else []):
        return 'get_joint_names({a:%d,b:0,c:%d}, %d) = %r' % (s, ss, ss, got)
    return None


# ---- correspondence (model vs implementation), one case; used by --replay as well

def ds_request(case, earrs, marrs, consts, tidy='merged'):
    return 'ds %s %s %d %s %s %s %s %s %s %s %s %s %s %d %s %s' % (
        case['fmt'], case['mode'], consts['bs'], ','.join(map(str, consts['stages'])), tidy,
        pairs_token(case['cfg']), pairs_token(case['ds']), pairs_token(case['eren']), pairs_token(case['mren']),
        names_token(case['keep'], none='-'), pairs_token(case['conv'] or []), names_token(case['exc']),
        ','.join(':'.join(op) for op in case['prep']) if case['prep'] else '-', 1 if case['livetime'] else 0,
        files_token(earrs), files_token(marrs))


def parse_ds_answer(line):
    if line.startswith('err '):
        cls = line[4:].strip().split(' ')[0]
        return ('err', PYTYPE.get(cls, cls), 'model ' + line)
    if line.startswith('ok '):
        e, m = line[3:].strip().split(' ')[:2]
        return ('ok', parse_arr(e.split('=', 1)[1]), parse_arr(m.split('=', 1)[1]))
    raise ValueError('driver answer %r' % line[:80])


def keepf_request(case, consts):
    return 'keepf %s %s %s %s %s %s' % (
        ','.join(map(str, consts['stages'])), pairs_token(case['cfg']), pairs_token(case['ds']),
        pairs_token(case['eren']), pairs_token(case['mren']), names_token(case['keep'], none='-'))


def o_corr_load(ctx, case):
    consts = source_constants()
    with workdir() as d:
        paths, arrs = materialise(d, case['files'], case['fmt'])
        impl = impl_load(paths, case['fmt'], case['mode'], case['keep'], case['conv'], case['exc'], case.get('forms') or arg_forms(case))
    model = parse_load_answer(ctx.driver('C17', [load_request(case, arrs, consts['bs'])])[0])
    if not same(impl, model, _multi(case)):
        return 'loader: implementation and model differ: %s' % first_diff(impl, model)
    return None


def o_corr_ds(ctx, case):
    consts = source_constants()
    impl = impl_dataset(case, case['fmt'], case['mode'])
    earrs = [None if f.get('missing') else make_table(f) for f in case['exp']]
    marrs = [None if f.get('missing') else make_table(f) for f in case['mc']]
    model = parse_ds_answer(ctx.driver('C17', [ds_request(case, earrs, marrs, consts)])[0])
    if not same_ds(impl, model, _multi(case)):
        return 'load_and_prepare_data: implementation and model differ: %s' % diff_ds(impl, model)
    return None


def impl_rename(case):
    from skyllh.core.storage import DataFieldRecordArray
    arr = DataFieldRecordArray({n: np.array([i]) for i, n in enumerate(case['names'])}, copy=True)
    try:
        arr.rename_fields(dict((a, b) for a, b in case['ren']))
    except Exception as e:  # noqa
        return ('err', classify_exc(e)), None
    return ('ok', {n: int(arr[n][0]) for n in arr.field_name_list}), list(arr.field_name_list)


def parse_rename(line):
    if line.startswith('err '):
        return ('err', PYTYPE.get(line[4:].strip(), line[4:].strip())), None
    body = line[3:].strip()
    items = [] if body == '-' else [x.split(':') for x in body.split(',')]
    return ('ok', {n: int(v) for n, v in items}), [n for n, _ in items]


def rename_request(case):
    return 'rename %s %s' % (names_token(case['names'], none='-'), pairs_token(case['ren']))


def o_corr_rename(ctx, case):
    """rename_fields of the real DataFieldRecordArray vs the model's sequential pop/set loop (any dictionary:
    chained, colliding, onto existing names)."""
    impl, _ = impl_rename(case)
    model, _ = parse_rename(ctx.driver('C17', [rename_request(case)])[0])
    if impl != model:
        return 'rename_fields(%r) on fields %r: implementation %r, model %r (field -> index of the original field)' % (
            dict(case['ren']), case['names'], impl, model)
    return None


def gen_rename(rng):
    pool = ['a', 'b', 'c', 'd', 'e', 'f']
    names = rng.sample(pool, rng.randrange(0, 6))
    keys = rng.sample(pool + ['g', 'h'], rng.randrange(0, 5))
    ren = [[k, rng.choice(pool + ['g', 'h', 'i'])] for k in keys]
    return {'names': names, 'ren': ren}


def rename_class(case):
    keys = [a for a, _ in case['ren']]
    vals = [b for _, b in case['ren']]
    live = [(a, b) for a, b in case['ren'] if a in case['names']]
    cls = []
    if any(b in keys for _, b in case['ren']):
        cls.append('chained')
    if len(set(vals)) < len(vals):
        cls.append('two-to-one')
    if any(b in case['names'] and b != a for a, b in live):
        cls.append('onto-existing')
    if any(a == b for a, b in case['ren']):
        cls.append('identity')
    return cls or ['plain']


# ---- branch coverage of the correspondence: which branch of which modelled function a compared case drives
# (model side: the raw error class of the driver answer; otherwise derived from the case)

ALL_BRANCHES = [
    'isKept:none', 'isKept:listed-hit', 'isKept:listed-miss', 'isKept:empty-list',
    'targetDt:excepted', 'targetDt:converted', 'targetDt:unlisted',
    'openFile:missing', 'openFile:present',
    'memRows:no-row', 'memRows:reopen-at-row-0-only', 'memRows:reopen-later-block',
    'arrLen:no-field', 'arrLen:first-field',
    'appendAll:single-file', 'appendAll:append', 'appendArr:keyError', 'appendArr:promote', 'appendArr:extra-field-ignored',
    'castCopy:castKind', 'castAssign:castOverflow', 'castAssign:float-truncated',
    'pqAll:schemaMismatch', 'pqAll:concat', 'csv:noColumns', 'csv:retyped-to-f8',
    'loadPart:no-files', 'loadPart:files', 'invLookup:hit', 'invLookup:miss',
    'mergeTables:override', 'mergeTables:new-entry', 'mergeTables:no-dataset-table',
    'excOrig:none', 'excOrig:list', 'prep:dup', 'prep:del', 'prep:keyError',
    'tidyUp:removes', 'tidyUp:keeps-all', 'assertFormat:missing-exp', 'assertFormat:missing-mc', 'assertFormat:noLivetime',
    'assertFormat:ok',
    'renameGo:absent-key', 'renameGo:pop-set', 'renameGo:collision', 'renameGo:empty',
    'absPaths:abs', 'absPaths:rel', 'absPaths:empty',
    'pkl:one', 'pkl:many', 'pkl:empty', 'pkl:fileMissing',
    'i3Livetime:given', 'i3Livetime:livetime-column', 'i3Livetime:windows', 'i3Livetime:keyError', 'i3Livetime:none',
    'i3Select:run-mask', 'i3Select:no-run-field', 'i3Select:time-mask', 'i3Select:no-time-field',
    'applyMask:all-true', 'applyMask:selection', 'addSin:added', 'addSin:exists', 'loadGrl:none', 'loadGrl:sorted',
    'loadGrl:renamed', 'loadGrl:keyError',
    'orCheck:true', 'orCheck:false',
    'dispatch:typeError', 'dispatch:indexError', 'dispatch:noLoader', 'dispatch:match', 'dispatch:match-str-form',
    'register:typeError-formats', 'register:typeError-class', 'register:keyError-first', 'register:keyError-after-some', 'register:ok',
    'extract:not-a-comment-line', 'extract:no-names', 'extract:whitespace-split', 'extract:separator-split',
    'header:valueError', 'header:noColumns', 'select:all', 'select:usecols',
]


def _raw_err(ans):
    return ans.split(' ')[1] if ans.startswith('err ') else (ans.split(' ')[2] if ' err ' in ans[:400] and ans.startswith('cfg=') else None)


def branches_load(c, ans, bs):
    out = []
    live = [f for f in c['files'] if not f.get('missing')]
    out.append('openFile:missing' if len(live) < len(c['files']) else 'openFile:present')
    err = _raw_err(ans)
    if err in ('keyError',):
        out.append('appendArr:keyError')
    if err == 'schemaMismatch':
        out.append('pqAll:schemaMismatch')
    if err == 'noColumns':
        out.append('csv:noColumns')
    if err == 'castKind':
        out.append('castCopy:castKind')
    if err == 'castOverflow':
        out.append('castAssign:castOverflow')
    if not live:
        return out
    names = [n for n, _ in live[0]['schema']]
    keep = c['keep']
    if keep is None:
        out.append('isKept:none')
    elif not keep:
        out.append('isKept:empty-list')
    else:
        if any(n in keep for n in names):
            out.append('isKept:listed-hit')
        if any(n not in keep for n in names):
            out.append('isKept:listed-miss')
    conv = dict(c['conv'] or [])
    exc = c['exc'] or []
    for n, d in live[0]['schema']:
        if keep is not None and n not in keep:
            continue
        dd = 'f8' if c['fmt'] == 'csv' else d
        out.append('targetDt:excepted' if n in exc else 'targetDt:converted' if dd in conv else 'targetDt:unlisted')
        if c['fmt'] == 'npy' and c['mode'] == 'memory' and d in ('f8', 'f4') and conv.get(d) in ('i8', 'i4') and n not in exc and err is None:
            out.append('castAssign:float-truncated')
        if c['fmt'] == 'csv' and d != 'f8':
            out.append('csv:retyped-to-f8')
    sel = [n for n in names if keep is None or n in keep]
    if err is None:
        out.append('arrLen:first-field' if sel else 'arrLen:no-field')
    if c['fmt'] == 'npy' and c['mode'] == 'memory':
        for f in live:
            out.append('memRows:no-row' if f.get('n', 1) == 0 and 'cols' not in f else
                       'memRows:reopen-later-block' if f.get('n', 0) > bs else 'memRows:reopen-at-row-0-only')
    if len(c['files']) == 1:
        out.append('appendAll:single-file')
    elif err is None and len(live) == len(c['files']):
        out.append('pqAll:concat' if c['fmt'] == 'parquet' else 'appendAll:append')
        if c['fmt'] != 'parquet':
            for f in live[1:]:
                d0 = dict(live[0]['schema'])
                d1 = dict(f['schema'])
                if any(n in d1 and d1[n] != d0[n] for n in sel) and c['fmt'] == 'npy':
                    out.append('appendArr:promote')
                if any(n not in d0 for n in d1):
                    out.append('appendArr:extra-field-ignored')
    return out


def branches_ds(c, ans, consts):
    st = consts['stages']
    out = []
    err = _raw_err(ans)
    for part in ('exp', 'mc'):
        out.append('loadPart:files' if c[part] else 'loadPart:no-files')
    cfgn = [n for n, _ in c['cfg']]
    if not c['ds']:
        out.append('mergeTables:no-dataset-table')
    for n, _ in c['ds']:
        out.append('mergeTables:override' if n in cfgn else 'mergeTables:new-entry')
    merged = _merged(c)
    vals_e = [b for _, b in c['eren']]
    for n in list(merged) + list(c['keep']):
        out.append('invLookup:hit' if n in vals_e else 'invLookup:miss')
    out.append('excOrig:none' if c['exc'] is None else 'excOrig:list')
    for op in c['prep']:
        out.append('prep:' + op[0])
    if 'trace=' in ans:
        tr = ans.rsplit('trace=', 1)[1].strip().split(',')
        if tr[0] == 'prep':
            out.append('prep:keyError')
        elif len(tr) == 2:
            out.append('tidyUp:' + tr[0])
            out.append('assertFormat:' + tr[1])
    return out


def branches_rename(c, ans):
    out = []
    if not c['ren']:
        out.append('renameGo:empty')
    for a, b in c['ren']:
        out.append('renameGo:pop-set' if a in c['names'] else 'renameGo:absent-key')
    if ans.startswith('err '):
        out.append('renameGo:collision')
    return out


def branches_i3(c, ans):
    out = []
    err = _raw_err(ans)
    g = c['grl']
    out.append('loadGrl:none' if not g else 'loadGrl:sorted')
    if g and c['gren']:
        out.append('loadGrl:renamed')
    ren = dict(c['gren'])
    gn = [ren.get(n, n) for n, _ in g[0]['schema']] if g else []
    if g and 'start' not in gn:
        out.append('loadGrl:keyError')
    if c['livetime'] is not None:
        out.append('i3Livetime:given')
    elif not g:
        out.append('i3Livetime:none')
    elif 'livetime' in gn:
        out.append('i3Livetime:livetime-column')
    elif 'start' in gn and 'stop' in gn:
        out.append('i3Livetime:windows')
    else:
        out.append('i3Livetime:keyError')
    if err is None and c['exp']:
        en = [n for n, _ in c['exp'][0]['schema']]
        out.append('addSin:exists' if 'sin_dec' in en else 'addSin:added')
        if g:
            out.append('i3Select:run-mask' if 'run' in gn and 'run' in en else 'i3Select:no-run-field')
            out.append('i3Select:time-mask' if 'start' in gn and 'stop' in gn and 'time' in en else 'i3Select:no-time-field')
            nrows = sum(len(f['cols']['rowid']) for f in c['exp'])
            toks = dict(t.split('=', 1) for t in ans[3:].strip().split(' '))
            kept = int(toks['exp'].split('/')[0]) if toks['exp'] != 'none' else 0
            out.append('applyMask:all-true' if kept == nrows else 'applyMask:selection')
    return out


# ---- IceCube data sets with a good-run list (skyllh/i3/dataset.py)

SIN_FIELDS = ('sin_dec', 'sin_true_dec')


def gen_i3_case(rng, ctx, consts, force=None):
    st = consts['stages']
    fmt = rng.choice(['npy', 'npy', 'parquet'])
    cfg = [['run', st[2]], ['time', st[2]], ['dec', st[2]], ['sin_dec', st[2]]]
    has_mc = rng.random() < 0.4
    if has_mc:
        cfg += [['true_dec', st[3]], ['sin_true_dec', st[3]]]
    if rng.random() < 0.5:
        cfg.append(['x', rng.choice([0, st[0], st[2]])])
    has_sin = rng.random() < 0.15
    drop = None if has_mc else rng.choice([None] * 8 + ['run', 'time'])   # exp data without run / time: that selection is skipped
    if drop:
        cfg = [e for e in cfg if e[0] != drop]

    def table(n, fileno, mc):
        cols = {'rowid': [100000 * fileno + i for i in range(n)],
                'run': [rng.choice([1, 2, 3, 4, 9]) for _ in range(n)],
                'time': [rng.randrange(0, 49) * 0.25 for _ in range(n)],
                'dec': [rng.randrange(-6, 7) * 0.25 for _ in range(n)],
                'x': [rng.random() for _ in range(n)]}
        schema = [['rowid', 'i8'], ['run', 'i8'], ['time', 'f8'], ['dec', 'f8'], ['x', 'f8']]
        if mc:
            cols['true_dec'] = [rng.randrange(-6, 7) * 0.25 for _ in range(n)]
            schema.append(['true_dec', 'f8'])
        if has_sin:      # the file already holds sin_dec (prepare_data must leave it alone)
            cols['sin_dec'] = [float(np.sin(x)) for x in cols['dec']]
            schema.append(['sin_dec', 'f8'])
        if drop and not mc:
            schema = [s for s in schema if s[0] != drop]
            cols.pop(drop)
        return {'schema': schema, 'cols': cols}
    nexp = rng.choice([0, 1, 1, 2, 3]) if has_mc else rng.choice([1, 1, 2, 3])
    exp = []
    if nexp:
        first = table(rng.randrange(0, 12), 0, False)
        exp = [first]
        for i in range(1, nexp):
            t = table(rng.randrange(0, 8), i, False)
            t['schema'] = [s for s in t['schema'] if s[0] in [x[0] for x in first['schema']]]
            t['cols'] = {k: v for k, v in t['cols'].items() if k in [x[0] for x in first['schema']]}
            for s in first['schema']:
                if s[0] not in t['cols']:
                    t = None
                    break
            if t is None:
                t = dict(first, cols={k: list(v) for k, v in first['cols'].items()})
            exp.append(t)
    mc = [table(rng.randrange(0, 6), 7, True)] if has_mc else []
    # the good-run list: distinct start times on the 0.25 grid, live times multiples of 2**-10 (exact sums)
    ngrl = rng.choice([0, 1, 1, 1, 2])
    if force:
        ngrl = 1
    grl, starts = [], rng.sample(range(0, 44), 8)
    gren = rng.choice([[], [], [['good_tstart', 'start'], ['good_tstop', 'stop']]])
    inv = {b: a for a, b in gren}
    gdrop = rng.choice([None] * 6 + ['run', 'livetime', 'livetime', 'stop', 'start', 'livetime+stop'])
    if force:
        gdrop = force['gdrop']
    for g in range(ngrl):
        k = rng.randrange(0, 4)
        ss = [starts.pop() * 0.25 for _ in range(k)]
        cols = {'run': [rng.choice([1, 2, 3, 4]) for _ in range(k)], 'start': ss,
                'stop': [s + rng.choice([0.0, 0.25, 0.5, 1.0, 3.0]) for s in ss],
                'livetime': [rng.randrange(0, 2048) / 1024.0 for _ in range(k)]}
        schema = [['run', 'i8'], ['start', 'f8'], ['stop', 'f8'], ['livetime', 'f8']]
        for gd in (gdrop.split('+') if gdrop else []):
            schema = [s for s in schema if s[0] != gd]
            cols.pop(gd)
        grl.append({'schema': [[inv.get(n, n), d] for n, d in schema], 'cols': {inv.get(n, n): v for n, v in cols.items()}})
    return {'fmt': fmt, 'mode': rng.choice(['time', 'memory']) if fmt == 'npy' else 'time', 'cfg': cfg, 'ds': [],
            'eren': [], 'mren': [], 'gren': gren, 'keep': ['rowid'] if rng.random() < 0.8 else [], 'prep': [],
            'livetime': None if force else rng.choice([None, None, 2.5]), 'exp': exp, 'mc': mc, 'grl': grl}


def impl_i3(case):
    from skyllh.i3.dataset import I3Dataset
    with workdir() as d, warnings.catch_warnings():
        warnings.simplefilter('ignore')
        try:
            cfg = make_config(d, case['cfg'])
            epaths, _ = materialise(d, case['exp'], case['fmt'], 'e')
            mpaths, _ = materialise(d, case['mc'], case['fmt'], 'm')
            gpaths, _ = materialise(d, case['grl'], case['fmt'], 'g')
            ds = I3Dataset(cfg=cfg, name='c17i3', exp_pathfilenames=epaths, mc_pathfilenames=mpaths,
                           grl_pathfilenames=gpaths, livetime=case['livetime'], default_sub_path_fmt='', version=1)
            ds.grl_field_name_renaming_dict = dict(case['gren'])
        except Exception as e:  # noqa
            raise MachineryError('C17 fixture: cannot build the I3Dataset: %s: %s' % (type(e).__name__, e))
        try:
            data = ds.load_and_prepare_data(keep_fields=list(case['keep']), efficiency_mode=case['mode'])
            lt = data.livetime
            return ('ok', None if data.exp is None else canon(data.exp), None if data.mc is None else canon(data.mc),
                    None if data.grl is None else canon(data.grl), None if lt is None else float(lt))
        except Exception as e:  # noqa
            return ('err', classify_exc(e), '%s: %s' % (type(e).__name__, str(e)[:200]))


def i3_request(case, consts):
    arrs = [[make_table(f) for f in case[k]] for k in ('exp', 'mc', 'grl')]
    return 'i3 %s %s %d %s %s - - - %s %s - %s %s %s %s' % (
        case['fmt'], case['mode'], consts['bs'], ','.join(map(str, consts['stages'])), pairs_token(case['cfg']),
        pairs_token(case['gren']), names_token(case['keep'], none='-'),
        '*' if case['livetime'] is None else f2b(case['livetime']),
        files_token(arrs[0]), files_token(arrs[1]), files_token(arrs[2]))


def parse_i3_answer(line):
    if line.startswith('err '):
        return ('err', PYTYPE.get(line[4:].strip(), line[4:].strip()), 'model ' + line)
    toks = dict(t.split('=', 1) for t in line[3:].strip().split(' '))
    return ('ok', parse_arr(toks['exp']), parse_arr(toks['mc']), parse_arr(toks['grl']),
            None if toks['livetime'] == 'none' else b2f(toks['livetime']))


def _same_table_sin(x, y):
    """exact, except the np.sin fields (libm of the model vs numpy's sin): 4 ulp."""
    if (x is None) != (y is None):
        return False
    if x is None:
        return True
    if x[1] != y[1] or set(x[2]) != set(y[2]):
        return False
    for n in x[2]:
        if n in SIN_FIELDS:
            if x[2][n][0] != y[2][n][0] or len(x[2][n][1]) != len(y[2][n][1]):
                return False
            for p, q in zip(x[2][n][1], y[2][n][1]):
                if abs(b2f(p) - b2f(q)) > 5e-16:
                    return False
        elif x[2][n] != y[2][n]:
            return False
    return True


def same_i3(a, b):
    if a[0] != b[0]:
        return False
    if a[0] == 'err':
        return a[1] == b[1]
    return _same_table_sin(a[1], b[1]) and _same_table_sin(a[2], b[2]) and _same_table_sin(a[3], b[3]) and a[4] == b[4]


def diff_i3(a, b):
    if a[0] != b[0] or a[0] == 'err':
        return '%s vs %s' % (a[:3] if a[0] == 'err' else 'ok', b[:3] if b[0] == 'err' else 'ok')
    for nm, x, y in (('exp', a[1], b[1]), ('mc', a[2], b[2]), ('grl', a[3], b[3])):
        if not _same_table_sin(x, y):
            return '%s: %s' % (nm, 'None vs table' if (x is None) != (y is None) else first_diff(x, y))
    return 'livetime %r vs %r' % (a[4], b[4])


def o_i3(ctx, case):
    """I3Dataset with a good-run list: exactly the events whose run is in the list and whose time lies in one of
    its [start, stop] windows are kept, each once, in file order (all events without a list); live time = the given
    one, else the sum of the list; sin_dec = sin(dec) of the kept events."""
    res = impl_i3(case)
    exp = [make_table(f) for f in case['exp']]
    grl = [make_table(f) for f in case['grl']]
    ren = dict(case['gren'])
    gcols = None
    if grl:
        names0 = [ren.get(n, n) for n in grl[0].dtype.names]
        gcols = {ren.get(n, n): np.concatenate([g[n] for g in grl]) for n in grl[0].dtype.names}
    if gcols is not None and 'start' not in gcols:
        # load_grl sorts the list by its (documented, mandatory) start field
        if res[0] != 'err' or res[1] != 'KeyError':
            return 'a good-run list without a start field is not reported as KeyError: %r' % (res[:3],)
        return None
    # live time the statement asks for
    want_lt, lt_err = case['livetime'], False
    if want_lt is None:
        if gcols is None:
            lt_err = True
        elif 'livetime' in gcols:
            want_lt = float(np.sum(gcols['livetime']))
        elif 'start' in gcols and 'stop' in gcols:
            want_lt = float(np.sum(gcols['stop'] - gcols['start']))
        else:
            lt_err = True
    if lt_err:
        if res[0] != 'err':
            return 'load_and_prepare_data returned although no live time is given and the good-run list provides none'
        return None if res[1] in ('ValueError', 'KeyError') else 'undocumented exception %s without live time' % res[2]
    if res[0] == 'err':
        return 'I3Dataset.load_and_prepare_data raised %s (files and required fields are all there)' % res[2]
    if abs(res[4] - want_lt) > 1e-12:
        return 'live time %r, expected %r (given: %r; good-run list: %s)' % (res[4], want_lt, case['livetime'],
                                                                          None if gcols is None else sorted(gcols))
    if exp:
        allrows = {n: np.concatenate([e[n] for e in exp]) for n in exp[0].dtype.names}
        n = len(allrows['rowid'])
        keep = np.ones(n, dtype=bool)
        if gcols is not None:
            if 'run' in gcols and 'run' in allrows:
                keep &= np.array([r in set(gcols['run'].tolist()) for r in allrows['run'].tolist()], dtype=bool)
            if 'start' in gcols and 'stop' in gcols and 'time' in allrows:
                keep &= np.array([any(s <= t <= e for s, e in zip(gcols['start'].tolist(), gcols['stop'].tolist()))
                                  for t in allrows['time'].tolist()], dtype=bool)
        got = res[1]
        if got is None:
            return 'no exp data returned'
        if 'rowid' in got[2]:
            want = allrows['rowid'][keep].tolist()
            if got[2]['rowid'][1] != want:
                return 'events kept: rowid %r, expected (run in the good-run list and time in an on-time window, in file order) %r' % (
                    got[2]['rowid'][1], want)
        if 'sin_dec' in got[2] and 'dec' in got[2]:
            if got[2]['sin_dec'][1] != cells_of(np.sin(np.array([b2f(x) for x in got[2]['dec'][1]]))):
                return 'sin_dec is not sin(dec) of the kept events'
        if got[2] and got[1] != int(keep.sum()):
            return 'exp data has length %d, %d events are inside the good-run list' % (got[1], int(keep.sum()))
    if res[3] is not None and 'start' in res[3][2]:
        ss = [b2f(x) for x in res[3][2]['start'][1]]
        if ss != sorted(ss):
            return 'the returned good-run list is not sorted by start time'
    return None


def impl_pkl(case):
    from skyllh.core.storage import create_FileLoader
    with workdir() as d:
        paths = []
        for i, o in enumerate(case['objs']):
            pth = os.path.join(d, 'o%d.pkl' % i)
            if o is not None:
                with open(pth, 'wb') as f:
                    pickle.dump(o, f)
            paths.append(pth)
        try:
            from skyllh.core.storage import PKLFileLoader
            fl = create_FileLoader(paths) if paths else PKLFileLoader([])
            r = fl.load_data(**({'keep_fields': ['a']} if case.get('kwargs') else {}))
        except Exception as e:  # noqa
            return 'err ' + classify_exc(e)
    if isinstance(r, list):
        return 'many ' + (','.join(r) if r else '-')
    return 'one ' + str(r)


def pkl_request(case):
    return 'pkl ' + (','.join('!' if o is None else o for o in case['objs']) if case['objs'] else '-')


def o_corr_pkl(ctx, case):
    impl = impl_pkl(case)
    model = ctx.driver('C17', [pkl_request(case)])[0]
    if model.startswith('err '):
        model = 'err ' + PYTYPE.get(model[4:], model[4:])
    if impl != model:
        return 'PKLFileLoader.load_data on %r: implementation %r, model %r' % (case['objs'], impl, model)
    return None


def o_corr_i3(ctx, case):
    impl = impl_i3(case)
    model = parse_i3_answer(ctx.driver('C17', [i3_request(case, source_constants())])[0])
    if not same_i3(impl, model):
        return 'I3Dataset.load_and_prepare_data: implementation and model differ: %s' % diff_i3(impl, model)
    return None


# ---- the file lists of a data set are its own objects (aliasing of list arguments)

def gen_alias_case(rng):
    n = rng.randrange(0, 4)
    ops = []
    for _ in range(rng.randrange(1, 5)):
        r = rng.random()
        ops.append(['app', 'x%d' % len(ops)] if r < 0.5 else ['pop'] if r < 0.7 else ['rev'] if r < 0.9 else ['clear'])
    return {'initial': ['f%d' % i for i in range(n)], 'ops': ops, 'which': rng.choice(['exp', 'mc', 'grl']),
            'via': rng.choice(['constructor', 'setter']), 'form': rng.choice(['list', 'list', 'tuple'])}


def _apply_listop(lst, op):
    if op[0] == 'app':
        lst.append(op[1])
    elif op[0] == 'pop':
        if lst:
            lst.pop()
    elif op[0] == 'rev':
        lst.reverse()
    else:
        del lst[:]


def impl_alias(case):
    """define a data set from the caller's list object, let the caller change that object, read the data set's list."""
    from skyllh.i3.dataset import I3Dataset
    with workdir() as d:
        cfg = make_config(d, [])
        mine = list(case['initial'])
        handed = mine if case['form'] == 'list' else tuple(mine)
        kw = dict(exp_pathfilenames=None, mc_pathfilenames=None, grl_pathfilenames=None)
        if case['via'] == 'constructor':
            kw[case['which'] + '_pathfilenames'] = handed
        ds = I3Dataset(cfg=cfg, name='alias', livetime=1., default_sub_path_fmt='', version=1, **kw)
        if case['via'] == 'setter':
            setattr(ds, case['which'] + '_pathfilename_list', handed)
        for op in case['ops']:
            _apply_listop(mine, op)
        got = getattr(ds, case['which'] + '_pathfilename_list')
        return got, type(got).__name__


def alias_request(case):
    return 'alias %s %s' % (names_token(case['initial'], none='-'),
                            ','.join('app:' + o[1] if o[0] == 'app' else o[0] for o in case['ops']))


def o_definition_isolated(ctx, case):
    """a data set lists (and loads) the files it was defined with, whatever the caller does afterwards with the list
    object it handed in; two data sets defined from one list object do not share their file list; the property
    returns a list also when a tuple was handed in."""
    got, tp = impl_alias(case)
    if tp != 'list':
        return '%s_pathfilename_list is a %s (a %s was handed in), a list is documented' % (case['which'], tp, case['form'])
    if list(got) != list(case['initial']):
        return 'the data set was defined (%s, %s handed in) with the %s files %r; after the caller changed its own list object (%r) the data set lists %r' % (
            case['via'], case['form'], case['which'], case['initial'], case['ops'], list(got))
    if case.get('load'):
        # the loaded rows are those of the files of the definition
        from skyllh.core.dataset import Dataset
        with workdir() as d, warnings.catch_warnings():
            warnings.simplefilter('ignore')
            cfg = make_config(d, [['rowid', 4]])
            specs = [{'schema': [['rowid', 'i8']], 'cols': {'rowid': [10 * i, 10 * i + 1]}} for i in range(len(case['initial']) + 3)]
            paths, _ = materialise(d, specs, 'npy')
            k = len(case['initial'])
            mine = list(paths[:k])
            a = Dataset(cfg=cfg, name='a', exp_pathfilenames=mine, mc_pathfilenames=None, livetime=1., default_sub_path_fmt='', version=1)
            b = Dataset(cfg=cfg, name='b', exp_pathfilenames=mine, mc_pathfilenames=None, livetime=1., default_sub_path_fmt='', version=1)
            extra = iter(paths[k:])
            for op in case['ops']:
                _apply_listop(mine, [op[0], next(extra, paths[-1])] if op[0] == 'app' else op)
            b.exp_pathfilename_list.append(paths[-1])       # changing b's own list must not change a
            want = [10 * i + j for i in range(k) for j in (0, 1)]
            if k:
                data = a.load_and_prepare_data()
                gotrows = data.exp['rowid'].tolist()
                if gotrows != want:
                    return 'data set defined with %d files loads rowid %r, expected %r (the caller extended / changed its list afterwards)' % (
                        k, gotrows, want)
    return None


def o_corr_alias(ctx, case):
    got, _ = impl_alias(case)
    ans = ctx.driver('C17', [alias_request(case)])[0]
    model = [] if ans == '-' else ans.split(',')
    if list(got) != model:
        return 'file list of the data set after the caller changed its list object: implementation %r, model %r' % (list(got), model)
    return None


def path_class(kinds):
    if not kinds:
        return 'none'
    if all(k == 'abs' for k in kinds):
        return 'all-abs'
    if all(k == 'rel' for k in kinds):
        return 'all-rel'
    seen_rel = False
    for k in kinds:
        if k == 'rel':
            seen_rel = True
        elif seen_rel:
            return 'mixed:rel-before-abs'
    return 'mixed:abs-first'


def gen_paths(rng):
    n = rng.randrange(0, 6)
    ents = []
    for i in range(n):
        nm = rng.choice(['a', 'b', 'c', 'sub/d', 'e']) + '%d.pkl' % i
        ents.append(['r', nm] if rng.random() < 0.5 else ['a', '/data/other/' + nm])
    return {'entries': ents, 'load': rng.random() < 0.5}


def impl_abs_paths(d, case):
    """the public path API of a Dataset on a listed mix of relative / absolute names (+ aux data loaded in order)."""
    from skyllh.core.dataset import Dataset
    cfg = make_config(d, [])
    listed = [nm if k == 'r' else nm for k, nm in case['entries']]
    ds = Dataset(cfg=cfg, name='paths', exp_pathfilenames=list(listed), mc_pathfilenames=list(listed), livetime=1.,
                 default_sub_path_fmt=SUB_PATH_FMT, version=1)
    return ds, listed


def o_abs_paths(ctx, case):
    """get_abs_pathfilename_list / exp_abs_pathfilename_list / mc_abs_pathfilename_list resolve every listed name in
    place (listed order kept); auxiliary data files listed as a mix are loaded in the listed order."""
    with workdir() as d:
        ds, listed = impl_abs_paths(d, case)
        root = ds.root_dir
        want = [nm if os.path.isabs(nm) else os.path.join(root, nm) for nm in listed]
        for what, got in (('get_abs_pathfilename_list', ds.get_abs_pathfilename_list(list(listed))),
                          ('exp_abs_pathfilename_list', ds.exp_abs_pathfilename_list),
                          ('mc_abs_pathfilename_list', ds.mc_abs_pathfilename_list)):
            if list(got) != want:
                return '%s for the listed names %r (root_dir %r) = %r, expected the names resolved in listed order %r' % (
                    what, listed, root, list(got), want)
        if case.get('load') and len(listed) > 1:
            # auxiliary data: file i holds the number i; relative files under root_dir, absolute ones elsewhere
            names = []
            for i, (k, nm) in enumerate(case['entries']):
                base = os.path.basename(nm)
                full = os.path.join(root, 'aux', base) if k == 'r' else os.path.join(d, 'auxabs', base)
                os.makedirs(os.path.dirname(full), exist_ok=True)
                with open(full, 'wb') as f:
                    pickle.dump(i, f)
                names.append(os.path.join('aux', base) if k == 'r' else full)
            ds.add_aux_data_definition('numbers', names)
            got = ds.load_aux_data('numbers')
            if list(got) != list(range(len(names))):
                return 'load_aux_data on the listed files %r returned the objects of files %r (listed order expected)' % (names, list(got))
    return None


def abspaths_request(root, case):
    return 'abspaths %s %s' % (root, ','.join('%s:%s' % (k, nm) for k, nm in case['entries']) if case['entries'] else '-')


def o_corr_paths(ctx, case):
    with workdir() as d:
        ds, listed = impl_abs_paths(d, case)
        root = ds.root_dir
        got = list(ds.get_abs_pathfilename_list(list(listed)))
    ans = ctx.driver('C17', [abspaths_request(root, case)])[0]
    model = [] if ans == '-' else ans.split(',')
    if got != model:
        return 'get_abs_pathfilename_list(%r): implementation %r, model %r' % (listed, got, model)
    return None


def o_dispatch(ctx, case):
    return r7.o_dispatch(ctx, case, source_constants(), _recording_format)


def o_register(ctx, case):
    r7.mirror(source_constants(), _recording_format)
    pre, clsname, outcome, probes = r7.impl_register(case)
    return r7.check_register(case, pre, clsname, outcome, probes)


def o_corr_dispatch(ctx, case):
    reg = r7.mirror(source_constants(), _recording_format)
    got = r7.impl_dispatch(case)
    model = r7.parse_dispatch(ctx.driver('C17', [r7.dispatch_request(case, reg)])[0])
    return None if got == model else 'create_FileLoader: implementation %r, model %r' % (got, model)


def o_corr_header(ctx, case):
    with workdir() as d:
        got = r7.impl_header(d, case, 'c')
    model = r7.parse_header(ctx.driver('C17', [r7.header_request(case)])[0], case['ncols'])
    return None if got[0] == model[0] and got[-1] == model[-1] else 'text header: implementation %r, model %r' % (got, model)


ORACLES = {'dispatch': o_dispatch, 'register': o_register, 'corr_dispatch': o_corr_dispatch, 'header': r7.o_header,
           'corr_header': o_corr_header, 'definition_isolated': o_definition_isolated, 'corr_alias': o_corr_alias, 'reuse': o_reuse, 'csv_options': o_csv_options, 'i3': o_i3, 'corr_i3': o_corr_i3, 'corr_pkl': o_corr_pkl, 'abs_paths': o_abs_paths, 'corr_paths': o_corr_paths, 'corr_rename': o_corr_rename, 'writeable': o_writeable, 'csv_comma': o_csv_comma, 'str_args': o_str_args, 'pkl_dataset': o_pkl_dataset,
           'history': o_history, 'corr_history': o_corr_history, 'modes': o_modes, 'reference': o_reference, 'formats': o_formats, 'dataset': o_dataset,
           'stage_check': o_stage_check, 'corr_load': o_corr_load, 'corr_ds': o_corr_ds}


def _classify(name, res):
    import re
    if name == 'modes':
        if 'TypeError' in res:
            return 'kind-changing-conversion'
        if 'OverflowError' in res:
            return 'int-narrowing-out-of-range'
        return 'result-differs'
    if name == 'formats':
        m = re.search(r'format (\w+) differs', res)
        f = m.group(1) if m else 'x'
        if 'pandas' in res:
            return f + '-needs-pandas'
        if 'ArrowInvalid' in res:
            return f + '-rejects-unknown-keep-field'
        if 'IndexError' in res:
            return f + '-one-row-table'
        return f + '-result-differs'
    if name == 'reference':
        m = re.match(r'(\w+) loader', res)
        return (m.group(1) if m else 'x') + ('-raises' if 'error ' in res.split('reference')[0] else '-wrong-result')
    if name == 'reuse':
        return 'argument-modified' if 'modified one of its arguments' in res else 'shared-memory' if 'shares memory' in res else 'live-view'
    if name == 'csv_options':
        return 'no-header' if 'without a header' in res else 'header-comment'
    if name == 'writeable':
        return 'read-only-arrays'
    if name == 'csv_comma':
        return 'comma-separated-file'
    if name == 'pkl_dataset':
        return 'attribute-error' if 'AttributeError' in res else 'result-differs'
    if name == 'str_args':
        if 'dtc_except_fields' in res or 'dtype_conversion_except_fields' in res:
            return 'except-fields-as-str'
        if 'keep_fields=None' in res:
            return 'keep-fields-none'
        if 'keep_fields' in res:
            return 'keep-fields-as-str'
        if 'efficiency_mode' in res:
            return 'efficiency-mode-none'
        return 'livetime-argument'
    if name == 'history':
        if 'modified the shared Config' in res:
            return 'config-modified'
        if 'modified the Dataset' in res:
            return 'dataset-modified'
        if 'fresh Config' in res:
            return 'differs-from-fresh-config'
        return 'repeat-differs'
    if name == 'dataset':
        if 'required for the analysis stage, is missing' in res:
            return 'required-field-dropped'
        if 'returned normally although' in res:
            return 'missing-not-reported'
        if 'raised' in res:
            return 'spurious-error'
        if 'efficiency modes' in res:
            return 'modes-differ'
        return 'wrong-content'
    return 'wrong-result'


# ------------------------------------------------------------------------------------------
# generators

POOL = ['run', 'ra', 'dec', 'ang_err', 'time', 'log_energy', 'true_ra', 'true_dec', 'true_energy', 'mcweight',
        'x', 'y', 'azi', 'zen', 'rowid']
ORIG = {'ra': 'RA', 'dec': 'DEC', 'time': 'MJD', 'log_energy': 'logE', 'true_ra': 'trueRa', 'mcweight': 'ow',
        'x': 'X', 'run': 'Run'}
CONVS = [None, None, [], [('f8', 'f4')], [('f8', 'f4')], [('i8', 'i4')], [('f8', 'f4'), ('i8', 'i4')], [('i8', 'f8')],
         [('i4', 'f4')], [('f4', 'f8'), ('i4', 'i8')], [('i8', 'f4'), ('f8', 'f4')],
         # chained maps (a target dtype is also a source dtype): the conversion is one step, not a closure
         [('i8', 'i4'), ('i4', 'f4')], [('f8', 'f4'), ('f4', 'f8')], [('i4', 'i8'), ('i8', 'f8')], [('i8', 'f8'), ('f8', 'f4')]]


NAME_FAMILIES = [['dec', 'true_dec', 'sin_dec', 'sin_true_dec'], ['ra', 'true_ra', 'run', 'r'], ['energy', 'log_energy', 'true_energy'],
                 ['a', 'aa', 'aaa', 'ba'], ['time', 'Time', 'livetime', 'tim'], ['x', 'x_err', 'ang_err', 'err']]


def conv_chained(conv):
    return bool(conv) and any(b in [a for a, _ in conv] for _, b in conv)


def gen_schema(rng, all_f8=False, nmin=1):
    k = rng.choice([1, 2, 2, 3, 3, 4, 5, 6])
    k = max(k, nmin)
    names = rng.sample(POOL, k)
    return [[n, 'f8' if all_f8 else ('i8' if n in ('rowid', 'run') and rng.random() < 0.8 else
                                     rng.choice(['f8', 'f8', 'f4', 'i8', 'i4']))] for n in names]


def gen_rows(rng, ctx, bs):
    r = rng.random()
    if r < 0.08:
        return 0
    if r < 0.2:
        return 1
    if r < 0.8:
        return rng.randrange(2, 40)
    if r < 0.93 or not ctx.thorough and r < 0.985:
        return rng.randrange(40, 400)
    return rng.choice([bs - 1, bs, bs + 1, 5000, 2 * bs + 1 if bs < 2500 else 5000])


def gen_files(rng, ctx, bs, all_f8=False, nfiles=None, same_schema=True, big=None):
    schema = gen_schema(rng, all_f8)
    nfiles = nfiles or rng.choice([1, 1, 2, 2, 3, 4])
    files = []
    bigpos = rng.randrange(nfiles)        # the big table is the first or a later file
    for i in range(nfiles):
        n = big if (big is not None and i == bigpos) else gen_rows(rng, ctx, bs)
        if big is not None and i != bigpos:
            n = rng.randrange(0, 5)
        files.append({'schema': [list(s) for s in schema], 'n': n, 'seed': rng.randrange(2 ** 31), 'fileno': i})
    if not same_schema and nfiles > 1:
        j = rng.randrange(1, nfiles)
        sch = [list(s) for s in schema]
        how = rng.choice(['extra', 'dtype', 'missing', 'order'])
        if how == 'extra':
            sch.append(['zz_extra', 'f8'])
        elif how == 'dtype':
            k = rng.randrange(len(sch))
            sch[k][1] = rng.choice([d for d in DT if d != sch[k][1]])
        elif how == 'missing' and len(sch) > 1:
            sch.pop(rng.randrange(len(sch)))
        else:
            rng.shuffle(sch)
        files[j]['schema'] = sch
    return files


def gen_opts(rng, files):
    names = [n for n, _ in files[0]['schema']]
    r = rng.random()
    if r < 0.25:
        keep = None
    elif r < 0.3:
        keep = []
    else:
        keep = [n for n in names if rng.random() < 0.6]
        if rng.random() < 0.35:
            keep.append(rng.choice(['not_in_file', 'sin_dec', 'RA']))
        rng.shuffle(keep)
    conv = rng.choice(CONVS)
    exc = None if rng.random() < 0.5 else [n for n in names + ['nope'] if rng.random() < 0.4]
    return keep, conv, exc


def gen_ds_case(rng, ctx, consts, fmt, cfg_fixed=None):
    st = consts['stages']
    all_f8 = fmt == 'csv'
    k = rng.randrange(2, 7)
    names = rng.sample([p for p in POOL if p != 'rowid'], k)
    stage_choices = [0, st[0], st[1], st[2], st[2], st[2], st[3], st[3], st[0] | st[2], st[2] | st[3], st[1] | st[3], 15]
    cfg = [[n, rng.choice(stage_choices)] for n in names]
    if cfg_fixed is not None:
        cfg = [list(x) for x in cfg_fixed]
        names = [n for n, _ in cfg]
    # the data-set level table: new fields and overrides of configuration-level entries
    ds = []
    for _ in range(rng.choice([0, 1, 1, 2])):
        if rng.random() < 0.4 and names:
            ds.append([rng.choice(names), rng.choice(stage_choices)])
        else:
            ds.append([rng.choice(['ds_a', 'ds_b', 'ds_c']), rng.choice([st[2], st[2], st[3], st[0], st[2] | st[3]])])
    ds = [list(x) for x in dict(ds).items()]
    merged = dict(cfg)
    merged.update(dict(ds))
    keep = [n for n in ['x', 'y', 'azi', 'extra_keep', 'rowid'] if rng.random() < 0.25]
    # renaming dictionaries: original (file) name -> new name; no chains
    def ren_for(fields):
        r = {}
        for n in fields:
            if rng.random() < 0.35:
                r[ORIG.get(n, n.upper() + '_o')] = n
        if rng.random() < 0.15:
            r['unused_orig'] = 'unused_new'
        return r
    wanted_e = [n for n, s in merged.items() if s & (st[0] | st[2])] + keep
    wanted_m = [n for n, s in merged.items() if s & (st[0] | st[1] | st[2] | st[3])] + keep
    eren = ren_for(sorted(set(wanted_e)))
    mren = eren if rng.random() < 0.5 else ren_for(sorted(set(wanted_m)))
    inv_e = {v: k2 for k2, v in eren.items()}
    inv_m = {v: k2 for k2, v in mren.items()}

    def schema_for(wanted, inv, drop_p):
        fields = []
        for n in dict.fromkeys(wanted):
            if n == 'extra_keep':
                continue
            if rng.random() < drop_p:
                continue
            fields.append(inv.get(n, n))
        for junk in ['junk1', 'junk2']:
            if rng.random() < 0.5:
                fields.append(junk)
        if 'rowid' not in fields and rng.random() < 0.5:
            fields.append('rowid')
        rng.shuffle(fields)
        fields = list(dict.fromkeys(fields))
        if not fields:
            fields = ['junk1']
        return [[f, 'f8' if all_f8 else ('i8' if f == 'rowid' else rng.choice(['f8', 'f8', 'f4', 'i8', 'i4']))] for f in fields]

    drop_p = rng.choice([0.0, 0.0, 0.0, 0.15])
    has_exp = rng.random() < 0.85
    has_mc = rng.random() < 0.7 or not has_exp

    def files_for(schema):
        nf = rng.choice([1, 1, 2, 3])
        fl = [{'schema': [list(s) for s in schema], 'n': gen_rows(rng, ctx, consts['bs']) if rng.random() < 0.1 else rng.randrange(0, 12),
               'seed': rng.randrange(2 ** 31), 'fileno': i} for i in range(nf)]
        if rng.random() < 0.04:
            fl[rng.randrange(nf)] = {'missing': True}
        return fl
    exp = files_for(schema_for(wanted_e, inv_e, drop_p)) if has_exp else []
    # MC files carry the exp fields under the names of the MC renaming dictionary
    mc = files_for(schema_for(wanted_m, inv_m, drop_p)) if has_mc else []
    # preparation: derive a field from a DATAPREPARATION-stage field (like I3Dataset does for sin_dec)
    prep = []
    if rng.random() < 0.5:
        for w, wanted, present in (('e', wanted_e, exp), ('m', wanted_m, mc)):
            if not present or rng.random() < 0.3:
                continue
            srcs = [n for n, s in merged.items() if (s & (st[0] if w == 'e' else (st[0] | st[1])))]
            if not srcs:
                continue
            src = rng.choice(srcs)
            dst = rng.choice(['derived', 'ds_a', 'sin_dec'])
            prep.append(['dup', w, src, dst])
            if rng.random() < 0.3:
                prep.append(['del', w, src])
    conv = rng.choice(CONVS)
    exc = None if rng.random() < 0.6 else [n for n in list(merged) if rng.random() < 0.3]
    def kinds_for(files):
        r = rng.random()
        if r < 0.2:
            return ['abs'] * len(files)
        if r < 0.4:
            return ['rel'] * len(files)
        ks = [rng.choice(['rel', 'abs']) for _ in files]
        if len(ks) > 1 and rng.random() < 0.6:
            ks[0], ks[1] = 'rel', 'abs'        # a relative name listed before an absolute one
        return ks
    pathkind = {'exp': kinds_for(exp), 'mc': kinds_for(mc)}
    return {'fmt': fmt, 'mode': rng.choice(['time', 'memory']) if fmt == 'npy' else 'time', 'pathkind': pathkind,
            'cfg': cfg, 'ds': ds, 'eren': [list(x) for x in eren.items()], 'mren': [list(x) for x in mren.items()],
            'keep': keep, 'conv': conv, 'exc': exc, 'prep': prep, 'livetime': rng.random() < 0.96,
            'exp': exp, 'mc': mc}


# ------------------------------------------------------------------------------------------

def run(ctx):
    rng = ctx.rng
    consts = source_constants()
    bs = consts['bs']
    ctx.rule = ('tables of 0..5000 rows (incl. bs-1, bs, bs+1 rows around the %d-row re-open block) with 1..6 fields of dtype '
                'f8/f4/i8/i4 (special floats incl. -0, inf, denormals, f4 overflow, NaN), 1..4 files (same layout; extra / missing / '
                're-typed / re-ordered fields in a later file), formats npy (both modes) / parquet / csv / pkl, keep_fields None / '
                'empty / subsets incl. names not in the file, dtype conversion maps with exception lists; data sets with stage '
                'tables at configuration and data-set level (overrides included), renaming dictionaries onto required names, '
                'preparation functions deriving / removing fields, missing files and fields; histories of 3..6 loads of 2..3 data '
                'sets on ONE Config and one Dataset object each (A with a data-set level table, B, A again, changed keep_fields / '
                'replaced data-set level table / plain load_data in between); a case is non-trivial when distinct '
                'by its full description' % bs)
    ctx.trusted_base += ['correspondence harness harness/props/c17.py (exact comparison of length, fields, dtypes, cell bits)',
                         'file codecs (numpy .npy, pickle, pyarrow parquet, numpy.loadtxt) and the file system are parameters of the '
                         'model; their round trip is compared on every run, not proved',
                         'numpy C casts / promote_types on f8,f4,i8,i4 re-implemented in Model/Load.lean (castCell, promoteDT)']
    ctx.assumptions += ['field names of a file are distinct; Python dicts are association lists with distinct keys',
                        'implementation-only oracles: dtype conversions stay within a numpy kind or widen int->float, and converted '
                        'integers fit the target (outside this domain the two modes differ: known findings; the model has both cast '
                        'paths and is compared there too, on finite in-range floats)',
                        'castCell converts int64 -> float32 through float64: equal to numpy only for |v| < 2**53 (generated ints are '
                        'bounded by 2**52)',
                        'renaming dictionaries do not chain (no new name is also an original name) in the data-set level oracle; '
                        'the model mirrors the sequential renaming of the code for all dictionaries',
                        'files are not modified while they are being loaded (fs is a function)',
                        'round 7 (registry / dispatch / text header): file names, formats and header lines are ASCII (the model has '
                        'ASCII str.lower / str.isspace); registered formats are str; hypotheses of c17_dispatch_by_format (formats '
                        'distinct, non-empty, none a suffix of another) are proved for the registry of the current source '
                        '(c17_registry_for_current_source); c17_header_roundtrip: whitespace-separated header (the default), comment '
                        'string without whitespace, names without whitespace / comment characters']
    ctx.extra['source_constants'] = consts

    load_cases, oracle_cases, ds_cases = [], [], []

    # ---- loader level
    n_sets = ctx.n(85, 900)
    bigs = [bs - 1, bs, bs + 1, 5000, bs + 1, bs] if ctx.thorough else [rng.choice([bs - 1, bs]), bs + 1, rng.choice([bs + 1, 5000])]
    for i in range(n_sets):
        all_f8 = rng.random() < 0.3
        big = bigs.pop() if (bigs and i % 7 == 3) else None
        same_schema = rng.random() < 0.85
        files = gen_files(rng, ctx, bs, all_f8=all_f8, same_schema=same_schema, big=big)
        if rng.random() < 0.05:
            files[rng.randrange(len(files))] = {'missing': True}
            if all(f.get('missing') for f in files):
                files.append({'schema': [['x', 'f8']], 'n': 2, 'seed': 1, 'fileno': 0})
        live = [f for f in files if not f.get('missing')]
        if not live or files[0].get('missing') and rng.random() < 0.5:
            pass
        for _ in range(1 if (big is not None and not ctx.thorough) else ctx.n(2, 3)):
            ref_files = [f for f in files if not f.get('missing')]
            keep, conv, exc = gen_opts(rng, ref_files)
            base = {'files': files, 'keep': keep, 'conv': conv, 'exc': exc}
            nrows = sum(f.get('n', 0) for f in files)
            ctx.count('rows:' + ('0' if nrows == 0 else '1' if nrows == 1 else '<%d' % bs if nrows < bs else '>=%d' % bs))
            ctx.count('files:%d' % len(files))
            ctx.count('keep:' + ('None' if keep is None else 'empty' if not keep else 'subset'))
            ctx.count('conv:' + ('None' if conv is None else 'empty' if not conv else 'chained' if conv_chained(conv) else 'plain'))
            ctx.count('layout:' + ('same' if same_schema else 'differs'))
            # a text file has no dtypes: only tables that are float64 throughout are "the same table" as csv
            csv_ok = all(dt == 'f8' for f in files if not f.get('missing') for _, dt in f['schema'])
            # (the correspondence sends every table as csv too: the model reads each column as float64 like the code)
            for fmt, mode in [('npy', 'time'), ('npy', 'memory'), ('parquet', 'time'), ('csv', 'time')]:
                if nrows > 600 and fmt != 'npy' and (not ctx.thorough or rng.random() < 0.5):
                    continue      # big tables in the other formats: implementation-only oracles (formats, reference)
                if big is not None and not ctx.thorough and mode == 'memory' and ctx.counters.get('model:big-memory-mode'):
                    continue      # the model's row loop is quadratic: one block-crossing table per quick run
                if big is not None and mode == 'memory':
                    ctx.count('model:big-memory-mode')
                load_cases.append(dict(base, fmt=fmt, mode=mode))
            oracle_cases.append(('modes', base))
            if same_schema:
                oracle_cases.append(('formats', base))
                if not any(f.get('missing') for f in files):
                    oracle_cases.append(('writeable', base))
                    if csv_ok and nrows < 300 and rng.random() < 0.5:
                        oracle_cases.append(('csv_comma', dict(base, conv=None, exc=None)))
                        if rng.random() < 0.4:
                            oracle_cases.append(('csv_options', dict(base, conv=None, exc=None)))
                    if nrows < 600 and rng.random() < 0.5:
                        oracle_cases.append(('reuse', dict(base, fmt=rng.choice(['npy', 'npy', 'parquet'] + (['csv'] if csv_ok else [])),
                                                           mode=rng.choice(['time', 'memory']))))
            oracle_cases.append(('reference', dict(base, fmt='npy', mode=rng.choice(['time', 'memory']))))
            if same_schema:
                oracle_cases.append(('reference', dict(base, fmt='parquet')))
                if csv_ok:
                    oracle_cases.append(('reference', dict(base, fmt='csv')))

    # ---- directed cases: one per branch of the multi-file code that random layouts may miss in a quick run
    base_sch = [['a', 'f8'], ['b', 'i8']]
    for tag, sch2, keep in (('extra-field', base_sch + [['zz', 'f8']], None), ('promote', [['a', 'f4'], ['b', 'i8']], None),
                            ('missing-field', [['a', 'f8']], None), ('reordered', [['b', 'i8'], ['a', 'f8']], None),
                            ('nothing-selected', base_sch, ['nope']), ('zero-rows-first', base_sch, ['a'])):
        files = [{'schema': base_sch, 'n': 0 if tag == 'zero-rows-first' else 3, 'seed': 11, 'fileno': 0},
                 {'schema': sch2, 'n': 2, 'seed': 12, 'fileno': 1}]
        base = {'files': files, 'keep': keep, 'conv': None, 'exc': None}
        ctx.count('directed:' + tag)
        for fmt, mode in [('npy', 'time'), ('npy', 'memory'), ('parquet', 'time'), ('csv', 'time')]:
            load_cases.append(dict(base, fmt=fmt, mode=mode))
        oracle_cases.append(('modes', base))

    for conv in ([('i8', 'i4'), ('i4', 'f4')], [('f8', 'f4'), ('f4', 'f8')]):
        base = {'files': [{'schema': [['a', 'f8'], ['b', 'i8'], ['c', 'i4'], ['e', 'f4']], 'n': 4, 'seed': 5, 'fileno': 0}],
                'keep': None, 'conv': conv, 'exc': ['e']}
        ctx.count('directed:chained-conversion-map')
        for fmt, mode in [('npy', 'time'), ('npy', 'memory'), ('parquet', 'time'), ('csv', 'time')]:
            load_cases.append(dict(base, fmt=fmt, mode=mode))
        oracle_cases.append(('modes', base))
        oracle_cases.append(('reference', dict(base, fmt='npy', mode='memory')))

    # ---- field names that contain each other (dec / true_dec / sin_true_dec, ra / true_ra, energy / log_energy, a / aa,
    #      Dec / dec): every membership test on field names must be exact equality, in every argument form
    for fam in rng.sample(NAME_FAMILIES, ctx.n(2, len(NAME_FAMILIES))):
        sch = [[n, rng.choice(['f8', 'f8', 'i8'])] for n in fam]
        rng.shuffle(sch)
        files = [{'schema': sch, 'n': 2, 'seed': rng.randrange(2 ** 31), 'fileno': 0}]
        for n in fam:
            for form in ('str1', 'list', 'tuple'):
                for what in ('keep', 'exc'):
                    forms = {'keep': form if what == 'keep' else 'list', 'exc': form if what == 'exc' else 'list',
                             'convval': 'dtype', 'paths': 'list'}
                    base = {'files': files, 'keep': [n] if what == 'keep' else None, 'conv': [('f8', 'f4'), ('i8', 'i4')],
                            'exc': [n] if what == 'exc' else None, 'forms': forms}
                    ctx.count('names:contain-each-other:%s-as-%s' % (what, form))
                    for fmt, mode in [('npy', 'time'), ('npy', 'memory'), ('parquet', 'time')]:
                        load_cases.append(dict(base, fmt=fmt, mode=mode))
                    if form == 'str1':
                        oracle_cases.append(('modes', base))
                        oracle_cases.append(('reference', dict(base, fmt='npy', mode='memory')))
                        oracle_cases.append(('reference', dict(base, fmt='parquet')))

    # ---- conversions outside the agreement domain of the two cast paths (correspondence only: the model has both
    #      paths; the implementation-only `modes` oracle reports these as the two open findings)
    for _ in range(ctx.n(12, 120)):
        files = gen_files(rng, ctx, bs, nfiles=rng.choice([1, 2]), same_schema=True)
        kind = rng.choice(['float-to-int', 'int-overflow'])
        for f in files:
            f['n'] = rng.randrange(1, 9)
            if kind == 'float-to-int':
                f['tame'] = True
            else:
                f['small_ints'] = False
        conv = rng.choice([[('f8', 'i8')], [('f4', 'i4'), ('f8', 'i4')], [('f8', 'i8'), ('f4', 'i8')]]) if kind == 'float-to-int' \
            else [('i8', 'i4')]
        names = [n for n, _ in files[0]['schema']]
        base = {'files': files, 'keep': None, 'conv': conv, 'exc': [n for n in names if rng.random() < 0.3]}
        ctx.count('conv:outside-agreement-domain:' + kind)
        for fmt, mode in [('npy', 'time'), ('npy', 'memory'), ('parquet', 'time')]:
            load_cases.append(dict(base, fmt=fmt, mode=mode))

    for conv, sch, cols in (([('i8', 'i4')], [['b', 'i8']], {'b': [1099511627781, 2]}), ([('f8', 'i8')], [['a', 'f8']], {'a': [1.5, -2.75]})):
        base = {'files': [{'schema': sch, 'cols': cols}], 'keep': None, 'conv': conv, 'exc': None}
        ctx.count('directed:cast-paths-disagree')
        for fmt, mode in [('npy', 'time'), ('npy', 'memory'), ('parquet', 'time')]:
            load_cases.append(dict(base, fmt=fmt, mode=mode))

    # ---- data-set level
    from skyllh.core.config import Config
    default_table = [[k2, int(v2)] for k2, v2 in Config()['datafields'].items()]
    for i_ds in range(ctx.n(160, 2000)):
        fmt = rng.choice(['npy', 'npy', 'npy', 'parquet', 'csv'])
        # every 12th data set uses the default stage table of skyllh.core.config (as shipped)
        c = gen_ds_case(rng, ctx, consts, fmt, cfg_fixed=default_table if i_ds % 12 == 5 else None)
        ctx.count('ds:stage-table=' + ('default-of-Config' if i_ds % 12 == 5 else 'generated'))
        ds_cases.append(c)
        ctx.count('ds:fmt=' + fmt)
        ctx.count('ds:dataset-level-table=' + ('yes' if c['ds'] else 'no'))
        ctx.count('ds:renaming=' + ('yes' if c['eren'] or c['mren'] else 'no'))
        for part in ('exp', 'mc'):
            ctx.count('ds:paths:' + path_class(c['pathkind'][part]))
        oracle_cases.append(('dataset', c))
        if len(ds_cases) % ctx.n(10, 25) == 1 and not any(f.get('missing') for f in c['exp'] + c['mc']):
            oracle_cases.append(('str_args', dict(c, prep=[])))
        if len(ds_cases) % ctx.n(16, 40) == 2:
            oracle_cases.append(('pkl_dataset', dict(c, fmt='npy')))
    # one data set per run whose first exp file crosses the re-open block
    for _ in range(ctx.n(1, 4)):
        c = gen_ds_case(rng, ctx, consts, 'npy')
        for part in ('exp', 'mc'):
            if c[part] and not c[part][-1].get('missing'):
                c[part][-1]['n'] = rng.choice([bs - 1, bs, bs + 1, 5000])
                break
        c['mode'] = 'memory'
        ds_cases.append(c)
        ctx.count('ds:rows>=%d' % (bs - 1))
        oracle_cases.append(('dataset', c))
    # all keep-field subsets of one small table (exhaustive for that table), both modes + parquet
    ex_schema = gen_schema(rng, nmin=4)[:5]
    ex_files = [{'schema': [list(x) for x in ex_schema], 'n': rng.randrange(0, 7), 'seed': rng.randrange(2 ** 31), 'fileno': i}
                for i in range(2)]
    ex_names = [n for n, _ in ex_schema]
    for mask in range(2 ** len(ex_names)):
        keep = [n for k, n in enumerate(ex_names) if mask >> k & 1]
        base = {'files': ex_files, 'keep': keep, 'conv': [('f8', 'f4')], 'exc': ex_names[:1]}
        ctx.count('keep:exhaustive-subsets')
        for fmt, mode in [('npy', 'time'), ('npy', 'memory'), ('parquet', 'time')]:
            load_cases.append(dict(base, fmt=fmt, mode=mode))
        oracle_cases.append(('modes', base))
        oracle_cases.append(('reference', dict(base, fmt='npy', mode='memory')))
    # the 16 x 16 stage table
    for s in range(16):
        for ss in range(16):
            oracle_cases.append(('stage_check', {'stage': s, 'stages': ss}))

    # ---- run the implementation and build the model requests (one driver batch)
    reqs, impls = [], []
    with workdir() as d:
        for c in load_cases:
            paths, arrs = materialise(d, c['files'], c['fmt'])
            fm = c.get('forms') or arg_forms(c)
            for kk, vv in fm.items():
                ctx.count('forms:%s=%s' % (kk, vv))
            impls.append(impl_load(paths, c['fmt'], c['mode'], c['keep'], c['conv'], c['exc'], fm))
            reqs.append(load_request(c, arrs, bs))
            for p in paths:
                if os.path.exists(p):
                    os.unlink(p)
    n_load = len(reqs)
    ds_impls, ds_keeps = [], []
    for c in ds_cases:
        rec = []
        ds_impls.append(impl_dataset(c, c['fmt'], c['mode'], record=rec))
        ds_keeps.append(rec)
        earrs = [None if f.get('missing') else make_table(f) for f in c['exp']]
        marrs = [None if f.get('missing') else make_table(f) for f in c['mc']]
        reqs.append(ds_request(c, earrs, marrs, consts))
        reqs.append(keepf_request(c, consts))
    for s in range(16):
        for ss in range(16):
            reqs.append('orcheck %d %d' % (s, ss))
    answers = ctx.driver('C17', reqs)

    suspicious = []
    for c, impl, ans in zip(load_cases, impls, answers[:n_load]):
        ctx.case(key=('load', c), desc={'kind': 'load', 'case': c} if ctx.evaluations % 211 == 0 else None)
        ctx.count('corr:load:%s:%s' % (c['fmt'], c['mode']))
        for b in set(branches_load(c, ans, bs)):
            ctx.count('branch:' + b)
        model = parse_load_answer(ans)
        ctx.count('outcome:' + (impl[1] if impl[0] == 'err' else 'ok'))
        if not same(impl, model, _multi(c)):
            suspicious.append(('load', c, impl, model, first_diff(impl, model)))
        elif impl[0] == 'ok' and impl[3] != model[3]:
            ctx.count('diagnostic:field-order-differs')
    k = n_load
    from skyllh.core.datafields import DataFieldStages
    for c, impl, rec in zip(ds_cases, ds_impls, ds_keeps):
        ctx.case(key=('ds', c), desc={'kind': 'dataset', 'case': c} if ctx.evaluations % 97 == 0 else None)
        ctx.count('corr:ds')
        for b in set(branches_ds(c, answers[k], consts)):
            ctx.count('branch:' + b)
        model = parse_ds_answer(answers[k])
        kf = dict(x.split('=') for x in answers[k + 1].split(' '))
        k += 2
        ctx.count('ds:outcome:' + (impl[1] if impl[0] == 'err' else 'ok'))
        if not same_ds(impl, model, _multi(c)):
            suspicious.append(('ds', c, impl, model, diff_ds(impl, model)))
            continue
        # the keep-field lists handed to the file loaders (sets; the code builds them with set())
        want = ([sorted(set(kf['exp'].split(',')) - {'-'})] if c['exp'] else []) + \
               ([sorted(set(kf['mc'].split(',')) - {'-'})] if c['mc'] else [])
        if c['fmt'] != 'npy':
            ctx.count('keepf:not-recorded(format %s)' % c['fmt'])
        elif impl[0] == 'ok' and len(rec) != len(want):
            raise MachineryError('C17: %d recorded keep-field lists for %d loaded parts' % (len(rec), len(want)))
        else:
            ctx.count('keepf:compared', len(rec))
        if rec != want[:len(rec)]:
            suspicious.append(('ds', c, ('keep_fields', rec), ('keep_fields', want), 'keep-field lists handed to the loaders: %r vs model %r' % (rec, want)))
    for s in range(16):
        for ss in range(16):
            ctx.count('corr:orcheck')
            ctx.count('branch:orCheck:' + ('true' if answers[k] == '1' else 'false'))
            if ('1' if DataFieldStages.or_check(s, ss) else '0') != answers[k]:
                suspicious.append(('stage', {'stage': s, 'stages': ss}, None, answers[k], 'or_check(%d,%d)' % (s, ss)))
            k += 1

    # ---- property oracles on the implementation
    for name, oc in oracle_cases:
        ctx.case(key=(name, oc), desc={'oracle': name, 'case': oc} if ctx.evaluations % 389 == 0 else None)
        ctx.count('oracle:' + name)
        res = ORACLES[name](ctx, oc)
        if res:
            ctx.violation(name, oc, res, signature='C17/%s/%s' % (name, _classify(name, res)))

    # ---- IceCube data sets with a good-run list; pkl loader
    icases = [gen_i3_case(rng, ctx, consts) for _ in range(ctx.n(54, 600))]
    icases += [gen_i3_case(rng, ctx, consts, force={'gdrop': g}) for g in (None, 'livetime', 'livetime+stop', 'start', 'run', 'stop')]
    kcases = [{'objs': [rng.choice(['a', 'b', 'c', None if rng.random() < 0.15 else 'd']) for _ in range(rng.randrange(0, 5))],
               'kwargs': rng.random() < 0.5} for _ in range(ctx.n(25, 200))]
    kcases += [{'objs': ['a', None, 'b'], 'kwargs': False}, {'objs': ['a'], 'kwargs': True}, {'objs': [], 'kwargs': False}]
    # (all requests of the remaining blocks go through ONE more driver process)
    pcases = [gen_paths(rng) for _ in range(ctx.n(60, 600))]
    pcases.append({'entries': [['r', 'exp_0.pkl'], ['a', '/other/dir/exp_1.pkl'], ['r', 'exp_2.pkl']], 'load': True})
    with workdir() as d:
        pimpls, preqs = [], []
        for c in pcases:
            ds, listed = impl_abs_paths(d, c)
            pimpls.append(list(ds.get_abs_pathfilename_list(list(listed))))
            preqs.append(abspaths_request(ds.root_dir, c))
    rcases = [gen_rename(rng) for _ in range(ctx.n(200, 3000))]
    rcases += [{'names': ['a', 'b'], 'ren': [['a', 'b'], ['b', 'c']]}, {'names': ['a', 'b'], 'ren': [['b', 'c'], ['a', 'b']]},
               {'names': ['a', 'b'], 'ren': [['a', 'b'], ['b', 'a']]}, {'names': ['a', 'b', 'c'], 'ren': [['a', 'c'], ['b', 'c']]}]
    hist = [gen_history(rng, ctx, consts) for _ in range(ctx.n(40, 400))]
    hreqs = [history_requests(h, consts) for h in hist]
    acases = [gen_alias_case(rng) for _ in range(ctx.n(40, 400))]
    acases += [{'initial': ['f0', 'f1'], 'ops': [['app', 'x0']], 'which': w, 'via': v, 'form': 'list', 'load': True}
               for w in ('exp', 'mc') for v in ('constructor', 'setter')]
    acases.append({'initial': ['f0'], 'ops': [['rev']], 'which': 'exp', 'via': 'constructor', 'form': 'tuple'})
    # ---- round 7: loader registry / dispatch, text header (the registrations run first: the registry is process state)
    reg0 = r7.mirror(consts, _recording_format)
    gcases = [r7.gen_register(rng, reg0) for _ in range(ctx.n(10, 40))]
    gcases += [{'formats': [reg0[0][0]], 'form': 'str', 'cls': 'loader'}, {'formats': ['.r7fixA', reg0[1][0], '.r7fixB'], 'form': 'list', 'cls': 'loader'},
               {'formats': ['.r7fixC'], 'form': 'list', 'cls': 'notloader'}, {'formats': [], 'form': 'other', 'cls': 'loader'},
               {'formats': ['.r7fixD', '.r7fixE'], 'form': 'tuple', 'cls': 'loader'}]
    gimpls = [r7.impl_register(c) for c in gcases]
    greqs = [r7.register_request(c, g[0], g[1]) for c, g in zip(gcases, gimpls)]
    reg1 = [list(e) for e in r7.mirror(consts, _recording_format)]
    dcases = [r7.gen_dispatch(rng, reg1) for _ in range(ctx.n(150, 2000))]
    dcases += [{'paths': ['a.NPY', 'b.csv'], 'form': 'list'}, {'paths': ['b.csv', 'a.npy'], 'form': 'tuple'}, {'paths': ['a.txt'], 'form': 'str'},
               {'paths': [], 'form': 'list'}, {'paths': [], 'form': 'other', 'other': 'int'}, {'paths': ['x.parquet'], 'form': 'str'},
               {'paths': ['npy'], 'form': 'list'}, {'paths': ['f.a.zz'], 'form': 'list'}, {'paths': ['ax.r7x'], 'form': 'list'}]
    dreqs = [r7.dispatch_request(c, reg1) for c in dcases]
    xcases = [r7.gen_header(rng) for _ in range(ctx.n(150, 2000))]
    xcases += [dict(comment='#', sep=None, line='#  \n', ncols=2, nrows=1, keep=None, keep_form='list', kind='comment-only'),
               dict(comment='#', sep=None, line='# ra dec\n', ncols=2, nrows=2, keep=['dec'], keep_form='list', kind='ok'),
               dict(comment='#', sep=',', line='# ra, dec ,e\n', ncols=3, nrows=1, keep=['e', 'ra'], keep_form='tuple', kind='ok'),
               dict(comment='#', sep=None, line='ra dec\n', ncols=2, nrows=1, keep=None, keep_form='list', kind='no-comment'),
               dict(comment='#', sep=None, line='# ra dec\n', ncols=2, nrows=1, keep=[], keep_form='list', kind='ok'),
               dict(comment='#', sep='', line='# ra dec\n', ncols=2, nrows=1, keep=None, keep_form='list', kind='empty-separator')]
    xreqs = [r7.header_request(c) for c in xcases]
    batch2 = [[i3_request(c, consts) for c in icases], [pkl_request(c) for c in kcases], preqs,
              [rename_request(c) for c in rcases], [r for rs in hreqs for r in rs if r], [alias_request(c) for c in acases],
              greqs, dreqs, xreqs]
    ans2 = ctx.driver('C17', [r for part in batch2 for r in part])
    cuts = [0]
    for part in batch2:
        cuts.append(cuts[-1] + len(part))
    ians = ans2[cuts[0]:cuts[2]]
    pans, rans, hans_list, aans = ans2[cuts[2]:cuts[3]], ans2[cuts[3]:cuts[4]], ans2[cuts[4]:cuts[5]], ans2[cuts[5]:cuts[6]]
    gans, dans, xans = ans2[cuts[6]:cuts[7]], ans2[cuts[7]:cuts[8]], ans2[cuts[8]:cuts[9]]
    for c, g, ans in zip(gcases, gimpls, gans):
        ctx.case(key=('register', c), desc={'kind': 'register', 'case': c} if ctx.evaluations % 7 == 0 else None)
        pre, clsname, outcome, probes = g
        post, want = r7.ref_register(pre, c, clsname)
        ctx.count('branch:register:' + ('ok' if want == 'ok' else ('typeError-formats' if c['form'] == 'other' else 'typeError-class')
                                       if want == 'TypeError' else 'keyError-first' if len(post) == len(pre) else 'keyError-after-some'))
        ctx.count('forms:register:' + c['form'])
        res = r7.check_register(c, pre, clsname, outcome, probes)
        if res:
            ctx.violation('register', c, res, signature='C17/register/' + ('outcome' if 'expected' in res and 'probe' not in res else 'registry'))
            continue
        model = r7.parse_register(ans)
        if model != (post, want):
            ctx.violation('register', c, 'register_FileLoader: reference %r, model %r' % ((post, want), model), kind='correspondence',
                          relation='exact: registry after the call, error type', signature='C17/corr/register', no_failing_input=True)
            break
    with workdir() as d:
        ximpls = [r7.impl_header(d, c, str(i)) for i, c in enumerate(xcases)]
    for c, ans in zip(dcases, dans):
        ctx.case(key=('dispatch', c), desc={'kind': 'dispatch', 'case': c} if ctx.evaluations % 53 == 0 else None)
        ctx.count('branch:' + r7.branch_dispatch(c, ans))
        ctx.count('forms:dispatch:' + c['form'])
        if c['paths']:
            ctx.count('dispatch:formats-matching-first-name=%d' % min(2, sum(c['paths'][0].lower().endswith(f.lower()) for f, _ in reg1)))
            if len(set(os.path.splitext(p_)[1].lower() for p_ in c['paths'])) > 1:
                ctx.count('dispatch:mixed-extension-list')
        res = r7.o_dispatch(ctx, c)
        if res:
            ctx.violation('dispatch', c, res, signature='C17/dispatch/' + ('path-list' if 'loader lists' in res else 'first-name' if 'alone' in res else 'class'))
            continue
        got, model = r7.impl_dispatch(c), r7.parse_dispatch(ans)
        if got != model:
            ctx.violation('corr_dispatch', c, 'create_FileLoader(%r): implementation %r, model %r' % (c['paths'], got, model), kind='correspondence',
                          relation='exact: class, path list / error type', signature='C17/corr/dispatch', no_failing_input=True)
            break
    for c, got, ans in zip(xcases, ximpls, xans):
        ctx.case(key=('header', c), desc={'kind': 'header', 'case': c} if ctx.evaluations % 59 == 0 else None)
        for b in r7.branches_header(c, ans):
            ctx.count('branch:' + b)
        ctx.count('header:' + c['kind'] + (':sep' if c['sep'] else ':whitespace'))
        ctx.count('forms:header:via-' + c.get('via', 'class'))
        model = r7.parse_header(ans, c['ncols'])
        if got[0] != model[0] or got[-1] != model[-1]:
            res = r7.o_header(ctx, c)
            if res:
                ctx.violation('header', c, res, signature='C17/header/' + ('error' if 'ValueError' in res else 'columns'))
            else:
                ctx.violation('corr_header', c, 'text header %r: implementation %r, model %r' % (c['line'], got, model), kind='correspondence',
                              relation='exact: field -> file column / error type', signature='C17/corr/header', no_failing_input=True)
                break
        elif rng.random() < 0.25:
            res = r7.o_header(ctx, c)
            if res:
                ctx.violation('header', c, res, signature='C17/header/' + ('error' if 'ValueError' in res else 'columns'))
    # ---- file lists handed in at definition: the data set keeps its own copy
    for c, ans in zip(acases, aans):
        ctx.case(key=('alias', c), desc={'kind': 'alias', 'case': c} if ctx.evaluations % 131 == 0 else None)
        ctx.count('alias:%s:%s:%s' % (c['which'], c['via'], c['form']))
        if rng.random() < 0.25:
            c['load'] = True
        res = o_definition_isolated(ctx, c)
        if res:
            ctx.violation('definition_isolated', c, res, signature='C17/definition_isolated/' + (
                'not-a-list' if 'is a ' in res and 'documented' in res else 'loads-other-files' if 'loads rowid' in res else 'list-aliased'))
            continue
        got, _ = impl_alias(c)
        model = [] if ans == '-' else ans.split(',')
        if list(got) != model:
            ctx.violation('corr_alias', c, 'file list after the caller changed its list object: implementation %r, model %r' % (list(got), model),
                          kind='correspondence', relation='exact', signature='C17/corr/alias', no_failing_input=True)
            break
    for c, ans in zip(icases, ians):
        ctx.case(key=('i3', c), desc={'kind': 'i3', 'case': c} if ctx.evaluations % 61 == 0 else None)
        ctx.count('i3:grl-files=%d' % len(c['grl']))
        for b in set(branches_i3(c, ans)):
            ctx.count('branch:' + b)
        ctx.count('i3:livetime=' + ('given' if c['livetime'] is not None else 'None'))
        res = o_i3(ctx, c)
        if res:
            ctx.violation('i3', c, res, signature='C17/i3/' + ('livetime' if 'live time' in res else 'selection' if 'events kept' in res
                                                                 or 'length' in res else 'error' if 'raised' in res else 'other'))
            continue
        impl = impl_i3(c)
        ctx.count('i3:outcome:' + (impl[1] if impl[0] == 'err' else 'ok'))
        model = parse_i3_answer(ans)
        if not same_i3(impl, model):
            ctx.violation('corr_i3', c, 'I3Dataset.load_and_prepare_data: model and implementation disagree (%s) but the i3 oracle '
                          'does not fail' % diff_i3(impl, model), kind='correspondence',
                          relation='exact (np.sin fields: 5e-16)', impl_output=str(impl)[:1500], model_output=str(model)[:1500],
                          signature='C17/corr/i3', no_failing_input=True)
            break
    for c, ans in zip(kcases, ians[len(icases):]):
        ctx.case(key=('pkl', c))
        ctx.count('pkl:files=%d' % len(c['objs']))
        ctx.count('branch:pkl:' + ('fileMissing' if ans.startswith('err') else 'empty' if ans == 'many -' else ans.split(' ')[0]))
        impl = impl_pkl(c)
        model = 'err ' + PYTYPE.get(ans[4:], ans[4:]) if ans.startswith('err ') else ans
        if impl != model:
            ctx.violation('corr_pkl', c, 'PKLFileLoader.load_data on %r: implementation %r, model %r' % (c['objs'], impl, model),
                          kind='correspondence', relation='exact', signature='C17/corr/pkl', no_failing_input=True)
            break

    # ---- path resolution: listed mixes of relative / absolute names (order kept) vs model + oracle
    for c in pcases:
        ctx.case(key=('paths', c), desc={'kind': 'paths', 'case': c} if ctx.evaluations % 173 == 0 else None)
        ctx.count('paths:listed:' + path_class(['abs' if k == 'a' else 'rel' for k, _ in c['entries']]))
        res = o_abs_paths(ctx, c)
        if res:
            ctx.violation('abs_paths', c, res, signature='C17/abs_paths/' + ('aux-order' if 'load_aux_data' in res else 'listed-order'))
            continue
    for c, got, ans in zip(pcases, pimpls, pans):
        ctx.count('corr:paths')
        for b in set(['absPaths:empty'] if not c['entries'] else ['absPaths:abs' if k == 'a' else 'absPaths:rel' for k, _ in c['entries']]):
            ctx.count('branch:' + b)
        model = [] if ans == '-' else ans.split(',')
        if got != model and not any(v['oracle'] == 'abs_paths' for v in ctx.violations):
            ctx.violation('corr_paths', c, 'get_abs_pathfilename_list: implementation %r, model %r' % (got, model),
                          kind='correspondence', relation='exact list of resolved names',
                          signature='C17/corr/paths', no_failing_input=True)
            break

    # ---- rename_fields with arbitrary dictionaries (chained, colliding, onto existing names) vs the model
    for c, ans in zip(rcases, rans):
        ctx.case(key=('rename', c), desc={'kind': 'rename', 'case': c} if ctx.evaluations % 499 == 0 else None)
        for cl in rename_class(c):
            ctx.count('rename:' + cl)
        for b in set(branches_rename(c, ans)):
            ctx.count('branch:' + b)
        impl, iorder = impl_rename(c)
        model, morder = parse_rename(ans)
        if impl != model:
            ctx.violation('corr_rename', c, 'rename_fields(%r) on fields %r: implementation %r, model %r' % (
                dict(c['ren']), c['names'], impl, model), kind='correspondence',
                relation='exact: field -> original field (or error type)', impl_output=impl, model_output=model,
                signature='C17/corr/rename', no_failing_input=True)
            break
        if iorder != morder:
            ctx.count('diagnostic:rename-field-order-differs')

    # ---- histories of loads on one Config / one Dataset object
    hans = iter(hans_list)
    for h, rs in zip(hist, hreqs):
        ctx.case(key=('history', h), desc={'kind': 'history', 'case': h} if ctx.evaluations % 41 == 0 else None)
        ctx.count('history:steps=%d' % len(h['steps']))
        ctx.count('history:datasets=%d' % len(h['datasets']))
        ctx.count('history:shared-renaming-dict=%s' % bool(h.get('share_ren')))
        ctx.count('history:with-preparation=%s' % any(c['prep'] for c in h['datasets']))
        steps = run_history(h)
        answers = [next(hans) for r in rs if r]
        for st in steps:
            ctx.count('history:outcome:' + (st[0][1] if st[0][0] == 'err' else 'ok'))
        res = o_history_from(h, steps)
        if res:
            ctx.violation('history', h, res, signature='C17/history/' + _classify('history', res))
            continue
        d = _compare_history(h, steps, rs, answers)
        if d:
            ctx.violation('corr_history', h, 'model and implementation disagree on a history of loads on one Config (%s) '
                          'but the history oracle (Config unchanged, equal to a fresh Config, repeatable) does not fail' % d,
                          kind='correspondence', relation='exact, per step: cfg[datafields] post-state and result',
                          signature='C17/corr/history', no_failing_input=True)

    # ---- disagreements model / implementation: look for a failing input, else report the relation
    seen = set()

    def size(c):
        return sum(f.get('n', 0) for f in c.get('files', []) + c.get('exp', []) + c.get('mc', []))
    for kind, c, impl, model, d in sorted(suspicious, key=lambda x: size(x[1])):
        if kind in seen:
            continue
        seen.add(kind)
        hit = None
        if kind == 'load':
            base = {kk: c[kk] for kk in ('files', 'keep', 'conv', 'exc')}
            for name, oc in (('reference', c), ('modes', base), ('formats', base)):
                res = ORACLES[name](ctx, oc)
                if res:
                    hit = (name, oc, res)
                    break
        elif kind == 'ds':
            res = o_dataset(ctx, c)
            if res:
                hit = ('dataset', c, res)
        else:
            res = o_stage_check(ctx, c)
            if res:
                hit = ('stage_check', c, res)
        if hit:
            ctx.violation(hit[0], hit[1], hit[2], impl_output=str(impl)[:2000], model_output=str(model)[:2000],
                          signature='C17/%s/%s' % (hit[0], _classify(hit[0], hit[2])))
        else:
            oname = {'load': 'corr_load', 'ds': 'corr_ds', 'stage': 'stage_check'}[kind]
            ctx.violation(oname, c, 'model and implementation disagree (%s) but no property oracle fails on this input' % d,
                          kind='correspondence', relation='exact: length, field set, dtypes, cell bit patterns / error class',
                          impl_output=str(impl)[:2000], model_output=str(model)[:2000],
                          signature='C17/corr/' + kind, no_failing_input=True)
    ctx.extra['correspondence_disagreements'] = len(suspicious)
    zero = [b for b in ALL_BRANCHES if not ctx.counters.get('branch:' + b)]
    ctx.extra['zero_hit_branches'] = zero
    ctx.extra['branches_hit'] = '%d of %d' % (len(ALL_BRANCHES) - len(zero), len(ALL_BRANCHES))
    if zero:
        ctx.note('C17: branches of the model not driven by this run: %s' % ', '.join(zero))


MANIFEST = dict(
    text=('Lean theorems about the executable model of the loading path: the memory-efficient row loop (with the re-open every bs rows) '
          'equals the time-efficient column projection for every well-formed file and every number of rows; several files give every '
          'row exactly once in file order; only kept fields, with the requested dtype conversion except for the listed fields; the '
          'parquet and text loaders agree with the npy loader on the same table; a renamed required field is loaded under its original '
          'name and present under its new name; after load_and_prepare_data every analysis-stage field of the merged '
          '(configuration + data set) stage table is present, nothing but required/kept fields remains, and a missing required field '
          'or file is an error. The model is compared exactly (cell bit patterns) with NPY/Parquet/Text loaders and '
          'Dataset.load_and_prepare_data on every run; implementation-only oracles compare modes, formats and a numpy reference. '
          'Round 7: the loader registry and create_FileLoader (a name ending in a registered format reaches the class registered '
          'for it, the first name decides, unknown format / empty list are errors, registration keeps existing entries) and the '
          'table header of text files (header round trip, usecols = the file column carrying each kept name) are modelled, proved '
          'and compared with the real functions on every run.'),
    note=('File codecs, the file system, numpy casts and pyarrow are parameters of the model (compared, not proved); pkl files are '
          'checked by oracle only (the loader returns the unpickled object); kind-changing or overflowing dtype conversions are '
          'outside the proved domain (two open findings: the modes differ there).'),
    design='DESIGN.md section 4 C17',
    technique='Lean 4 proof (structural induction over rows / files / association lists, refinement of the row loop to the column '
              'projection) + exact model/implementation correspondence + differential oracles')
